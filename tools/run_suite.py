#!/usr/bin/env python3
"""Run the repository's pinned suite (guard off) and compare with BASELINE.json's stable_pass list."""
import json, subprocess, sys, os, xml.etree.ElementTree as ET
out = sys.argv[1] if len(sys.argv) > 1 else '/tmp/miros_suite.junit.xml'
env = dict(os.environ); env.pop('MIROS_VERIF', None)
p = subprocess.run('cd /repo && /venv/bin/python -m pytest -ra -q -p no:cacheprovider --timeout=900 '
                   '--continue-on-collection-errors --junitxml=%s' % out, shell=True, capture_output=True, text=True, env=env)
base = json.load(open('/root/.vp/BASELINE.json'))
passed = set()
for tc in ET.parse(out).getroot().iter('testcase'):
    if not any(ch.tag in ('failure', 'error', 'skipped') for ch in tc):
        passed.add('%s::%s' % (tc.get('classname'), tc.get('name')))
missing = [t for t in base['stable_pass'] if t not in passed]
print('passed %d, stable baseline %d, missing %d' % (len(passed), len(base['stable_pass']), len(missing)))
for m in missing: print('  MISSING', m)
sys.exit(1 if missing else 0)
