#!/usr/bin/env python3
"""import_neutral.py <pid>: take /tmp/nt_<pid>/neutral/{1,2,3} (behaviour-preserving refactorings made by a sub-agent),
store them under neutral/<pid>-<n>/, confirm each (demo passes on base and patched tree, pinned suite with the patch) and run
the property's check on the patched tree.  Expected: exit 0 (still verifies).  Exit 2 = the sidecar no longer fits and
nothing failed natively (undecided, no alarm).  Exit 1 = a false alarm."""
import json, os, shutil, subprocess, sys
ROOT = os.path.dirname(os.path.dirname(os.path.abspath(__file__)))
pid = sys.argv[1]
extra = [a for a in sys.argv[2:] if not a.startswith('--')]
wt = '/tmp/nt_%s' % pid
for n in ('1', '2', '3'):
    src = os.path.join(wt, 'neutral', n)
    dst = os.path.join(ROOT, 'neutral', '%s-%s' % (pid, n))
    if os.path.isdir(src):
        os.makedirs(dst, exist_ok=True)
        for f in ('patch.diff', 'demo.py', 'notes.md'):
            if os.path.exists(os.path.join(src, f)):
                shutil.copy(os.path.join(src, f), os.path.join(dst, f))
    if not os.path.exists(os.path.join(dst, 'patch.diff')):
        continue
    args = [sys.executable, os.path.join(ROOT, 'tools', 'eval_seeded.py'), dst, pid] + extra
    if '--no-suite' not in sys.argv:
        args.append('--suite')
    r = subprocess.run(args, capture_output=True, text=True)
    try:
        res = json.loads(r.stdout)
    except Exception:
        print(pid, n, 'EVAL FAILED', r.stdout[-500:], r.stderr[-500:])
        continue
    if 'suite' in res:
        open(os.path.join(dst, 'suite.txt'), 'w').write(res.get('suite', ''))
    elif os.path.exists(os.path.join(dst, 'suite.txt')):
        res['suite'] = open(os.path.join(dst, 'suite.txt')).read()
    checks = {k[6:]: v for k, v in res.items() if k.startswith('check_')}
    verdict = 'verifies' if all(v['exit'] == 0 for v in checks.values()) else \
        ('FALSE ALARM' if any(v['exit'] == 1 for v in checks.values()) else 'undecided (exit 2)')
    meta = {'id': '%s-%s' % (pid, n), 'kind': 'behaviour-preserving refactoring', 'property': pid,
            'origin': 'independent sub-agent given only the property text and a scratch worktree',
            'confirmed': {'demo_exit_on_unmodified_tree': res.get('demo_base'), 'demo_exit_with_patch': res.get('demo_patched'),
                          'patch_applies': res.get('apply'),
                          'test_suite_with_patch': (res.get('suite', '').strip().splitlines() or [''])[-1]},
            'checks': checks, 'verdict': verdict}
    json.dump(meta, open(os.path.join(dst, 'meta.json'), 'w'), indent=1)
    print('%s-%s demo base=%s patched=%s apply=%s suite=%r -> %s' % (
        pid, n, res.get('demo_base'), res.get('demo_patched'), res.get('apply'), meta['confirmed']['test_suite_with_patch'], verdict))
    for k, v in checks.items():
        if v['exit'] != 0:
            print('    %s exit %s %s' % (k, v['exit'], ' | '.join(x[:200] for x in v['lines'][:2])))
if '--keep-worktree' not in sys.argv and os.path.isdir(wt):
    subprocess.run(['git', '-C', '/repo', 'worktree', 'remove', '--force', wt])
