#!/usr/bin/env python3
"""Re-evaluate every seeded mutant against the current tree and (re)write its meta.json."""
import json, os, subprocess, sys, glob
ROOT = os.path.dirname(os.path.dirname(os.path.abspath(__file__)))
EXTRA = {'C02-1': ['C22'], 'C22-1': ['C02', 'C01'], 'C09-2': ['C07'], 'C20-1': ['C02'], 'C18-2': ['C21'],
         'C02-3': ['C17'], 'C02-4': ['C17'], 'C12-4': ['C11'], 'C17-4': ['C02'], 'C18-4': ['C22'], 'C27-4': ['C28'], 'C01-6': ['C17', 'C02']}
only = sys.argv[1:]
for d in sorted(glob.glob(os.path.join(ROOT, 'seeded', '*'))):
    name = os.path.basename(d)
    if only and name not in only:
        continue
    pid = name.split('-')[0]
    props = [pid] + EXTRA.get(name, [])
    r = subprocess.run([sys.executable, os.path.join(ROOT, 'tools', 'eval_seeded.py'), d] + props, capture_output=True, text=True)
    try:
        res = json.loads(r.stdout)
    except Exception:
        print(name, 'EVAL FAILED', r.stdout[-300:], r.stderr[-300:]); continue
    suite = ''
    if os.path.exists(os.path.join(d, 'suite.txt')):
        suite = open(os.path.join(d, 'suite.txt')).read().strip().splitlines()[-1:]
    notes = open(os.path.join(d, 'notes.md')).read() if os.path.exists(os.path.join(d, 'notes.md')) else ''
    meta = {
        'id': name, 'breaks_property': pid, 'origin': 'independent sub-agent given only the property text and a scratch worktree',
        'needs_to_manifest': notes[:1500],
        'confirmed': {
            'demo_exit_on_unmodified_tree': res.get('demo_base'), 'demo_exit_with_patch': res.get('demo_patched'),
            'patch_applies': res.get('apply'), 'test_suite_with_patch': suite,
        },
        'base_tree': res.get('base', 'HEAD'),
        'checks': {k[6:]: v for k, v in res.items() if k.startswith('check_')},
        'detected': any(v['exit'] == 1 for k, v in res.items() if k.startswith('check_')),
        'detected_by_own_check': any(v['exit'] == 1 for k, v in res.items() if k.startswith('check_' + pid)),
        'what_was_run': 'tools/eval_seeded.py: scratch worktree of /repo HEAD outside /repo and /verif, git apply patch.diff, '
                        'demo.py on both trees, ./check <id> with MIROS_REPO pointing at the patched worktree; worktree removed',
    }
    json.dump(meta, open(os.path.join(d, 'meta.json'), 'w'), indent=1)
    print(name, 'demo', res.get('demo_base'), res.get('demo_patched'), 'detected' if meta['detected'] else 'MISSED',
          {k: v['exit'] for k, v in meta['checks'].items()})
