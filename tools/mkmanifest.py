#!/usr/bin/env python3
"""Regenerate MANIFEST.json from props/registry.py (keeps the manifest valid and in sync with what exists)."""
import json
import os
import sys

ROOT = os.path.dirname(os.path.dirname(os.path.abspath(__file__)))
sys.path.insert(0, ROOT)
from props.registry import CLAIMED, NOT_APPLICABLE  # noqa: E402

BASELINE = ("cd /repo && /venv/bin/python -m pytest -ra -q -p no:cacheprovider --timeout=900 "
            "--continue-on-collection-errors --junitxml=/tmp/miros_baseline_off.junit.xml")


def main():
    ids = [json.loads(l)['id'] for l in open(os.path.join(ROOT, 'properties.jsonl'))]
    checks = []
    for pid in ids:
        if pid not in CLAIMED:
            continue
        c = CLAIMED[pid]
        if not os.path.exists(os.path.join(ROOT, 'props', pid + '.py')):
            continue
        checks.append({
            'property_id': pid,
            'quick_cmd': './check %s --tier quick' % pid,
            'thorough_cmd': './check %s --tier thorough' % pid,
            'evidence_file': 'evidence/%s.json' % pid,
            'replay_cmd_template': './check %s --replay {path}' % pid,
            'engine': 'pyvc',
            'level_claimed': {'category': c.get('category', 'proof'), 'text': c['text'],
                              'design_ref': c.get('design_ref', 'DESIGN.md section 6, ' + pid)},
            'level_note': c['note'],
            'technique': c['technique'],
        })
    na = []
    for pid in ids:
        if pid in NOT_APPLICABLE:
            na.append({'property_id': pid, 'reason': NOT_APPLICABLE[pid]})
        elif pid not in [c['property_id'] for c in checks]:
            na.append({'property_id': pid, 'reason': 'not claimed yet: contracts for this property are not built; '
                                                     'see DESIGN.md section 6 for the plan'})
    man = {
        'version': 1,
        'setup_cmd': 'python3-vt tools/setup_check.py',
        'hooks': {
            'guard': 'MIROS_VERIF',
            'enable': 'none needed: contracts are sidecars under /verif/contracts keyed by structural path; '
                      'the verifier re-reads /repo/miros/*.py on every run; replays import /repo with PYTHONPATH',
            'baseline_off_cmd': BASELINE,
            'source_commits': [],
            'add_only': True,
        },
        'engines': [{
            'name': 'pyvc', 'path': 'pyvc/',
            'serves_properties': [c['property_id'] for c in checks],
            'kind_free_text': 'home-made deductive verifier: Python ast of the real miros source -> verification '
                              'conditions (path splitting, loop invariants, call-by-contract, frames, ghost state) '
                              'discharged by z3 5.1 / cvc5; regular-language obligations by an automata back end',
        }],
        'checks': checks,
        'not_applicable': na,
        'notes': 'exit 0 held / 1 VIOLATION / 2 undecided / 3 checker error. known_findings.json lists genuine defects '
                 'recorded rather than repaired. See DESIGN.md.',
    }
    with open(os.path.join(ROOT, 'MANIFEST.json'), 'w') as f:
        json.dump(man, f, indent=1)
    print('MANIFEST.json: %d checks, %d not applicable' % (len(checks), len(na)))


if __name__ == '__main__':
    main()
