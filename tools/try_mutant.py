#!/usr/bin/env python3
"""try_mutant.py <module file under miros/> <old text> <new text> <prop> [<prop>...]
Applies a textual edit to a scratch copy of /repo/miros (outside /repo and /verif), runs the checks against it with
MIROS_REPO, prints exit codes, removes the copy."""
import os, shutil, subprocess, sys, tempfile
f, old, new, props = sys.argv[1], sys.argv[2], sys.argv[3], sys.argv[4:]
d = tempfile.mkdtemp(prefix='mut_', dir='/tmp')
try:
    shutil.copytree('/repo/miros', os.path.join(d, 'miros'), ignore=shutil.ignore_patterns('__pycache__'))
    p = os.path.join(d, 'miros', f)
    s = open(p).read()
    if s.count(old) < 1:
        print('old text not found'); sys.exit(2)
    s = s.replace(old, new, 1)
    open(p, 'w').write(s)
    r = subprocess.run(['/venv/bin/python', '-c', 'import sys; sys.path.insert(0, %r); import miros' % d], capture_output=True, text=True)
    print('import:', 'ok' if r.returncode == 0 else r.stderr[-300:])
    for pr in props:
        env = dict(os.environ, MIROS_REPO=d)
        r = subprocess.run(['/verif/check', pr], capture_output=True, text=True, env=env)
        lines = [l for l in r.stdout.splitlines() if l.startswith(('VIOLATION', 'UNDECIDED', 'CHECKER', 'KNOWN')) or ' obligations' in l]
        print(pr, 'exit', r.returncode)
        for l in lines[:6]: print('   ', l[:220])
finally:
    shutil.rmtree(d, ignore_errors=True)
