#!/usr/bin/env python3
"""Prints the markdown table 'seeded change -> caught by' from seeded/*/notes.md (title line) and meta.json."""
import glob, json, os, re
ROOT = os.path.dirname(os.path.dirname(os.path.abspath(__file__)))
print('| seeded change | what it does (title of the author\'s notes) | caught by (first failing obligation per check) |')
print('|---|---|---|')
for d in sorted(glob.glob(os.path.join(ROOT, 'seeded', '*'))):
    name = os.path.basename(d)
    title = ''
    try:
        for l in open(os.path.join(d, 'notes.md')):
            if l.strip():
                title = re.sub(r'^#+\s*', '', l.strip())
                title = re.sub(r'^(C\d\d\s+)?[Mm]utant\s*\d*\s*(\(C\d\d\))?\s*[-:—–]*\s*', '', title)
                title = re.sub(r'^C\d\d\s+mutant\s*\d*\s*[-:—–]*\s*', '', title)
                break
    except OSError:
        pass
    m = json.load(open(os.path.join(d, 'meta.json')))
    caught = []
    for pid, r in sorted(m.get('checks', {}).items()):
        if r.get('exit') == 1 and r.get('lines'):
            ob = re.search(r'obligation=(\S+)', r['lines'][0])
            nf = ' (no native input found)' if r['lines'][0].endswith('no-failing-input-found') else ''
            caught.append('%s `%s`%s' % (pid, ob.group(1) if ob else '?', nf))
        elif r.get('exit') == 2:
            caught.append('%s undecided (exit 2)' % pid)
    if not caught:
        caught = ['**not caught** ' + m.get('why_missed', '')]
    print('| %s | %s | %s |' % (name, title.replace('|', '/'), '; '.join(caught)))
