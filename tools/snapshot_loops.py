#!/usr/bin/env python3
"""Writes contracts/loop_shapes.json from the CURRENT /repo tree: for every loop of every function its shape modulo
local names and the local names in order of first occurrence.  The sidecar loop invariants are keyed by
(function path, loop ordinal); when a refactoring moves a loop unchanged (modulo renaming) into another function, the
engine finds the invariant again through this table and renames the locals it mentions.  Re-run after a `fix:` commit
that touches a loop."""
import json, os, sys
ROOT = os.path.dirname(os.path.dirname(os.path.abspath(__file__)))
sys.path.insert(0, ROOT)
from pyvc.extract import Source
from pyvc.extract import loop_shape, loop_header_shape, loops_of

src = Source()
out = {}
for path, fi in sorted(src.funcs.items()):
    for n, st in enumerate(loops_of(fi.node), 1):
        sh, names = loop_shape(st)
        out['%s#%d' % (path, n)] = {'shape': sh, 'names': names, 'header': loop_header_shape(st)}
json.dump(out, open(os.path.join(ROOT, 'contracts', 'loop_shapes.json'), 'w'), indent=0, sort_keys=True)
print(len(out), 'loops')
