#!/usr/bin/env python3
"""eval_seeded.py <mutant dir (patch.diff, demo.py)> <prop> [<prop> ...] [--suite]
Scratch copy of /repo (outside /repo and /verif), patch applied, demo on base and patched, checks via MIROS_REPO."""
import os, shutil, subprocess, sys, tempfile, json
args = [a for a in sys.argv[1:] if not a.startswith('--')]
mdir, props = os.path.abspath(args[0]), args[1:]
suite = '--suite' in sys.argv
d = tempfile.mkdtemp(prefix='seed_', dir='/tmp')
res = {'mutant': mdir}
try:
    # a change made against an earlier tree (a later `fix:` commit rewrote the code it touches) names that tree in base.txt
    base = 'HEAD'
    if os.path.exists(os.path.join(mdir, 'base.txt')):
        base = open(os.path.join(mdir, 'base.txt')).read().split()[0]
    res['base'] = base
    subprocess.run(['git', '-C', '/repo', 'worktree', 'add', '-q', '--detach', d + '/wt', base], check=True)
    wt = d + '/wt'
    r = subprocess.run(['/venv/bin/python', os.path.join(mdir, 'demo.py')], capture_output=True, text=True,
                       env=dict(os.environ, PYTHONPATH=wt), timeout=300)
    res['demo_base'] = r.returncode
    r = subprocess.run(['git', '-C', wt, 'apply', os.path.join(mdir, 'patch.diff')], capture_output=True, text=True)
    res['apply'] = r.returncode if r.returncode == 0 else r.stderr[-300:]
    r = subprocess.run(['/venv/bin/python', os.path.join(mdir, 'demo.py')], capture_output=True, text=True,
                       env=dict(os.environ, PYTHONPATH=wt), timeout=300)
    res['demo_patched'] = r.returncode
    res['demo_out'] = (r.stdout + r.stderr)[-400:]
    if suite:
        r = subprocess.run('cd %s && /venv/bin/python -m pytest -q -p no:cacheprovider --timeout=900 '
                           '--continue-on-collection-errors 2>&1 | tail -5' % wt, shell=True, capture_output=True, text=True)
        res['suite'] = r.stdout[-400:]
    for pr in props:
        r = subprocess.run(['/verif/check', pr], capture_output=True, text=True, env=dict(os.environ, MIROS_REPO=wt))
        v = [l for l in r.stdout.splitlines() if l.startswith(('VIOLATION', 'UNDECIDED', 'CHECKER'))]
        res['check_' + pr] = {'exit': r.returncode, 'lines': [x[:230] for x in v[:4]]}
finally:
    subprocess.run(['git', '-C', '/repo', 'worktree', 'remove', '--force', d + '/wt'])
    shutil.rmtree(d, ignore_errors=True)
print(json.dumps(res, indent=1))
