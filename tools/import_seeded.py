#!/usr/bin/env python3
"""import_seeded.py <pid> [--keep-worktree]: take /tmp/wt_<pid>/mutants/{1,2} (made by a sub-agent), store them under
seeded/<pid>-<n>/, confirm each (demo on base / patched, pinned suite with the patch) and run the property's check."""
import json, os, shutil, subprocess, sys
ROOT = os.path.dirname(os.path.dirname(os.path.abspath(__file__)))
pid = sys.argv[1]
extra = [a for a in sys.argv[2:] if not a.startswith('--')]
wt = os.environ.get("SEED_WT_PREFIX", "/tmp/wt_") + pid
# SEED_OFFSET=<k>: mutants/<n> of a later round become seeded/<pid>-<n+k> (earlier rounds keep their numbers)
off = int(os.environ.get("SEED_OFFSET", "0"))
for n in ('1', '2', '3', '4', '5', '6'):
    src = os.path.join(wt, 'mutants', n)
    if not os.path.isdir(src):
        continue
    n = str(int(n) + off)
    dst = os.path.join(ROOT, 'seeded', '%s-%s' % (pid, n))
    os.makedirs(dst, exist_ok=True)
    for f in ('patch.diff', 'demo.py', 'notes.md'):
        if os.path.exists(os.path.join(src, f)):
            shutil.copy(os.path.join(src, f), os.path.join(dst, f))
    r = subprocess.run([sys.executable, os.path.join(ROOT, 'tools', 'eval_seeded.py'), dst, pid] + extra + ['--suite'],
                       capture_output=True, text=True)
    try:
        res = json.loads(r.stdout)
    except Exception:
        print(pid, n, 'EVAL FAILED', r.stdout[-500:], r.stderr[-500:])
        continue
    open(os.path.join(dst, 'suite.txt'), 'w').write(res.get('suite', ''))
    json.dump(res, open(os.path.join(dst, 'eval.json'), 'w'), indent=1)
    print('%s-%s demo base=%s patched=%s apply=%s suite=%r' % (pid, n, res.get('demo_base'), res.get('demo_patched'),
                                                             res.get('apply'), res.get('suite', '').strip().splitlines()[-1:]))
    for k, v in res.items():
        if k.startswith('check_'):
            print('    %s exit %s %s' % (k[6:], v['exit'], ' | '.join(x[:170] for x in v['lines'][:2])))
if '--keep-worktree' not in sys.argv:
    subprocess.run(['git', '-C', '/repo', 'worktree', 'remove', '--force', wt])
