#!/usr/bin/env python3
"""Refresh the 'fn' and 'obl' columns of DESIGN.md section 11.3 from the evidence files of the last runs."""
import json, os, re
ROOT = os.path.dirname(os.path.dirname(os.path.abspath(__file__)))
p = os.path.join(ROOT, 'DESIGN.md')
full = open(p).read()
cut = full.index('### 11.3 Per property')          # only the build-report table is refreshed
head, s = full[:cut], full[cut:]
tot = 0
for f in sorted(os.listdir(os.path.join(ROOT, 'evidence'))):
    d = json.load(open(os.path.join(ROOT, 'evidence', f)))
    pid = d['property_id']
    c = d['coverage']
    fn = len(c.get('functions_under_contract', []))
    ob = c['obligations']
    tot += ob
    kn = c.get('obligations_failing_as_known_findings', 0)
    obs = '%d%s' % (ob, ' (+%d known)' % kn if kn else '')
    s, n = re.subn(r'(\| %s \| [^|]+ \| )[^|]+( \| )[^|]+( \|)' % pid, lambda m: m.group(1) + str(fn) + m.group(2) + obs + m.group(3), s, count=1)
head = re.sub(r'31 checks,\n[0-9 ]+ obligations in the quick tier', '31 checks,\n%s obligations in the quick tier' % format(tot, ',').replace(',', ' '), head)
open(p, 'w').write(head + s)
print('total obligations', tot)
