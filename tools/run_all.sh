#!/bin/bash
# run every claimed check on the unchanged tree; print one line each
cd "$(dirname "$0")/.."
tier=${1:-quick}
for p in $(python3 -c "import json;print(' '.join(c['property_id'] for c in json.load(open('MANIFEST.json'))['checks']))"); do
  out=$(./check $p --tier $tier 2>&1); rc=$?
  echo "$p exit=$rc $(echo "$out" | grep -E 'obligations|VIOLATION|UNDECIDED|CHECKER' | tail -2 | tr '\n' ' ' | cut -c1-200)"
done
