#!/bin/bash
# run every claimed check on the unchanged tree; print one line each.  usage: run_all.sh [tier] [jobs]
cd "$(dirname "$0")/.."
tier=${1:-quick}
jobs=${2:-3}
one() {
  p=$1; tier=$2
  out=$(./check $p --tier $tier 2>&1); rc=$?
  echo "$p exit=$rc $(echo "$out" | grep -E 'obligations|VIOLATION|UNDECIDED|CHECKER' | tail -2 | tr '\n' ' ' | cut -c1-260)"
}
export -f one
python3 -c "import json;print('\n'.join(c['property_id'] for c in json.load(open('MANIFEST.json'))['checks']))" | \
  xargs -P $jobs -I{} bash -c "one {} $tier" | sort
