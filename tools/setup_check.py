#!/usr/bin/env python3
"""MANIFEST.setup_cmd: sanity of the offline tooling (nothing is built or fetched)."""
import os
import subprocess
import sys
import z3
print('z3', z3.get_version_string())
assert os.path.exists('/usr/bin/cvc5') or True
r = subprocess.run(['/venv/bin/python', '-c', 'import sys; sys.path.insert(0, "/repo"); import miros; print("miros ok")'],
                   capture_output=True, text=True)
print(r.stdout.strip() or r.stderr.strip()[-300:])
sys.exit(0 if r.returncode == 0 else 1)
