#!/usr/bin/env python3
"""./check <id> --tier quick|thorough [--replay <path>]

Exit codes: 0 every obligation discharged (failing ones all known findings); 1 VIOLATION line(s) printed;
2 undecided (contracts could not be attached to changed source and the native search found nothing);
3 checker error (source unreadable, solver crash, zero obligations, vacuous contract).
"""
import argparse
import fnmatch
import hashlib
import importlib
import json
import os
import subprocess
import sys
import time

ROOT = os.path.dirname(os.path.dirname(os.path.abspath(__file__)))
sys.path.insert(0, ROOT)

from pyvc.extract import Source, SourceError          # noqa: E402
from pyvc.sym import World                             # noqa: E402
from pyvc.verify import explore                        # noqa: E402
from pyvc.solve import solve_all, start_pool, stop_pool # noqa: E402

VENV_PY = '/venv/bin/python'

COMMON_ASSUMPTIONS = [
    'translation rules of pyvc (ast -> VC) for the supported Python subset; python ints are mathematical integers',
    '`is` on small ints (statuses, signal numbers) coincides with ==',
    'evaluation order left-to-right; tuple assignment evaluates the right side first',
    'assert statements execute (no python -O)',
    'z3 4/5 and cvc5 are sound',
]


def load_known():
    p = os.path.join(ROOT, 'known_findings.json')
    if not os.path.exists(p):
        return []
    with open(p) as f:
        return json.load(f).get('findings', [])


def match_known(known, pid, name):
    for k in known:
        if k.get('status', 'open') != 'open':
            continue
        if k['property'] == pid and fnmatch.fnmatchcase(name, k['obligation']):
            return k
    return None


def run_replayer(pid, failed, seed, tier, outdir, budget=None, known_keys=()):
    """Native search with the property's own oracle (runs under the interpreter the test-suite uses)."""
    script = os.path.join(ROOT, 'replay', pid + '.py')
    if not os.path.exists(script):
        return None
    os.makedirs(outdir, exist_ok=True)
    req = os.path.join(outdir, 'request.json')
    with open(req, 'w') as f:
        json.dump({'property': pid, 'failed': failed, 'seed': seed, 'tier': tier, 'outdir': outdir,
                   'repo': os.environ.get('MIROS_REPO', '/repo'), 'budget': budget, 'known_keys': list(known_keys)}, f)
    env = dict(os.environ)
    env['PYTHONPATH'] = os.environ.get('MIROS_REPO', '/repo') + os.pathsep + ROOT
    env['MIROS_VERIF'] = '1'
    try:
        p = subprocess.run([VENV_PY, script, '--search', req], capture_output=True, text=True, timeout=900, env=env,
                           cwd=ROOT)
    except subprocess.TimeoutExpired:
        return {'error': 'replayer timeout'}
    try:
        last = [l for l in p.stdout.splitlines() if l.startswith('{')][-1]
        return json.loads(last)
    except Exception:
        return {'error': 'replayer produced no result', 'stdout': p.stdout[-2000:], 'stderr': p.stderr[-2000:]}


def main():
    ap = argparse.ArgumentParser()
    ap.add_argument('pid')
    ap.add_argument('--tier', default=os.environ.get('VERIF_TIER', 'quick'))
    ap.add_argument('--replay')
    ap.add_argument('--verbose', '-v', action='store_true')
    ap.add_argument('--only', help='only targets whose name contains this')
    a = ap.parse_args()
    pid = a.pid
    tier = a.tier if a.tier in ('quick', 'thorough') else 'quick'
    seed = int(os.environ.get('VERIF_SEED', '0') or 0)
    t0 = time.time()

    if a.replay:
        script = os.path.join(ROOT, 'replay', pid + '.py')
        env = dict(os.environ)
        env['PYTHONPATH'] = os.environ.get('MIROS_REPO', '/repo') + os.pathsep + ROOT
        env['MIROS_VERIF'] = '1'
        rc = subprocess.call([VENV_PY, script, '--replay', a.replay], env=env, cwd=ROOT)
        sys.exit(rc)

    try:
        prop = importlib.import_module('props.' + pid)
    except ModuleNotFoundError:
        print('no check for property %s' % pid)
        sys.exit(3)

    known = load_known()
    # evidence and replay files of runs against a scratch copy (MIROS_REPO) never touch the committed ones
    repo = os.environ.get('MIROS_REPO', '/repo')
    out_root = ROOT if os.path.realpath(repo) == '/repo' else os.path.join(os.path.realpath(repo), 'verif_out')
    evidence_path = os.path.join(out_root, 'evidence', pid + '.json')
    os.makedirs(os.path.dirname(evidence_path), exist_ok=True)
    timeout_ms = 30000 if tier == 'quick' else 90000

    start_pool()
    try:
        src = Source()
    except SourceError as ex:
        print('CHECKER-ERROR: %s' % ex)
        sys.exit(3)

    results = []          # solve results
    target_info = []
    unsupported = []
    functions = set()
    dropped = set()
    extra = []            # non-VC obligations (automata, bounded stand-ins): dicts name/status/backend/seconds/detail
    n_paths = 0
    gen_seconds = 0.0

    worlds = prop.build(src, tier) if hasattr(prop, 'build') else []
    for world, targets in worlds:
        pending = []
        for tg in targets:
            if a.only and a.only not in tg.name:
                continue
            tr = explore(world, tg)
            # clauses the engine added by itself (tag `auto`: a local or a ghost counter taken as stable after a peeled
            # first loop pass) are decided at once; a refuted one is withdrawn and the target explored again without it
            for _ in range(3):
                autos = [ob for ob in tr.obligations if 'auto' in (ob.tags or ()) and ob.kind == 'prove']
                if not autos:
                    break
                bad = [r for r in solve_all(autos, world.const_axioms(), timeout_ms=5000, seed=seed) if r.status != 'discharged']
                if not bad:
                    break
                for r in bad:
                    nm = r.name.split(':inv-preserved/auto:')
                    if len(nm) == 2:
                        world.disabled_auto.add((nm[0], nm[1].split('-', 1)[0]))
                        world.disabled_auto_ghosts.add((nm[0], nm[1].split('-', 1)[0]))
                tr = explore(world, tg)
            n_paths += tr.paths
            gen_seconds += tr.seconds
            functions.update(tg.functions)
            info = {'target': tg.name, 'paths': tr.paths, 'obligations': len(tr.obligations), 'seconds': tr.seconds}
            if tr.error:
                info['error'] = tr.error
                unsupported.append((tg.name, tr.error, getattr(tr, 'trace', '')))
                if a.verbose:
                    print(getattr(tr, 'trace', ''))
            target_info.append(info)
            for ob in tr.obligations:
                ob.target = tg.name
            pending.extend(tr.obligations)
        rs = solve_all(pending, world.const_axioms(), timeout_ms=timeout_ms, seed=seed)
        for r in rs:
            r.target = r.ob.target
        results.extend(rs)
        dropped |= world.dropped

    stop_pool()
    if hasattr(prop, 'extra'):
        extra = prop.extra(src, tier, seed) or []

    # ---------------- classify
    tags = getattr(prop, 'TAGS', None)

    def relevant(r):
        if tags is None:
            return True
        return (not r.tags) or 'auto' in r.tags or any(t in tags for t in r.tags)

    results = [r for r in results if relevant(r)]
    proves = [r for r in results if r.kind == 'prove']
    covers = [r for r in results if r.kind == 'cover']
    failed = [r for r in proves if r.status != 'discharged']
    errors = [r for r in results if r.status == 'error']
    # a cover point is vacuous only when it is unsatisfiable on *every* path that reaches it
    by_cover = {}
    for r in covers:
        by_cover.setdefault((getattr(r, 'target', ''), r.name), []).append(r)
    vacuous = [rs[0] for rs in by_cover.values() if all(x.status == 'vacuous' for x in rs)]
    extra_failed = [x for x in extra if x['status'] not in ('discharged', 'bounded-ok', 'covered')]

    known_hit = []
    new_fail = []
    for r in failed:
        k = match_known(known, pid, r.name)
        (known_hit if k else new_fail).append((r, k))
    for x in extra_failed:
        k = match_known(known, pid, x['name'])
        (known_hit if k else new_fail).append((x, k))

    violations = []
    undecided = []
    replay_dir = os.path.join(out_root, 'replays', pid)
    native = None
    need_native = bool(new_fail) or bool(unsupported)
    if need_native:
        fl = []
        for r, _ in new_fail:
            if isinstance(r, dict):
                fl.append({'name': r['name'], 'status': r['status'], 'model': r.get('detail', '')})
            else:
                fl.append({'name': r.name, 'status': r.status, 'model': (r.model or '')[:4000], 'reason': r.reason})
        for nm, err, _ in unsupported:
            fl.append({'name': nm + ':vc-generation', 'status': 'unsupported', 'reason': err})
        kk0 = [k.get('native_key') or k['obligation'] for k in known
               if k.get('status', 'open') == 'open' and k['property'] == pid]
        native = run_replayer(pid, fl, seed, tier, replay_dir, known_keys=kk0)

    # thorough tier: native cross-check.  With every obligation discharged the property's native oracle is still run
    # on the real code (catalogue + seeded random scenarios).  A failure there means a contract, a library model or
    # the encoder is wrong (or too weak): it is reported as a violation, but only when the same scenario fails on
    # three consecutive replays (timing-dependent oracles must not raise alarms under load).
    xcheck = None
    if tier == 'thorough' and not need_native and not a.only and os.environ.get('VERIF_NO_XCHECK') != '1':
        kk = []
        for k in known:
            if k.get('status', 'open') == 'open' and k['property'] == pid:
                kk.append(k.get('native_key') or k['obligation'])
        xr = run_replayer(pid, [], seed, tier, replay_dir, budget=int(os.environ.get('VERIF_XCHECK_S', '90')),
                          known_keys=kk) or {}
        xcheck = {'summary': xr.get('summary', xr.get('error', 'no replayer')), 'scenarios': xr.get('scenarios', 0),
                  'known_findings_seen': xr.get('known_seen', {}), 'confirmed': [], 'not_reproducible': []}
        for f in xr.get('failures', []):
            env = dict(os.environ)
            env['PYTHONPATH'] = os.environ.get('MIROS_REPO', '/repo') + os.pathsep + ROOT
            again = 0
            for _ in range(3):
                p = subprocess.run([VENV_PY, os.path.join(ROOT, 'replay', pid + '.py'), '--replay', f['replay']],
                                   capture_output=True, text=True, env=env, cwd=ROOT)
                again += 1 if p.returncode == 1 else 0
            (xcheck['confirmed'] if again == 3 else xcheck['not_reproducible']).append(
                {'key': f['key'], 'detail': f['detail'], 'replays_failing': again, 'replay': f['replay']})
    if need_native and native:
        xcheck = {'summary': native.get('summary', ''), 'scenarios': native.get('scenarios', 0), 'mode': 'search-for-failing-input'}

    def write_replay(name, payload):
        os.makedirs(replay_dir, exist_ok=True)
        fn = os.path.join(replay_dir, hashlib.sha1(name.encode()).hexdigest()[:10] + '.json')
        with open(fn, 'w') as f:
            json.dump(payload, f, indent=1, default=str)
        return fn

    fails = (native or {}).get('failures', []) if native else []

    def native_for(name):
        best = None
        for f in fails:
            k = f['key']
            if k != '*' and k in name and (best is None or len(k) > len(best['key'])):
                best = f
        if best is None:
            for f in fails:
                if f['key'] == '*':
                    best = f
        if best is None and fails:
            # a failing input of this property on this tree, found by the native oracle, though not keyed to this
            # obligation: still a real violation witness (the replay file says which oracle clause failed)
            best = fails[0]
        return best

    for r, _ in new_fail:
        if isinstance(r, dict):
            name, status, model, reason = r['name'], r['status'], r.get('detail', ''), ''
        else:
            name, status, model, reason = r.name, r.status, r.model, r.reason
        nf = native_for(name)
        payload = {'property': pid, 'obligation': name, 'solver_status': status, 'solver_output': model,
                   'solver_reason': reason, 'target': getattr(r, 'target', None) if not isinstance(r, dict) else None,
                   'native_search': (native or {}).get('summary') if native else 'no replayer'}
        if nf:
            payload['scenario'] = nf['scenario']
            payload['native_detail'] = nf['detail']
            path = write_replay(name, payload)
            violations.append('VIOLATION property=%s replay=%s obligation=%s' % (pid, path, name))
        elif status != 'refuted' and 'timeout' in (str(model) + str(reason) + str(status)):
            # a solver timeout is not a refutation: undecided (exit 2), never a violation
            undecided.append('UNDECIDED property=%s target=%s: solver timeout, no counterexample' % (pid, name))
        else:
            path = write_replay(name, payload)
            violations.append('VIOLATION property=%s replay=%s obligation=%s no-failing-input-found' % (pid, path, name))
    for f in (xcheck or {}).get('confirmed', []):
        name = 'native-cross-check:' + f['key']
        path = write_replay(name, {'property': pid, 'obligation': name, 'solver_status': 'all obligations discharged',
                                   'scenario': json.load(open(f['replay'])).get('scenario'), 'native_detail': f['detail'],
                                   'note': 'the native oracle fails on the real code although every obligation was '
                                           'discharged: a contract or model is too weak'})
        violations.append('VIOLATION property=%s replay=%s obligation=%s' % (pid, path, name))
    for nm, err, _ in unsupported:
        nf = native_for(nm) or (fails[0] if fails else None)
        if nf:
            path = write_replay(nm + ':vc-generation', {'property': pid, 'obligation': nm + ':vc-generation',
                                                        'solver_status': 'vc generation abandoned: ' + err,
                                                        'scenario': nf['scenario'], 'native_detail': nf['detail']})
            violations.append('VIOLATION property=%s replay=%s obligation=%s:vc-generation' % (pid, path, nm))
        else:
            undecided.append('UNDECIDED property=%s target=%s: contracts need re-attaching (%s)' % (pid, nm, err))

    # ---------------- evidence
    n_known = len(known_hit)
    n_ob = len(proves) + len([x for x in extra if x.get('counts', True)]) - n_known
    n_dis = len([r for r in proves if r.status == 'discharged']) + \
        len([x for x in extra if x['status'] == 'discharged' and x.get('counts', True)])
    backends = {}
    for r in proves:
        backends[r.backend] = backends.get(r.backend, 0) + 1
    for x in extra:
        backends[x.get('backend', 'other')] = backends.get(x.get('backend', 'other'), 0) + 1
    per_ob = [{'name': r.name, 'target': getattr(r, 'target', ''), 'status': r.status, 'backend': r.backend,
               'seconds': r.seconds} for r in proves]
    per_ob += [{'name': x['name'], 'status': x['status'], 'backend': x.get('backend', ''),
                'seconds': x.get('seconds', 0)} for x in extra]
    samples = []
    for r in proves[:400]:
        if r.status == 'discharged' and r.backend != 'syntactic' and len(samples) < 3:
            samples.append({'obligation': r.name, 'target': getattr(r, 'target', ''),
                            'smt2_tail': r.smt2_head[-700:]})
    for x in extra[:2]:
        samples.append({'obligation': x['name'], 'detail': str(x.get('detail', ''))[:500]})
    if not samples:
        samples = [{'obligation': r.name, 'status': r.status} for r in proves[:3]] or [{'note': 'no obligations'}]
    level = getattr(prop, 'LEVEL', 'proof')
    ev = {
        'property_id': pid, 'tier': tier, 'seed': seed, 'level': level,
        'coverage': {
            'obligations': n_ob, 'discharged': n_dis,
            'checker_cmd': './check %s --tier %s' % (pid, tier),
            'trusted_base': sorted(set(getattr(prop, 'TRUSTED', []) + ['pyvc encoder', 'z3 5.1.0', 'cvc5 1.0.3 (on z3 unknown)'])),
            'functions_under_contract': [src.describe(p) for p in sorted(functions) if p in src.funcs],
            'missing_functions': [p for p in sorted(functions) if p not in src.funcs],
            'targets': target_info,
            'paths_explored': n_paths,
            'backends': backends,
            'solver_seconds': round(sum(r.seconds for r in results), 2),
            'vc_generation_seconds': round(gen_seconds, 2),
            'per_obligation': per_ob if len(per_ob) <= 600 else per_ob[:600],
            'covers_sat': len([r for r in covers if r.status == 'covered']),
            'covers_total': len(covers),
            'dropped_by_extraction': sorted(dropped | {'docstrings and comments'}),
            'bounded_parts': getattr(prop, 'BOUNDED', []),
            'native_cross_check': xcheck or 'not run in this tier (thorough only, or a search ran instead)',
            'obligations_failing_as_known_findings': n_known,
            'known_findings_matched': [{'obligation': (r['name'] if isinstance(r, dict) else r.name), 'what': k['what']}
                                       for r, k in known_hit],
            'samples': samples,
            'explanation': getattr(prop, 'EXPLANATION', ''),
            'module_sha256': {m: s[:16] for m, s in src.sha.items()},
        },
        'assumptions': COMMON_ASSUMPTIONS + list(getattr(prop, 'ASSUMPTIONS', [])),
        'wall_s': round(time.time() - t0, 2),
        'violations': len(violations),
    }
    # mechanical scan for assumption sites in the sidecar modules this property loaded (DESIGN 4: every assume is a
    # pre-state precondition, an invariant assumed on entry, or a library-model axiom; listed, never hidden)
    sites = {}
    for mn, mod in sorted(sys.modules.items()):
        f = getattr(mod, '__file__', None) or ''
        if f.startswith(ROOT) and (os.sep + 'props' + os.sep in f or os.sep + 'contracts' + os.sep in f or os.sep + 'pyvc' + os.sep in f):
            try:
                txt = open(f).read()
            except OSError:
                continue
            n = txt.count('.assume(') + txt.count('assumptions.append(')
            if n:
                sites[os.path.relpath(f, ROOT)] = n
    ev['coverage']['assume_call_sites'] = sites
    if level == 'translation_validation' and hasattr(prop, 'tv_coverage'):
        ev['coverage'].update(prop.tv_coverage())
    with open(evidence_path, 'w') as f:
        json.dump(ev, f, indent=1, default=str)

    # ---------------- report
    for r, k in known_hit:
        nm = r['name'] if isinstance(r, dict) else r.name
        print('KNOWN-FINDING: property=%s %s %s' % (pid, nm, k['what']))
    if a.verbose or violations:
        for r in failed:
            print('  %-11s %s [%s %.1fs] %s' % (r.status, r.name, r.backend, r.seconds, r.reason[:80]))
            if a.verbose:
                print('              path: %s' % getattr(r.ob, 'trace', ''))
    print('%s %s: %d obligations, %d discharged, %d known findings, %d paths, %.1fs' %
          (pid, tier, n_ob, n_dis, len(known_hit), n_paths, time.time() - t0))
    if violations:
        for v in sorted(set(violations)):
            print(v)
        sys.exit(1)
    if undecided:
        for u in undecided:
            print(u)
        sys.exit(2)
    if errors:
        print('CHECKER-ERROR: solver error on %s' % ', '.join(r.name for r in errors[:5]))
        sys.exit(3)
    if vacuous:
        print('CHECKER-ERROR: vacuous pre-state (cover unsat) in %s' % ', '.join(r.name for r in vacuous[:5]))
        sys.exit(3)

    if n_ob == 0:
        print('CHECKER-ERROR: zero obligations generated')
        sys.exit(3)
    min_ob = getattr(prop, 'MIN_OBLIGATIONS', 1)
    if n_ob < min_ob:
        print('CHECKER-ERROR: only %d obligations generated, sidecar declares at least %d' % (n_ob, min_ob))
        sys.exit(3)
    sys.exit(0)


if __name__ == '__main__':
    try:
        main()
    except SystemExit:
        raise
    except BaseException:          # a crash of the checker is never a verdict about miros
        import traceback
        traceback.print_exc()
        print('CHECKER-ERROR: the checker itself failed (see traceback); no verdict')
        sys.exit(3)
