"""Core event processor: UML monitor (ghost), abstract handler contract, loop invariants of init / dispatch /
trans_ / is_in / child_state  (DESIGN.md 5.2, 5.3, section 6 C01-C03, C22-C24)."""
import z3

from pyvc.sym import SInt, SBool, SRef, SFunc, Ref, NONE, LoopSpec, Unsupported, Raised, PathEnd
from pyvc.verify import FnContract, method
from pyvc import builtins as B
from pyvc.builtins import TOP
from .tree import parent, depth, anc, is_state, encloses, strictly_encloses, is_lca
from pyvc.sym import name_of as name_of_

SEARCH, EXITING, ENTERING = 0, 1, 2
MON_VARS = ['g_cur', 'g_goal', 'g_turn', 'g_phase', 'g_turned', 'g_S', 'g_T', 'g_n_ex', 'g_n_en', 'g_n_in',
            'g_last_in_tran', 'g_offer_next', 'g_answer', 'g_expect_empty', 'g_offers']
# g_answer: 0 none yet, 1 TRAN, 2 HANDLED, 3 IGNORED (top), 4 other status below TRAN


def mon_init(c, cur, goal, phase, offer_next=None):
    g = c.ghost
    g['g_cur'] = cur
    g['g_goal'] = goal
    g['g_turn'] = NONE
    g['g_phase'] = z3.IntVal(phase)
    g['g_turned'] = z3.BoolVal(False)
    g['g_S'] = NONE
    g['g_T'] = NONE
    g['g_n_ex'] = z3.IntVal(0)
    g['g_n_en'] = z3.IntVal(0)
    g['g_n_in'] = z3.IntVal(0)
    g['g_last_in_tran'] = z3.BoolVal(False)
    g['g_offer_next'] = offer_next if offer_next is not None else cur
    g['g_answer'] = z3.IntVal(0)
    g['g_expect_empty'] = NONE
    g['g_offers'] = z3.IntVal(0)
    g['g_bad'] = z3.BoolVal(False)


def temp_of(it, chart):
    return it.c.read(chart, 'temp')


def state_of(it, chart):
    return it.c.read(chart, 'state')


def temp_fun(it, chart):
    return it.c.hget(temp_of(it, chart), 'fun')


def state_fun(it, chart):
    return it.c.hget(state_of(it, chart), 'fun')


def set_temp_fun(it, chart, v):
    it.c.hset(temp_of(it, chart), 'fun', v)


def _turn(c):
    g = c.ghost
    g['g_turn'] = z3.If(g['g_turned'], g['g_turn'], g['g_cur'])
    g['g_turned'] = z3.BoolVal(True)


class HandlerModel:
    """What "well-formed chart" means: any callable satisfying this table (DESIGN.md 5.2).
    weak=True is the C24 variant: an initial transition may name any state and an offer may return None."""

    def __init__(self, world, weak=False, tags_order=('C01', 'C03'), spied=False):
        self.w = world
        self.weak = weak
        self.spied = spied
        self.sig = world.signals
        self.st = world.statuses
        if spied:
            world.hooks['call_rawstate'] = self.rawcall

    def rawcall(self, it, fv, args, kwargs):
        """the undecorated user function behind a @spy_on state: the abstract handler of that state"""
        s = it.c.pyghost['state_of_raw'][fv.e.sexpr()]
        chart, e = args
        sig = z3.simplify(it.c.hget(e, 'signal'))
        return self.abstract(it, s, chart, e, sig)

    def __call__(self, it, fv, args, kwargs):
        c = it.c
        g = c.ghost
        if len(args) != 2:
            raise Unsupported('state function called with %d arguments' % len(args))
        chart, e = args
        s = fv.e
        sig = z3.simplify(c.hget(e, 'signal'))
        where = it.where()
        site = '%s@%s' % (where, it.callsite) if it.callsite else where
        c.prove('%s:call-pre/handler-is-a-state' % where, is_state(s), tags=('wf',))
        if c.branch(s == TOP, 'handler-is-top'):
            return self.call_top(it, chart, e, sig)
        if self.spied:
            # the state function is spy_on(raw): the real wrapper runs, around the abstract undecorated handler
            from props.instr_targets import raw_of, spy_on_fn
            raw = raw_of(s)
            c.assume(z3.And(name_of_(raw) == name_of_(s), raw != NONE))
            c.pyghost.setdefault('state_of_raw', {})[raw.sexpr()] = s
            return it.call_func(spy_on_fn(it, raw), [chart, e], {})
        return self.abstract(it, s, chart, e, sig)

    def abstract(self, it, s, chart, e, sig):
        c = it.c
        g = c.ghost
        where = it.where()
        # user code runs here: objects shared between charts (mutable class attributes, mutable defaults) may change
        it.havoc_globals()
        S = self.sig
        st = self.st
        if z3.is_int_value(sig):
            k = sig.as_long()
            if k in (S['SEARCH_FOR_SUPER_SIGNAL'], S['EMPTY_SIGNAL']):
                if k == S['SEARCH_FOR_SUPER_SIGNAL'] and getattr(self.w, 'faulty_super', False) and \
                        c.branch(faulty(s), 'super-search-answered-with-None'):
                    # C24: a handler without a final else returns no status to the super search and leaves the
                    # cursor where it was
                    g['g_bad'] = z3.BoolVal(True)
                    c.pyghost['returned_none'] = True
                    return None
                if k == S['EMPTY_SIGNAL']:
                    c.prove('%s:protocol/empty-only-after-unhandled' % where, g['g_expect_empty'] == s, tags=('C02',))
                    g['g_expect_empty'] = NONE
                    g['g_offer_next'] = parent(s)
                set_temp_fun(it, chart, parent(s))
                return st['SUPER']
            if k == S['ENTRY_SIGNAL']:
                if getattr(self.w, 'faulty_super', False):
                    # (C24) a state that gives no status to the super search is never entered: by induction over the
                    # history no state of the active configuration is such a state
                    c.prove('%s:monitor/entered-state-answers-the-super-search' % where, z3.Not(faulty(s)), tags=('C24',))
                c.prove('%s:monitor/entry-is-child-of-current' % where, parent(s) == g['g_cur'], tags=('C01', 'C03'))
                c.prove('%s:monitor/entry-towards-goal' % where, encloses(s, g['g_goal']), tags=('C01', 'C03'))
                _turn(c)
                g['g_cur'] = s
                g['g_phase'] = z3.IntVal(ENTERING)
                g['g_n_en'] = g['g_n_en'] + 1
                set_temp_fun(it, chart, c.fresh('tf_after_entry', Ref))
                r = c.fresh('entry_status', z3.IntSort())
                c.assume(z3.And(r >= 1, r <= 13))
                return SInt(r)
            if k == S['EXIT_SIGNAL']:
                c.prove('%s:monitor/exit-only-before-entering' % where, g['g_phase'] != ENTERING, tags=('C01', 'C03'))
                c.prove('%s:monitor/exit-the-current-state' % where, g['g_cur'] == s, tags=('C01', 'C03'))
                g['g_cur'] = parent(s)
                g['g_phase'] = z3.IntVal(EXITING)
                g['g_n_ex'] = g['g_n_ex'] + 1
                if c.choose(2, 'exit-handled') == 0:
                    set_temp_fun(it, chart, c.fresh('tf_after_exit', Ref))
                    return st['HANDLED']
                set_temp_fun(it, chart, parent(s))
                r = c.fresh('exit_status', z3.IntSort())
                c.assume(z3.And(r >= 1, r <= 13, r != st['HANDLED']))
                return SInt(r)
            if k == S['INIT_SIGNAL']:
                c.prove('%s:monitor/init-at-current' % where, g['g_cur'] == s, tags=('C01', 'C03'))
                c.prove('%s:monitor/init-at-goal' % where, g['g_goal'] == s, tags=('C01', 'C03'))
                _turn(c)
                g['g_phase'] = z3.IntVal(ENTERING)
                g['g_n_in'] = g['g_n_in'] + 1
                if c.choose(2, 'init-tran') == 0:
                    i = c.fresh('init_target', Ref)
                    if self.weak:
                        # C24: the initial transition may name ANY state of the chart (outside s, or s itself)
                        c.assume(is_state(i))
                        g['g_bad'] = z3.Or(g['g_bad'], z3.Not(strictly_encloses(s, i)))
                    else:
                        c.assume(strictly_encloses(s, i))
                    set_temp_fun(it, chart, i)
                    g['g_goal'] = i
                    g['g_last_in_tran'] = z3.BoolVal(True)
                    return st['TRAN']
                g['g_last_in_tran'] = z3.BoolVal(False)
                set_temp_fun(it, chart, c.fresh('tf_after_init', Ref))
                r = c.fresh('init_status', z3.IntSort())
                c.assume(z3.And(r >= 1, r <= 13, r != st['TRAN']))
                return SInt(r)
            if k == S['REFLECTION_SIGNAL']:
                hook = it.w.hooks.get('reflection')
                if hook:
                    return hook(it, s, chart, e)
                raise Unsupported('REFLECTION_SIGNAL sent to an abstract (unspied) handler')
        # an event of the client: the offer protocol of C02
        inner = [S[n] for n in ('ENTRY_SIGNAL', 'EXIT_SIGNAL', 'INIT_SIGNAL', 'REFLECTION_SIGNAL', 'EMPTY_SIGNAL',
                                'SEARCH_FOR_SUPER_SIGNAL')]
        c.prove('%s:call-pre/client-event-signal' % where, z3.And([sig != k for k in inner]), tags=('wf',))
        return self.offer(it, chart, s, where)

    def offer(self, it, chart, s, where):
        c = it.c
        g = c.ghost
        st = self.st
        c.prove('%s:protocol/offer-to-next-enclosing-state' % where, g['g_offer_next'] == s, tags=('C02',))
        c.prove('%s:protocol/no-offer-after-answer' % where, g['g_answer'] == 0, tags=('C02',))
        c.prove('%s:protocol/no-offer-while-guard-fallback-pending' % where, g['g_expect_empty'] == NONE, tags=('C02',))
        g['g_offers'] = g['g_offers'] + 1
        n = 6 if self.weak else 5
        k = c.choose(n, 'offer-outcome')
        if k == 0:      # transition
            T = c.fresh('target', Ref)
            c.assume(z3.And(is_state(T), T != TOP))
            set_temp_fun(it, chart, T)
            g['g_S'], g['g_T'], g['g_goal'] = s, T, T
            g['g_answer'] = z3.IntVal(1)
            r = c.fresh('tran_status', z3.IntSort())
            c.assume(z3.And(r >= st['TRAN'], r <= 13))
            return SInt(r)
        if k == 1:      # handled internally
            g['g_answer'] = z3.IntVal(2)
            set_temp_fun(it, chart, c.fresh('tf_after_hook', Ref))
            return st['HANDLED']
        if k == 2:      # declined (failed guard): the processor owes this state an EMPTY_SIGNAL
            g['g_expect_empty'] = s
            set_temp_fun(it, chart, c.fresh('tf_after_decline', Ref))
            return st['UNHANDLED']
        if k == 3:      # names its parent
            set_temp_fun(it, chart, parent(s))
            g['g_offer_next'] = parent(s)
            return st['SUPER']
        if k == 4:      # some other status below TRAN: answered, nothing happens
            g['g_answer'] = z3.IntVal(4)
            set_temp_fun(it, chart, c.fresh('tf_after_other', Ref))
            r = c.fresh('other_status', z3.IntSort())
            c.assume(z3.And(r >= 1, r < st['TRAN'], r != st['SUPER'], r != st['UNHANDLED'], r != st['HANDLED'],
                            r != st['IGNORED']))
            return SInt(r)
        c.pyghost['returned_none'] = True
        return None

    def call_top(self, it, chart, e, sig):
        """`top` is real source: executed (via its contract when one is installed)."""
        c = it.c
        g = c.ghost
        S = self.sig
        inner = [S[n] for n in ('ENTRY_SIGNAL', 'EXIT_SIGNAL', 'INIT_SIGNAL', 'REFLECTION_SIGNAL', 'EMPTY_SIGNAL',
                                'SEARCH_FOR_SUPER_SIGNAL')]
        is_client = z3.simplify(z3.And([sig != k for k in inner]))
        where = it.where()
        if z3.is_true(is_client) or (not z3.is_false(is_client) and c.branch(is_client, 'top-client-event')):
            c.prove('%s:protocol/offer-to-next-enclosing-state' % where, g['g_offer_next'] == TOP, tags=('C02',))
            c.prove('%s:protocol/no-offer-after-answer' % where, g['g_answer'] == 0, tags=('C02',))
            g['g_offers'] = g['g_offers'] + 1
            g['g_answer'] = z3.IntVal(3)
        else:
            # entry/exit/init of top are never legitimate monitor steps
            if z3.is_int_value(sig) and sig.as_long() in (S['ENTRY_SIGNAL'], S['EXIT_SIGNAL'], S['INIT_SIGNAL']):
                c.prove('%s:monitor/no-entry-exit-init-of-top' % where, z3.BoolVal(False), tags=('C01', 'C03'))
        fn = method(it, chart, 'top')
        fn = SFunc(fn.info, fn.closure, None, fn.defcls)      # s(self, e): both passed positionally
        return it.call_func(fn.bind(chart), [chart, e], {})


def chart_pre(it, host='HsmEventProcessor'):
    """Inv_idle for a plain processor: distinct Attribute holders, the current state is a state of the chart."""
    from .common import make_chart
    c = it.c
    self = make_chart(it, host, with_queues=False)
    cur = c.fresh('cur', Ref)
    c.assume(is_state(cur))
    c.hset(state_of(it, self), 'fun', cur)
    c.hset(temp_of(it, self), 'fun', cur)
    c.hset(c.read(self, 'event'), 'ignored', c.fresh('ignored0', z3.BoolSort()))
    return self, cur


# ---------------------------------------------------------------- loop specifications: init
def _tp(it, env, name='tpath'):
    """(list ref, items, len); items is aliased to a constant so that it can serve as an E-matching pattern."""
    from pyvc.sym import IntArr
    c = it.c
    tp = env[name]
    items = B.seq_items(it, tp)
    key = ('alias', items.get_id())
    A = c.pyghost.get(key)
    if A is None:
        A = c.fresh('tp_items', IntArr)
        c.assumptions.append(A == items)
        c.pyghost[key] = A
    return tp, A, B.seq_len(it, tp)


_k = z3.Int('k!inv')


def _mon_mods(spec):
    spec.ghost_modifies = list(MON_VARS)
    return spec


def init_specs():
    P = 'hsm.HsmEventProcessor.init'

    def mods(it, env):
        tp = env['tpath']
        return [(tp, '$items'), (tp, '$len'), (temp_of(it, env['self']), 'fun')]

    # ---- loop 1 (outer): one round per initial transition
    def inv1(it, env):
        c, g = it.c, it.c.ghost
        self = env['self']
        tp, items, n = _tp(it, env)
        i = temp_fun(it, self)
        out = env['outermost'].e
        return [('outermost-is-current', z3.And(is_state(out), g['g_cur'] == out)),
                ('target-is-goal', g['g_goal'] == i),
                ('target-below-outermost', strictly_encloses(out, i)),
                ('tpath-capacity', z3.And(n == it.c.to_int(env['max_index']) + 1, n >= 1)),
                ('no-exit-so-far', z3.And(g['g_n_ex'] == 0, g['g_phase'] == ENTERING)),
                ('entered-once-per-level', g['g_n_en'] == depth(out)),
                ('inits-counted', g['g_n_in'] >= 0),
                ('start-state-on-path', encloses(it.c.pyghost['start_state'], i)),
                ('state-fun-untouched', state_fun(it, self) == it.c.pyghost['state_fun0'])]

    s1 = _mon_mods(LoopSpec(inv1, mods, None, 'init-outer', locals_kind={'r': 'int', 'entery_fn': ('ref', 'state'),
                                                                         'previous_super': ('ref', 'state')}))

    # ---- loop 2: walk from the target up to outermost, recording the path
    def inv2(it, env):
        c, g = it.c, it.c.ghost
        self = env['self']
        tp, items, n = _tp(it, env)
        f = temp_fun(it, self)
        out = env['outermost'].e
        i = z3.Select(items, 0)
        idx = c.to_int(env['index'])
        mx = c.to_int(env['max_index'])
        ps = c.to_ref(env['previous_super'])
        return [('index-range', z3.And(0 <= idx, idx <= depth(i) - depth(out), idx <= mx)),
                ('cursor-is-ancestor', f == anc(i, depth(i) - idx)),
                ('path-recorded', z3.ForAll([_k], z3.Implies(z3.And(0 <= _k, _k <= idx),
                                                             z3.Select(items, _k) == anc(i, depth(i) - _k)),
                                            patterns=[z3.Select(items, _k)])),
                ('tpath-capacity', z3.And(n == mx + 1, n >= 1)),
                ('target-below-outermost', strictly_encloses(out, i)),
                ('previous-super', z3.If(idx == 0, ps == NONE, ps == f)),
                ('monitor-untouched', z3.And(g['g_cur'] == out, g['g_goal'] == i, g['g_n_ex'] == 0,
                                             g['g_phase'] == ENTERING, g['g_n_en'] == depth(out), g['g_n_in'] >= 0)),
                ('start-state-on-path', encloses(it.c.pyghost['start_state'], i)),
                ('state-fun-untouched', state_fun(it, self) == it.c.pyghost['state_fun0'])]

    def var2(it, env):
        return depth(temp_fun(it, env['self'])) - depth(env['outermost'].e)

    s2 = LoopSpec(inv2, mods, var2, 'init-path', locals_kind={'r': 'int'})

    # ---- loop 3: enter from just below outermost down to the target
    def inv3(it, env):
        c, g = it.c, it.c.ghost
        self = env['self']
        tp, items, n = _tp(it, env)
        out = env['outermost'].e
        i = z3.Select(items, 0)
        idx = c.to_int(env['index'])
        N = depth(i) - depth(out)
        return [('index-range', z3.And(1 <= idx, idx <= N, N < n)),
                ('current-is-path-element', g['g_cur'] == anc(i, depth(i) - idx)),
                ('path-recorded', z3.ForAll([_k], z3.Implies(z3.And(0 <= _k, _k <= N),
                                                             z3.Select(items, _k) == anc(i, depth(i) - _k)),
                                            patterns=[z3.Select(items, _k)])),
                ('target-below-outermost', strictly_encloses(out, i)),
                ('goal', g['g_goal'] == i),
                ('tpath-capacity', z3.And(n == c.to_int(env['max_index']) + 1, n >= 1)),
                ('no-exit-so-far', z3.And(g['g_n_ex'] == 0, g['g_phase'] == ENTERING)),
                ('entered-once-per-level', g['g_n_en'] == depth(g['g_cur'])),
                ('inits-counted', g['g_n_in'] >= 0),
                ('start-state-on-path', encloses(it.c.pyghost['start_state'], i)),
                ('state-fun-untouched', state_fun(it, self) == it.c.pyghost['state_fun0'])]

    def var3(it, env):
        return it.c.to_int(env['index'])

    s3 = _mon_mods(LoopSpec(inv3, mods, var3, 'init-enter', locals_kind={'r': 'int', 'entery_fn': ('ref', 'state')}))
    return {(P, 1): s1, (P, 2): s2, (P, 3): s3}


def instr_mods(it, env):
    """fields the spy wrapper of a state function writes on every invocation"""
    c = it.c
    chart = env.get('self')
    if chart is None or chart.pytype == 'HsmEventProcessor':
        return [(chart, f) for f in ('spied_on', 'state_name', 'state_fn')] if chart is not None else []
    out = [(chart, f) for f in ('spied_on', 'state_name', 'state_fn')]
    rtc = c.read(chart, 'rtc')
    for f in ('spy', 'tuples'):
        d = c.read(rtc, f)
        out += [(d, '$items'), (d, '$len')]
    return out


def install(world, weak=False, spied=False):
    from . import tree
    world.hooks['call_state'] = HandlerModel(world, weak=weak, spied=spied)
    world.weak = weak
    if spied:
        world.extra_mods = instr_mods
    world.loopspecs.update(init_specs())
    world.loopspecs.update(trans_hints(trans_specs()))
    world.contracts[TR] = FnContract(TR, trans_contract)
    world.loopspecs.update(dispatch_specs())
    world.loopspecs.update(query_specs())
    if weak:
        world.loopspecs.update(weak_specs())
    world.local_types[('hsm.HsmEventProcessor.child_state', 'child')] = 'state'
    world.local_types[('hsm.HsmEventProcessor.init', 'tpath')] = 'list<state>'
    world.local_types[('hsm.HsmEventProcessor.init', 'outermost')] = 'state'
    world.local_types[('hsm.HsmEventProcessor.dispatch', 'tpath')] = 'list<state>'
    world.local_types[('hsm.HsmEventProcessor.trans_', 'tpath')] = 'list<state>'
    world.axioms = tree.theory() + (weak_axioms() if weak else [])


# =====================================================================================================
# trans_  (DESIGN.md section 6, C01): contract, loop invariants
# =====================================================================================================
TR = 'hsm.HsmEventProcessor.trans_'
DI = 'hsm.HsmEventProcessor.dispatch'


def in_chain(T, t):
    """t is T or an ancestor of T (an ancestor at index k of the entry path has depth(T)-k, so depths must agree)."""
    return z3.And(is_state(t), depth(t) <= depth(T), anc(T, depth(t)) == t)


def trans_pre(it, self, tp, max_index):
    c, g = it.c, it.c.ghost
    items, n = B.seq_items(it, tp), B.seq_len(it, tp)
    T, S = z3.Select(items, 0), z3.Select(items, 2)
    return [('tpath-has-three-slots', z3.And(n == 3, c.to_int(max_index) == 2)),
            ('source-and-target-are-states', z3.And(is_state(S), is_state(T), S != TOP, T != TOP)),
            ('configuration-is-at-source', g['g_cur'] == S),
            ('nothing-entered-yet', z3.And(g['g_phase'] != ENTERING, g['g_n_en'] == 0, g['g_n_in'] == 0,
                                           z3.Not(g['g_turned']))),
            ('goal-is-target', g['g_goal'] == T)]


def trans_post(it, self, tp, S, T, n_ex0, ip):
    """What dispatch may rely on after trans_ (and what the trans_ target proves of the real body)."""
    c, g = it.c, it.c.ghost
    tp_, items, n = _tp(it, {'tpath': tp})
    L = g['g_cur']
    return [('ip-range', z3.And(-1 <= ip, ip < n, n >= 3)),
            ('entry-path', z3.ForAll([_k], z3.Implies(z3.And(0 <= _k, _k <= ip),
                                                      z3.Select(items, _k) == anc(T, depth(T) - _k)),
                                     patterns=[z3.Select(items, _k)])),
            ('target-still-first', z3.Select(items, 0) == T),
            ('exited-up-to-lca', is_lca(L, S, T)),
            ('entry-path-starts-below-lca', z3.And(is_state(L), depth(L) == depth(T) - ip - 1, in_chain(T, L))),
            ('nothing-entered', z3.And(g['g_phase'] != ENTERING, g['g_n_en'] == 0, g['g_n_in'] == 0,
                                       z3.Not(g['g_turned']), g['g_goal'] == T)),
            ('exits-counted', g['g_n_ex'] - n_ex0 == depth(S) - depth(L))] + (
        [('target-answers-the-super-search', z3.Not(faulty(T))),
         ('entry-path-states-answer-the-super-search', answered(T, depth(L), depth(T)))]
        if getattr(it.w, 'faulty_super', False) else [])


def trans_contract(it, fn, args, kwargs):
    """Call-site semantics of trans_(tpath, max_index): assert pre, havoc frame, assume post."""
    c, g = it.c, it.c.ghost
    self, tp, max_index = args[0], args[1], args[2]
    for nm, f in trans_pre(it, self, tp, max_index):
        c.prove('dispatch:call-pre/trans_/%s' % nm, f, tags=('C01',))
    if getattr(it.w, 'weak', False) and c.choose(2, 'trans_-meets-a-faulty-state') == 1:
        # C24 (proved of the real body by the target trans_[weak contract]): a state on the way into the target that
        # gives no status to the super search makes trans_ raise, before anything is entered
        g['g_bad'] = z3.BoolVal(True)
        c.pyghost['returned_none'] = True
        raise Raised('HsmTopologyException')
    items = B.seq_items(it, tp)
    T, S = z3.Select(items, 0), z3.Select(items, 2)
    n_ex0 = g['g_n_ex']
    c.hset(tp, '$items', c.fresh('tpath_after_trans', B.IntArr))
    c.hset(tp, '$len', c.fresh('tpath_len_after_trans', z3.IntSort()))
    set_temp_fun(it, self, c.fresh('tf_after_trans', Ref))
    for v in ('g_cur', 'g_phase', 'g_n_ex'):
        g[v] = c.fresh(v, g[v].sort())
    ip = c.fresh('ip', z3.IntSort())
    for nm, f in trans_post(it, self, tp, S, T, n_ex0, ip):
        c.assume(f)
    g['g_L'] = g['g_cur']
    return SInt(ip)


def trans_specs():
    def mods(it, env):
        tp = env['tpath']
        return [(tp, '$items'), (tp, '$len'), (temp_of(it, env['self']), 'fun')]

    def common(it, env):
        c, g = it.c, it.c.ghost
        S, T = c.pyghost['S'], c.pyghost['T']
        tp, items, n = _tp(it, env)
        mx = c.to_int(env['max_index'])
        return c, g, S, T, items, n, mx

    # ---- loop 1 (topology e): climb from T->super->super looking for S
    def inv1(it, env):
        c, g, S, T, items, n, mx = common(it, env)
        if env['r'] is None:
            # (C24) a handler gave no status to the super search and the loop went on
            return [('status', z3.BoolVal(False))]
        ip, iq, r = c.to_int(env['ip']), c.to_int(env['iq']), c.to_int(env['r'])
        f = temp_fun(it, env['self'])
        SUPER, HANDLED, IGNORED = (it.w.statuses[k] for k in ('SUPER', 'HANDLED', 'IGNORED'))
        return [('capacity', z3.And(n == mx + 1, n >= 3)),
                ('ip-range', z3.And(1 <= ip, ip <= depth(T), ip <= mx)),
                ('path-recorded', z3.ForAll([_k], z3.Implies(z3.And(0 <= _k, _k <= ip),
                                                             z3.Select(items, _k) == anc(T, depth(T) - _k)),
                                            patterns=[z3.Select(items, _k)])),
                ('status', z3.Or(r == SUPER, r == HANDLED, r == IGNORED)),
                ('searching', z3.Implies(r == SUPER, z3.And(iq == 0, ip < depth(T), f == anc(T, depth(T) - ip - 1)))),
                ('found-source', z3.Implies(r == HANDLED, z3.And(iq == 1, ip < depth(T), S == anc(T, depth(T) - ip - 1)))),
                ('reached-top', z3.Implies(r == IGNORED, z3.And(iq == 0, ip == depth(T)))),
                ('source-not-on-path', z3.Implies(iq == 0, z3.ForAll([_k], z3.Implies(
                    z3.And(0 <= _k, _k <= ip), z3.Select(items, _k) != S), patterns=[z3.Select(items, _k)]))),
                ('t-is-source-parent', z3.And(env['t'].e == parent(S), env['s'].e == S)),
                ('every-state-so-far-answered-the-super-search', z3.Not(g['g_bad'])),
                ('path-states-answered', z3.And(z3.Implies(r != IGNORED, answered(T, depth(T) - ip - 1, depth(T))),
                                                z3.Implies(r == IGNORED, answered(T, depth(T) - ip, depth(T))))
                 if getattr(it.w, 'faulty_super', False) else z3.BoolVal(True)),
                ('monitor-untouched', z3.And(g['g_cur'] == S, g['g_n_ex'] == c.pyghost['n_ex0'], g['g_n_en'] == 0,
                                             g['g_n_in'] == 0, g['g_phase'] != ENTERING, z3.Not(g['g_turned']),
                                             g['g_goal'] == T))]

    def var1(it, env):
        c = it.c
        return depth(c.pyghost['T']) - c.to_int(env['ip']) + z3.If(c.to_int(env['r']) == it.w.statuses['SUPER'], 1, 0)

    s1 = LoopSpec(inv1, mods, var1, 'trans-e')
    s1.ghost_modifies = ['g_bad']      # (C24) set only on the way to the HsmTopologyException

    # ---- loops 2 and 4: scan the recorded path for t
    def scan_inv(it, env):
        c, g, S, T, items, n, mx = common(it, env)
        ip, iq, r = c.to_int(env['ip']), c.to_int(env['iq']), c.to_int(env['r'])
        t = env['t'].e
        IGNORED = it.w.statuses['IGNORED']
        return [('not-found-yet', z3.And(r == IGNORED, 0 <= iq, iq <= ip, ip == depth(T))),
                ('examined-differ', z3.ForAll([_k], z3.Implies(z3.And(iq < _k, _k <= ip), z3.Select(items, _k) != t),
                                              patterns=[z3.Select(items, _k)])),
                ('path-recorded', z3.ForAll([_k], z3.Implies(z3.And(0 <= _k, _k <= ip),
                                                             z3.Select(items, _k) == anc(T, depth(T) - _k)),
                                            patterns=[z3.Select(items, _k)])),
                ('capacity', z3.And(n == mx + 1, n >= 3, ip < n)),
                ('t-state', z3.And(is_state(t), g['g_cur'] == t, strictly_encloses(t, S))),
                ('monitor', z3.And(g['g_n_en'] == 0, g['g_n_in'] == 0, g['g_phase'] != ENTERING, z3.Not(g['g_turned']),
                                   g['g_goal'] == T, g['g_n_ex'] - c.pyghost['n_ex0'] == depth(S) - depth(t))),
                ('lower-ancestors-off-path', off_path(S, T, t)),
                ('unrelated', z3.And(z3.Not(encloses(S, T)), S != T))]

    def scan_var(it, env):
        return it.c.to_int(env['iq']) + 1

    s2 = LoopSpec(scan_inv, lambda it, env: [], scan_var, 'trans-f-scan')
    s4 = LoopSpec(scan_inv, lambda it, env: [], scan_var, 'trans-g-scan')

    # ---- loop 3 (topology g/h): exit S->super->super.. until an ancestor of T is reached
    def inv3(it, env):
        c, g, S, T, items, n, mx = common(it, env)
        ip, r = c.to_int(env['ip']), c.to_int(env['r'])
        t = env['t'].e
        IGNORED = it.w.statuses['IGNORED']
        return [('searching', z3.And(r == IGNORED, ip == depth(T))),
                ('path-recorded', z3.ForAll([_k], z3.Implies(z3.And(0 <= _k, _k <= ip),
                                                             z3.Select(items, _k) == anc(T, depth(T) - _k)),
                                            patterns=[z3.Select(items, _k)])),
                ('capacity', z3.And(n == mx + 1, n >= 3, ip < n)),
                ('t-state', z3.And(is_state(t), g['g_cur'] == t, strictly_encloses(t, S))),
                ('t-off-path', z3.Not(in_chain(T, t))),
                ('monitor', z3.And(g['g_n_en'] == 0, g['g_n_in'] == 0, g['g_phase'] != ENTERING, z3.Not(g['g_turned']),
                                   g['g_goal'] == T, g['g_n_ex'] - c.pyghost['n_ex0'] == depth(S) - depth(t))),
                ('lower-ancestors-off-path', off_path(S, T, t)),
                ('unrelated', z3.And(z3.Not(encloses(S, T)), S != T))]

    def var3(it, env):
        return depth(env['t'].e)

    s3 = _mon_mods(LoopSpec(inv3, mods, var3, 'trans-g'))
    s3.ghost_modifies = [v for v in s3.ghost_modifies if v != 'g_bad']     # only states of the active configuration
    return {(TR, 1): s1, (TR, 2): s2, (TR, 3): s3, (TR, 4): s4}


_d = z3.Int('d!inv')


def off_path(S, T, t):
    """Every ancestor of S strictly below t (S included) is not on T's ancestor chain."""
    return z3.ForAll([_d], z3.Implies(z3.And(depth(t) < _d, _d <= depth(S), _d <= depth(T)), anc(S, _d) != anc(T, _d)),
                     patterns=[anc(S, _d)])


def _hint(c, name, f):
    """A proof step: proved from what is known here (its own counted obligation), then available."""
    c.prove('lemma/%s' % name, f, tags=('C01',))


def trans_hints(specs):
    def exit1(it, env):
        c = it.c
        S, T = c.pyghost['S'], c.pyghost['T']
        tp, items, n = _tp(it, env)
        iq = c.to_int(env['iq'])
        _hint(c, 'trans-e/source-not-at-its-depth-on-path',
              z3.Implies(z3.And(iq == 0, depth(S) <= depth(T)), z3.Select(items, depth(T) - depth(S)) != S))
        _hint(c, 'trans-e/source-does-not-enclose-target', z3.Implies(iq == 0, z3.Not(encloses(S, T))))
    specs[(TR, 1)].on_exit = exit1

    def exit_scan(it, env):
        c = it.c
        S, T = c.pyghost['S'], c.pyghost['T']
        tp, items, n = _tp(it, env)
        t = env['t'].e
        r = c.to_int(env['r'])
        IGNORED, HANDLED = it.w.statuses['IGNORED'], it.w.statuses['HANDLED']
        _hint(c, 'trans-scan/not-found-means-off-path',
              z3.Implies(z3.And(r == IGNORED, depth(t) <= depth(T)), z3.Select(items, depth(T) - depth(t)) != t))
        _hint(c, 'trans-scan/off-path', z3.Implies(r == IGNORED, z3.Not(in_chain(T, t))))
    specs[(TR, 2)].on_exit = exit_scan
    specs[(TR, 4)].on_exit = exit_scan
    return specs


# =====================================================================================================
# dispatch (C01, C02, C23): loop invariants
# =====================================================================================================
def dispatch_specs(fixed_high_water=True):
    def mods(it, env):
        tp = env['tpath']
        return [(tp, '$items'), (tp, '$len'), (temp_of(it, env['self']), 'fun')]

    def base(it, env):
        c, g = it.c, it.c.ghost
        self = env['self']
        cur = c.pyghost['cur0']
        return c, g, self, cur

    def unchanged(it, env):
        c, g, self, cur = base(it, env)
        return [('state-fun-untouched', state_fun(it, self) == cur),
                ('ignored-flag-cleared', z3.Not(c.hget(c.read(self, 'event'), 'ignored')))]

    # ---- loop 1: search outward for a state that answers the event
    def inv1(it, env):
        c, g, self, cur = base(it, env)
        f = temp_fun(it, self)
        return unchanged(it, env) + [
            ('cursor-on-active-path', z3.And(is_state(f), encloses(f, cur))),
            ('next-offer-is-cursor', z3.And(g['g_offer_next'] == f, g['g_answer'] == 0, g['g_expect_empty'] == NONE)),
            ('no-action-yet', z3.And(g['g_n_ex'] == 0, g['g_n_en'] == 0, g['g_n_in'] == 0, g['g_cur'] == cur,
                                     g['g_phase'] == SEARCH, z3.Not(g['g_turned']))),
            ('t-is-current', env['t'].e == cur),
            ('tpath-fresh', z3.And(B.seq_len(it, env['tpath']) == 3, c.to_int(env['max_index']) == 2))]

    def var1(it, env):
        return depth(temp_fun(it, env['self']))

    s1 = LoopSpec(inv1, lambda it, env: [(temp_of(it, env['self']), 'fun')], var1, 'dispatch-search',
                  locals_kind={'r': 'int', 's': ('ref', 'state')})
    s1.ghost_modifies = ['g_offer_next', 'g_answer', 'g_expect_empty', 'g_offers', 'g_S', 'g_T', 'g_goal']

    # ---- loop 2: exit from the current state up to the source S
    def inv2(it, env):
        c, g, self, cur = base(it, env)
        tp, items, n = _tp(it, env)
        t, s = env['t'].e, env['s'].e
        T = z3.Select(items, 0)
        return unchanged(it, env) + [
            ('t-between-source-and-current', z3.And(is_state(t), encloses(s, t), encloses(t, cur))),
            ('configuration-is-t', z3.And(g['g_cur'] == t, g['g_phase'] != ENTERING, g['g_n_en'] == 0, g['g_n_in'] == 0,
                                          z3.Not(g['g_turned']))),
            ('exits-counted', g['g_n_ex'] == depth(cur) - depth(t)),
            ('tpath-setup', z3.And(n == 3, c.to_int(env['max_index']) == 2, z3.Select(items, 2) == s,
                                   is_state(T), T != TOP, s != TOP, is_state(s))),
            ('answer', z3.And(g['g_answer'] == 1, g['g_S'] == s, g['g_T'] == T, g['g_goal'] == T))]

    def var2(it, env):
        return depth(env['t'].e) - depth(env['s'].e)

    s2 = LoopSpec(inv2, lambda it, env: [(temp_of(it, env['self']), 'fun')], var2, 'dispatch-exit',
                  locals_kind={'r': 'int'})
    s2.ghost_modifies = ['g_cur', 'g_phase', 'g_n_ex']

    # ---- loop 3: enter from just below the LCA down to T
    def turn_ok(g):
        return z3.If(g['g_turned'], g['g_turn'] == g['g_L'], g['g_cur'] == g['g_L'])

    def entering(it, env, goal, ip, upto):
        """Shared by loops 3 and 6: the configuration is the ancestor of `goal` just above tpath[ip]."""
        c, g, self, cur = base(it, env)
        tp, items, n = _tp(it, env)
        return [('configuration-above-next-entry', z3.And(is_state(goal), g['g_cur'] == anc(goal, depth(goal) - ip - 1),
                                                          depth(goal) - ip - 1 >= 0)),
                ('entry-path', z3.ForAll([_k], z3.Implies(z3.And(0 <= _k, _k <= upto),
                                                          z3.Select(items, _k) == anc(goal, depth(goal) - _k)),
                                         patterns=[z3.Select(items, _k)])),
                ('goal', z3.And(g['g_goal'] == goal, z3.Select(items, 0) == goal)),
                ('capacity', z3.And(n >= 3, upto < n, n == c.to_int(env['max_index']) + 1) if fixed_high_water
                 else z3.And(n >= 3, upto < n))]

    def inv3(it, env):
        c, g, self, cur = base(it, env)
        tp, items, n = _tp(it, env)
        ip = c.to_int(env['ip'])
        T = g['g_T']
        return [('state-fun-untouched', state_fun(it, self) == cur), ('ip-range', ip >= -1)] + \
            entering(it, env, T, ip, ip) + [
            ('no-init-yet', z3.And(g['g_n_in'] == 0, g['g_answer'] == 1, is_lca(g['g_L'], g['g_S'], T))),
            ('turn-point', turn_ok(g))]

    s3 = LoopSpec(inv3, lambda it, env: [(temp_of(it, env['self']), 'fun')], lambda it, env: it.c.to_int(env['ip']) + 1,
                  'dispatch-enter')
    s3.ghost_modifies = ['g_cur', 'g_phase', 'g_n_en', 'g_turn', 'g_turned']

    # ---- loop 4: follow initial transitions (the guard itself sends INIT)
    def inv4(it, env):
        c, g, self, cur = base(it, env)
        tp, items, n = _tp(it, env)
        t = env['t'].e
        return [('state-fun-untouched', state_fun(it, self) == cur),
                ('settled-at-t', z3.And(is_state(t), t != TOP, g['g_cur'] == t, g['g_goal'] == t)),
                ('capacity', z3.And(n >= 3, n == c.to_int(env['max_index']) + 1) if fixed_high_water else n >= 3),
                ('answer', z3.And(g['g_answer'] == 1, is_lca(g['g_L'], g['g_S'], g['g_T']), g['g_n_in'] >= 0)),
                ('turn-point', turn_ok(g)),
                ('first-init-at-target', z3.Implies(g['g_n_in'] == 0, t == g['g_T']))]

    s4 = LoopSpec(inv4, mods, None, 'dispatch-init')
    s4.ghost_modifies = ['g_cur', 'g_goal', 'g_phase', 'g_n_en', 'g_n_in', 'g_last_in_tran', 'g_turn', 'g_turned']

    # ---- loop 5: climb from the init target up to t, recording the entry path
    def inv5(it, env):
        c, g, self, cur = base(it, env)
        tp, items, n = _tp(it, env)
        t = env['t'].e
        i = z3.Select(items, 0)
        ip = c.to_int(env['ip'])
        f = temp_fun(it, self)
        return [('state-fun-untouched', state_fun(it, self) == cur),
                ('target-below-t', z3.And(strictly_encloses(t, i), g['g_cur'] == t, g['g_goal'] == i)),
                ('ip-range', z3.And(0 <= ip, ip <= depth(i) - depth(t) - 1)),
                ('cursor', f == anc(i, depth(i) - ip - 1)),
                ('entry-path', z3.ForAll([_k], z3.Implies(z3.And(0 <= _k, _k <= ip),
                                                          z3.Select(items, _k) == anc(i, depth(i) - _k)),
                                         patterns=[z3.Select(items, _k)])),
                ('capacity', z3.And(n >= 3, n == c.to_int(env['max_index']) + 1, ip <= c.to_int(env['max_index']))
                 if fixed_high_water else z3.And(n >= 3, ip < n)),
                ('monitor', z3.And(g['g_answer'] == 1, is_lca(g['g_L'], g['g_S'], g['g_T']), g['g_n_in'] >= 1,
                                   g['g_turned'], g['g_turn'] == g['g_L'], g['g_last_in_tran']))]

    def var5(it, env):
        return depth(temp_fun(it, env['self'])) - depth(env['t'].e)

    s5 = LoopSpec(inv5, mods, var5, 'dispatch-init-path')

    # ---- loop 6: enter down to the init target
    def inv6(it, env):
        c, g, self, cur = base(it, env)
        tp, items, n = _tp(it, env)
        t = env['t'].e
        i = z3.Select(items, 0)
        ip = c.to_int(env['ip'])
        N = depth(i) - depth(t) - 1
        return [('state-fun-untouched', state_fun(it, self) == cur),
                ('target-below-t', strictly_encloses(t, i)), ('ip-range', z3.And(0 <= ip, ip <= N))] + \
            entering(it, env, i, ip, N) + [
            ('monitor', z3.And(g['g_answer'] == 1, is_lca(g['g_L'], g['g_S'], g['g_T']), g['g_n_in'] >= 1,
                               g['g_turned'], g['g_turn'] == g['g_L']))]

    s6 = LoopSpec(inv6, lambda it, env: [(temp_of(it, env['self']), 'fun')], lambda it, env: it.c.to_int(env['ip']) + 1,
                  'dispatch-init-enter')
    s6.ghost_modifies = ['g_cur', 'g_phase', 'g_n_en', 'g_turn', 'g_turned']
    return {(DI, 1): s1, (DI, 2): s2, (DI, 3): s3, (DI, 4): s4, (DI, 5): s5, (DI, 6): s6}


# =====================================================================================================
# is_in / child_state (C22)
# =====================================================================================================
def query_specs():
    II, CS = 'hsm.HsmEventProcessor.is_in', 'hsm.HsmEventProcessor.child_state'

    def upward(it, env, X):
        c = it.c
        self = env['self']
        cur = c.pyghost['cur0']
        f = temp_fun(it, self)
        return c, self, cur, f, [
            ('cursor-on-active-path', z3.And(is_state(f), encloses(f, cur))),
            ('state-fun-untouched', state_fun(it, self) == cur),
            ('lower-path-states-differ', z3.ForAll([_d], z3.Implies(z3.And(depth(f) < _d, _d <= depth(cur)),
                                                                    anc(cur, _d) != X), patterns=[anc(cur, _d)]))]

    def inv_is_in(it, env):
        X = it.c.to_ref(env['fn_state_handler'])
        c, self, cur, f, base = upward(it, env, X)
        return base + [('not-found-yet', z3.Not(c.to_bool(env['result'])))]

    def var(it, env):
        return depth(temp_fun(it, env['self']))

    def mods(it, env):
        return [(temp_of(it, env['self']), 'fun')]

    def inv_child(it, env):
        X = it.c.to_ref(env['fn_parent_state_handler'])
        c, self, cur, f, base = upward(it, env, X)
        child = env['child'].e
        return base + [('not-confirmed-yet', z3.Not(c.to_bool(env['confirmed']))),
                       ('child-below-cursor', z3.If(f == cur, child == cur, child == anc(cur, depth(f) + 1)))]

    return {(II, 1): LoopSpec(inv_is_in, mods, var, 'is_in-search', locals_kind={'r': 'int'}),
            (CS, 1): LoopSpec(inv_child, mods, var, 'child_state-search', locals_kind={'r': 'int'})}


# =====================================================================================================
# C24: the same loops under the WEAKENED handler contract (an init may name any state; an offer may return None)
# =====================================================================================================
MON_VARS.append('g_bad')
faulty = z3.Function('faulty', Ref, z3.BoolSort())     # the state gives no status (None) to the super search
DMAX = z3.Int('DMAX')          # the chart is finite: some bound on depth exists


def weak_axioms():
    return [z3.ForAll([s_w], z3.Implies(is_state(s_w), depth(s_w) <= DMAX), patterns=[depth(s_w)])]


s_w = z3.Const('s!w', Ref)


def answered(x, lo, hi):
    """every ancestor of x at a depth in (lo, hi] gave a status to the super search"""
    return z3.ForAll([_d], z3.Implies(z3.And(lo < _d, _d <= hi), z3.Not(faulty(anc(x, _d)))), patterns=[faulty(anc(x, _d))])


def weak_specs():
    P = 'hsm.HsmEventProcessor.init'

    def mods(it, env):
        tp = env['tpath']
        return [(tp, '$items'), (tp, '$len'), (temp_of(it, env['self']), 'fun')]

    def good(g):
        return z3.Not(g['g_bad'])

    # ---------------- init
    def inv1(it, env):
        c, g = it.c, it.c.ghost
        self = env['self']
        tp, items, n = _tp(it, env)
        i = temp_fun(it, self)
        out = env['outermost'].e
        return [('outermost-is-current', z3.And(is_state(out), g['g_cur'] == out)),
                ('target-is-goal', z3.And(g['g_goal'] == i, is_state(i))),
                ('bad-exactly-when-the-target-is-not-inside', g['g_bad'] == z3.Not(strictly_encloses(out, i))),
                ('tpath-capacity', z3.And(n == c.to_int(env['max_index']) + 1, n >= 1)),
                ('no-exit-so-far', z3.And(g['g_n_ex'] == 0, g['g_phase'] == ENTERING)),
                ('state-fun-untouched', state_fun(it, self) == c.pyghost['state_fun0'])]

    def var1(it, env):
        # every round either descends (a good init) or ends in an exception (a bad one)
        return 2 * (DMAX - depth(env['outermost'].e)) + z3.If(it.c.ghost['g_bad'], 0, 1)

    s1 = _mon_mods(LoopSpec(inv1, mods, var1, 'init-outer', locals_kind={'r': 'int', 'entery_fn': ('ref', 'state'),
                                                                        'previous_super': ('ref', 'state')}))

    def inv2(it, env):
        c, g = it.c, it.c.ghost
        self = env['self']
        tp, items, n = _tp(it, env)
        f = temp_fun(it, self)
        out = env['outermost'].e
        i = z3.Select(items, 0)
        idx = c.to_int(env['index'])
        mx = c.to_int(env['max_index'])
        ps = c.to_ref(env['previous_super'])
        # the target itself gave no status to the first super search: the cursor stayed on it, the next round sees the
        # same "parent" twice and raises
        stuck = z3.And(idx == 1, f == i, faulty(i), i != out) if getattr(it.w, 'faulty_super', False) else z3.BoolVal(False)
        return [('index-range', z3.And(0 <= idx, idx <= mx)),
                ('cursor-is-ancestor-or-top-again', z3.And(is_state(i), is_state(f), z3.Or(
                    stuck,
                    z3.And(idx <= depth(i), f == anc(i, depth(i) - idx)),
                    z3.And(idx == depth(i) + 1, f == TOP, out != TOP)))),
                ('path-recorded', z3.Implies(z3.Not(stuck), z3.ForAll([_k], z3.Implies(
                    z3.And(0 <= _k, _k <= idx, _k <= depth(i)), z3.Select(items, _k) == anc(i, depth(i) - _k)),
                    patterns=[z3.Select(items, _k)]))),
                ('target-first', z3.Select(items, 0) == i),
                ('tpath-capacity', z3.And(n == mx + 1, n >= 1)),
                ('top-visited-at-most-once-more', z3.And(idx <= depth(i) + 1)),
                ('previous-super', z3.If(idx == 0, ps == NONE, ps == f)),
                ('outermost-not-passed', z3.ForAll([_d], z3.Implies(z3.And(depth(f) < _d, _d <= depth(i)),
                                                                    anc(i, _d) != out), patterns=[anc(i, _d)])),
                ('bad-exactly-when-the-target-is-not-inside',
                 g['g_bad'] == z3.Or(z3.Not(strictly_encloses(out, i)), stuck)),
                ('consulted-states-answered', z3.Or(stuck, answered(i, depth(i) - idx, depth(i)))
                 if getattr(it.w, 'faulty_super', False) else z3.BoolVal(True)),
                ('monitor-untouched', z3.And(g['g_cur'] == out, g['g_goal'] == i, g['g_n_ex'] == 0,
                                             g['g_phase'] == ENTERING, is_state(out))),
                ('state-fun-untouched', state_fun(it, self) == c.pyghost['state_fun0'])]

    def var2(it, env):
        c = it.c
        f = temp_fun(it, env['self'])
        return 2 * depth(f) + z3.If(c.to_ref(env['previous_super']) == f, 0, 1)

    s2 = LoopSpec(inv2, mods, var2, 'init-path', locals_kind={'r': 'int'})
    s2.ghost_modifies = ['g_bad']

    def inv3(it, env):
        c, g = it.c, it.c.ghost
        self = env['self']
        tp, items, n = _tp(it, env)
        out = env['outermost'].e
        i = z3.Select(items, 0)
        idx = c.to_int(env['index'])
        N = depth(i) - depth(out)
        return [('index-range', z3.And(1 <= idx, idx <= N, N < n)),
                ('current-is-path-element', g['g_cur'] == anc(i, depth(i) - idx)),
                ('path-recorded', z3.ForAll([_k], z3.Implies(z3.And(0 <= _k, _k <= N),
                                                             z3.Select(items, _k) == anc(i, depth(i) - _k)),
                                            patterns=[z3.Select(items, _k)])),
                ('target-below-outermost', strictly_encloses(out, i)),
                ('goal', g['g_goal'] == i),
                ('path-states-answered', answered(i, depth(out), depth(i)) if getattr(it.w, 'faulty_super', False)
                 else z3.BoolVal(True)),
                ('no-bad-init-so-far', z3.Not(g['g_bad'])),
                ('tpath-capacity', z3.And(n == c.to_int(env['max_index']) + 1, n >= 1)),
                ('no-exit-so-far', z3.And(g['g_n_ex'] == 0, g['g_phase'] == ENTERING)),
                ('state-fun-untouched', state_fun(it, self) == c.pyghost['state_fun0'])]

    s3 = _mon_mods(LoopSpec(inv3, mods, lambda it, env: it.c.to_int(env['index']), 'init-enter',
                            locals_kind={'r': 'int', 'entery_fn': ('ref', 'state')}))
    out = {(P, 1): s1, (P, 2): s2, (P, 3): s3}

    # ---------------- dispatch: the initial-transition part
    strict = dispatch_specs()

    def dmods(it, env):
        tp = env['tpath']
        return [(tp, '$items'), (tp, '$len'), (temp_of(it, env['self']), 'fun')]

    def inv4(it, env):
        c, g = it.c, it.c.ghost
        tp, items, n = _tp(it, env)
        t = env['t'].e
        return [('state-fun-untouched', state_fun(it, env['self']) == c.pyghost['cur0']),
                ('settled-at-t', z3.And(is_state(t), t != TOP, g['g_cur'] == t, g['g_goal'] == t)),
                ('capacity', z3.And(n >= 3, n == c.to_int(env['max_index']) + 1)),
                ('answer', z3.And(g['g_answer'] == 1, g['g_n_in'] >= 0)),
                ('no-bad-init-survived', good(g))] + (
            [('settled-state-answers-the-super-search', z3.Not(faulty(t)))] if getattr(it.w, 'faulty_super', False) else [])

    def var4(it, env):
        return DMAX - depth(env['t'].e)
    s4 = LoopSpec(inv4, dmods, var4, 'dispatch-init')
    s4.ghost_modifies = ['g_cur', 'g_goal', 'g_phase', 'g_n_en', 'g_n_in', 'g_last_in_tran', 'g_turn', 'g_turned', 'g_bad']

    def inv5(it, env):
        c, g = it.c, it.c.ghost
        tp, items, n = _tp(it, env)
        t = env['t'].e
        i = z3.Select(items, 0)
        ip = c.to_int(env['ip'])
        f = temp_fun(it, env['self'])
        fs = getattr(it.w, 'faulty_super', False)
        # the init target gave no status to the (unchecked) first super search: the cursor stayed on it
        stuck = z3.And(ip == 0, f == i, faulty(i)) if fs else z3.BoolVal(False)
        return [('state-fun-untouched', state_fun(it, env['self']) == c.pyghost['cur0']),
                ('target', z3.And(is_state(i), is_state(t), t != TOP, g['g_cur'] == t, g['g_goal'] == i,
                                  z3.Implies(good(g), strictly_encloses(t, i)))),
                ('ip-range', z3.And(0 <= ip, ip <= c.to_int(env['max_index']))),
                ('cursor', z3.And(is_state(f), z3.Or(stuck, z3.And(ip + 1 <= depth(i), f == anc(i, depth(i) - ip - 1)),
                                                     z3.And(ip + 1 > depth(i), f == TOP)), ip <= depth(i) + 1)),
                ('consulted-states-answered', z3.And(z3.Or(stuck, z3.Not(faulty(i))), z3.Not(faulty(t))) if fs
                 else z3.BoolVal(True)),
                ('path-states-answered', z3.Or(stuck, answered(i, depth(i) - ip - 1, depth(i))) if fs else z3.BoolVal(True)),
                ('bad-exactly-when-the-target-is-not-inside-or-silent',
                 g['g_bad'] == z3.Or(z3.Not(strictly_encloses(t, i)), stuck)),
                ('entry-path', z3.ForAll([_k], z3.Implies(z3.And(0 <= _k, _k <= ip, _k <= depth(i)),
                                                          z3.Select(items, _k) == anc(i, depth(i) - _k)),
                                         patterns=[z3.Select(items, _k)])),
                ('t-not-passed', z3.ForAll([_d], z3.Implies(z3.And(depth(f) < _d, _d < depth(i)), anc(i, _d) != t),
                                           patterns=[anc(i, _d)])),
                ('capacity', z3.And(n >= 3, n == c.to_int(env['max_index']) + 1)),
                ('monitor', z3.And(g['g_answer'] == 1, g['g_n_in'] >= 1, g['g_last_in_tran']))]

    def var5(it, env):
        c = it.c
        f = temp_fun(it, env['self'])
        prev = env.get('previous_super')
        extra = z3.If(c.to_ref(prev) == f, 0, 1) if prev is not None else z3.IntVal(1)
        return 2 * depth(f) + extra
    s5 = LoopSpec(inv5, dmods, var5, 'dispatch-init-path', locals_kind={'previous_super': ('ref', 'state')})
    s5.ghost_modifies = ['g_bad']

    def inv6(it, env):
        c, g = it.c, it.c.ghost
        tp, items, n = _tp(it, env)
        t = env['t'].e
        i = z3.Select(items, 0)
        ip = c.to_int(env['ip'])
        N = depth(i) - depth(t) - 1
        return [('state-fun-untouched', state_fun(it, env['self']) == c.pyghost['cur0']),
                ('target-below-t', strictly_encloses(t, i)), ('ip-range', z3.And(0 <= ip, ip <= N)),
                ('configuration-above-next-entry', z3.And(is_state(i), g['g_cur'] == anc(i, depth(i) - ip - 1))),
                ('entry-path', z3.ForAll([_k], z3.Implies(z3.And(0 <= _k, _k <= N), z3.Select(items, _k) == anc(i, depth(i) - _k)),
                                         patterns=[z3.Select(items, _k)])),
                ('goal', z3.And(g['g_goal'] == i, z3.Select(items, 0) == i)),
                ('capacity', z3.And(n >= 3, N < n, n == c.to_int(env['max_index']) + 1)),
                ('monitor', z3.And(g['g_answer'] == 1, g['g_n_in'] >= 1, good(g)))] + (
            [('init-target-answers-the-super-search', z3.Not(faulty(i))),
             ('path-states-answered', answered(i, depth(t), depth(i)))] if getattr(it.w, 'faulty_super', False) else [])
    s6 = LoopSpec(inv6, lambda it, env: [(temp_of(it, env['self']), 'fun')], lambda it, env: it.c.to_int(env['ip']) + 1,
                  'dispatch-init-enter')
    s6.ghost_modifies = ['g_cur', 'g_phase', 'g_n_en', 'g_turn', 'g_turned']
    out.update({(DI, 1): strict[(DI, 1)], (DI, 2): strict[(DI, 2)], (DI, 3): strict[(DI, 3)], (DI, 4): s4, (DI, 5): s5,
                (DI, 6): s6})
    return out
