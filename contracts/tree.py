"""Chart tree theory (DESIGN.md 5.1): parent / depth / anc over Ref, with lemmas proved by hand-written induction."""
import z3

from pyvc.sym import Ref, NONE, Obligation
from pyvc.builtins import TOP

parent = z3.Function('parent', Ref, Ref)
depth = z3.Function('depth', Ref, z3.IntSort())
anc = z3.Function('anc', Ref, z3.IntSort(), Ref)
is_state = z3.Function('is_state', Ref, z3.BoolSort())

s_, x_ = z3.Consts('s!t x!t', Ref)
d_, e_ = z3.Ints('d!t e!t')


def encloses(x, s):
    """x is s or a (transitive) superstate of s."""
    return z3.And(is_state(x), is_state(s), depth(x) <= depth(s), anc(s, depth(x)) == x)


def strictly_encloses(x, s):
    return z3.And(encloses(x, s), x != s)


AXIOMS = [
    ('A1', z3.And(depth(TOP) == 0, parent(TOP) == TOP, is_state(TOP), z3.Not(is_state(NONE)), TOP != NONE)),
    ('A2', z3.ForAll([s_], z3.Implies(z3.And(is_state(s_), s_ != TOP),
                                      z3.And(depth(s_) >= 1, depth(parent(s_)) == depth(s_) - 1, is_state(parent(s_)))),
                     patterns=[parent(s_)])),
    ('A2b', z3.ForAll([s_], z3.Implies(is_state(s_), z3.And(depth(s_) >= 0, z3.Implies(depth(s_) == 0, s_ == TOP))),
                      patterns=[depth(s_)])),
    ('A3', z3.ForAll([s_], z3.Implies(is_state(s_), anc(s_, depth(s_)) == s_), patterns=[depth(s_)])),
    ('A4', z3.ForAll([s_, d_], z3.Implies(z3.And(is_state(s_), 0 <= d_, d_ < depth(s_)),
                                          anc(s_, d_) == anc(parent(s_), d_)), patterns=[anc(s_, d_)])),
]


def P1(s, d):   # anc lands on a state of the right depth
    return z3.Implies(z3.And(is_state(s), 0 <= d, d <= depth(s)), z3.And(is_state(anc(s, d)), depth(anc(s, d)) == d))


def P2(s, d):   # consecutive ancestors are parent-linked
    return z3.Implies(z3.And(is_state(s), 0 <= d, d < depth(s)), parent(anc(s, d + 1)) == anc(s, d))


def P3(s, d, e):   # ancestors of ancestors
    return z3.Implies(z3.And(is_state(s), 0 <= e, e <= d, d <= depth(s)), anc(anc(s, d), e) == anc(s, e))


LEMMAS = [
    ('L1', z3.ForAll([s_, d_], P1(s_, d_), patterns=[anc(s_, d_)])),
    ('L2', z3.ForAll([s_, d_], P2(s_, d_), patterns=[anc(s_, d_ + 1)])),
    ('L2b', z3.ForAll([s_, d_], z3.Implies(z3.And(is_state(s_), 1 <= d_, d_ <= depth(s_)),
                                           parent(anc(s_, d_)) == anc(s_, d_ - 1)), patterns=[parent(anc(s_, d_))])),
    ('L3', z3.ForAll([s_, d_, e_], P3(s_, d_, e_), patterns=[anc(anc(s_, d_), e_)])),
    ('L4', z3.ForAll([s_], z3.Implies(is_state(s_), anc(s_, 0) == TOP), patterns=[anc(s_, 0)])),
]


def theory():
    """Axioms + lemmas as background for program VCs (the lemmas are obligations of their own, below)."""
    return [f for _, f in AXIOMS] + [f for _, f in LEMMAS]


def lemma_obligations():
    """Each lemma proved from A1-A4 by induction on depth(s), written out by hand (z3 does no induction):
    for a fixed s, assume the statement for parent(s) (smaller depth) and show it for s."""
    ax = [f for _, f in AXIOMS]
    s = z3.Const('s!ind', Ref)
    d, e = z3.Ints('d!ind e!ind')
    obs = []

    def ob(name, hyps, goal):
        obs.append(Obligation('tree:lemma/%s' % name, ax + hyps, goal, ('tree',), ()))

    dd, ee = z3.Ints('dd!ih ee!ih')
    # L1
    ob('L1:base', [s == TOP], P1(s, d))
    ob('L1:step', [is_state(s), s != TOP, z3.ForAll([dd], P1(parent(s), dd), patterns=[anc(parent(s), dd)])], P1(s, d))
    # L2 (uses L1)
    l1 = [LEMMAS[0][1]]
    ob('L2:base', [s == TOP] + l1, P2(s, d))
    ob('L2:step', [is_state(s), s != TOP, z3.ForAll([dd], P2(parent(s), dd), patterns=[anc(parent(s), dd + 1)])] + l1,
       P2(s, d))
    ob('L2b', l1 + [P2(s, d - 1)], z3.Implies(z3.And(is_state(s), 1 <= d, d <= depth(s)),
                                               parent(anc(s, d)) == anc(s, d - 1)))
    # L3 (uses L1)
    ob('L3:base', [s == TOP] + l1, P3(s, d, e))
    ob('L3:step', [is_state(s), s != TOP,
                   z3.ForAll([dd, ee], P3(parent(s), dd, ee), patterns=[anc(anc(parent(s), dd), ee)])] + l1,
       P3(s, d, e))
    # L4
    ob('L4', l1 + [LEMMAS[3][1]], z3.Implies(is_state(s), anc(s, 0) == TOP))
    # consistency witness: the axioms have a model (two-state chart) -- checked as a cover
    obs.append(Obligation('tree:axioms-consistent', ax + [f for _, f in LEMMAS][:0], z3.BoolVal(True), ('tree',), (),
                          kind='cover'))
    return obs


def is_lca(L, S, T):
    """L(S,T) in the property's own words: the innermost state that is S or T or encloses both;
    S is exited unless it (strictly) encloses T; a self-transition exits and re-enters S."""
    both = z3.And(encloses(L, S), encloses(L, T))
    k = depth(L)
    return z3.If(S == T, L == parent(S),
                 z3.If(encloses(S, T), L == S,
                       z3.If(encloses(T, S), L == T,
                             z3.And(both, anc(S, k + 1) != anc(T, k + 1)))))
