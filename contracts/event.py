"""Contracts of miros/event.py used at call sites (verified against the real bodies by C25/C26)."""
import z3

from pyvc.sym import SInt, SBool, SRef, Ref, NONE, sval, StrV, Unsupported, Raised
from pyvc.verify import FnContract
from pyvc import builtins as B

sig_num = z3.Function('sig_num', StrV, z3.IntSort())     # number bound to a signal name in this process


def event_init(it, fn, args, kwargs):
    """Event(signal, payload=None): reports the matching (number, name) pair of the registry."""
    c = it.c
    r = args[0]
    signal = args[1] if len(args) > 1 else kwargs.get('signal')
    payload = args[2] if len(args) > 2 else kwargs.get('payload')
    c.write(r, 'payload', payload)
    if isinstance(signal, (int, SInt)) and not isinstance(signal, bool):
        n = c.to_int(signal)
        c.hset(r, 'signal', n)
        names = {v: k for k, v in it.w.signals.items()}
        if isinstance(signal, int) and signal in names:
            c.hset(r, 'signal_name', it.w.strobj(names[signal]))
        else:
            c.hset(r, 'signal_name', B.sig_name(n))
        return None
    if isinstance(signal, str):
        if signal in it.w.signals:
            c.hset(r, 'signal', z3.IntVal(it.w.signals[signal]))
        else:
            c.hset(r, 'signal', c.to_int(it.w.user_signal_number(it, signal)))
        c.hset(r, 'signal_name', it.w.strobj(signal))
        return None
    if isinstance(signal, SRef) and signal.pytype is None:
        # a value of unknown static type (e.g. out of json): a string takes the name branch, anything else that is
        # not a registered number is rejected
        if not c.branch(B.is_str(signal.e), 'signal-is-a-string'):
            raise Raised('TypeError')
        signal = SRef(signal.e, 'str')
    if isinstance(signal, SRef) and signal.pytype == 'str':
        c.hset(r, 'signal', sig_num(sval(signal.e)))
        c.hset(r, 'signal_name', signal.e)
        return None
    raise Unsupported('Event(signal=%r)' % (signal,))


def install(world):
    world.contracts['event.Event.__init__'] = FnContract('event.Event.__init__', event_init)
    # registry axioms used with sig_name / sig_num: the built-in table, read from the real source
    i = z3.Int('i!reg')
    ax = []
    for name, num in world.signals.items():
        ax.append(B.sig_name(z3.IntVal(num)) == world.strobj(name))
        ax.append(sig_num(world.strconst(name)) == num)
    world.registry_axioms = ax
