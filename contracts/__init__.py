"""Sidecar contracts for miros (keyed by structural path; nothing here copies miros code)."""
from pyvc.sym import World


def base_world(src, **kw):
    from . import event, queues
    w = World(src, **kw)
    event.install(w)
    queues.install(w)
    return w
