"""Queue-level contracts: LockingDeque, the queued chart's step, live-output callbacks (C04, C14-C16, C21)."""
import z3

from pyvc.sym import SInt, SBool, SRef, SFunc, Ref, NONE, IntArr, LoopSpec, Unsupported, Raised
from pyvc.verify import FnContract
from pyvc import builtins as B
from .common import view, class_const, SeqView, overflow_keeps_order


# ---------------------------------------------------------------- ghost sequences (logs)
def ghost_seq_init(c, name):
    if name + '_len' not in c.ghost:
        c.ghost[name] = c.fresh('g_' + name, IntArr)
        c.ghost[name + '_len'] = c.fresh('g_' + name + '_len', z3.IntSort())
        c.assume(c.ghost[name + '_len'] >= 0)


def ghost_seq_push(c, name, ref):
    ghost_seq_init(c, name)
    n = c.ghost[name + '_len']
    c.ghost[name] = z3.Store(c.ghost[name], n, ref)
    c.ghost[name + '_len'] = n + 1


# ---------------------------------------------------------------- callbacks registered by the user
def call_fn_hook(it, fv, args, kwargs):
    """A user-supplied callable (live spy / live trace callback, timer target...).
    Assumed contract: it does not touch the chart; its invocation is recorded in a ghost log."""
    c = it.c
    stub = c.pyghost.get(('stub', fv.e.sexpr()))
    if stub is not None:
        return stub(it, args, kwargs)           # an abstract stand-in supplied by a target (e.g. "the wrapped step")
    which = c.pyghost.get(('cbname', fv.e.sexpr()), 'callback')
    ghost_seq_push(c, 'log_' + which, c.to_ref(args[0]) if args else NONE)
    grows = c.pyghost.get(('callback_may_append_to', which))
    if grows is not None and c.choose(2, 'a-post-lands-during-the-callback'):
        # a post made from the callback, or by another thread while it runs, leaves its marker in the step log
        # (with room left: a step longer than the buffer is the truncation the property states)
        c.assume(B.seq_len(it, grows) < c.hget(grows, '$maxlen') - 1)
        B.seq_append(it, grows, c.fresh_ref('marker_of_a_concurrent_post', 'str'))
    return None


# ---------------------------------------------------------------- LockingDeque call-site contracts
def _ld_parts(it, ld):
    c = it.c
    return c.read(ld, 'deque'), c.read(ld, 'locking_queue')


def _tokens_after_put(c, q, newlen):
    T, M, U = c.hget(q, 'qsize'), c.hget(q, 'maxsize'), c.hget(q, 'unfinished')
    T1 = z3.If(T < M, T + 1, T)
    T2 = z3.If(T1 < newlen, newlen, T1)
    c.hset(q, 'qsize', T2)
    c.hset(q, 'unfinished', U + (T2 - T))


def ld_append(it, fn, args, kwargs):
    c = it.c
    ld, x = args[0], c.to_ref(args[1])
    d, q = _ld_parts(it, ld)
    old = view(it, d)
    if c.branch(old.len < old.maxlen, 'ld-room'):
        c.hset(d, '$items', z3.Store(old.items, old.len, x))
        c.hset(d, '$len', old.len + 1)
    else:
        # full: the new event is kept at the back, one pending event is displaced (which one is not specified),
        # the others keep their order
        A = c.fresh('ld_over', IntArr)
        c.hset(d, '$items', z3.Store(A, old.len - 1, x))
        c.assume(overflow_keeps_order(old, view(it, d), x, True))
    _tokens_after_put(c, q, c.hget(d, '$len'))
    return None


def ld_appendleft(it, fn, args, kwargs):
    c = it.c
    ld, x = args[0], c.to_ref(args[1])
    d, q = _ld_parts(it, ld)
    old = view(it, d)
    if c.branch(old.len < old.maxlen, 'ld-room'):
        A = B.shifted(c, old.items, 1, old.len + 1, -1, 'ldl')
        c.hset(d, '$items', z3.Store(A, 0, x))
        c.hset(d, '$len', old.len + 1)
    else:
        A = c.fresh('ld_over', IntArr)
        c.hset(d, '$items', z3.Store(A, 0, x))
        c.assume(overflow_keeps_order(old, view(it, d), x, False))
    _tokens_after_put(c, q, c.hget(d, '$len'))
    return None


def ld_popleft(it, fn, args, kwargs):
    d, q = _ld_parts(it, args[0])
    return B.seq_popleft(it, d)


def ld_pop(it, fn, args, kwargs):
    d, q = _ld_parts(it, args[0])
    return B.seq_pop(it, d)


def ld_len(it, fn, args, kwargs):
    d, q = _ld_parts(it, args[0])
    return SInt(B.seq_len(it, d))


def ld_qsize(it, fn, args, kwargs):
    d, q = _ld_parts(it, args[0])
    return SInt(it.c.hget(q, 'qsize'))


def ld_clear(it, fn, args, kwargs):
    c = it.c
    d, q = _ld_parts(it, args[0])
    c.hset(d, '$len', z3.IntVal(0))
    c.hset(q, 'qsize', z3.IntVal(0))
    c.hset(q, 'unfinished', c.fresh('unf', z3.IntSort()))
    return None


def ld_wait(it, fn, args, kwargs):
    """Blocking: returns once a token is available and takes it."""
    c = it.c
    d, q = _ld_parts(it, args[0])
    T = c.hget(q, 'qsize')
    c.assume(T > 0)
    c.hset(q, 'qsize', T - 1)
    return SRef(it.w.strobj('ready'), 'str')


def ld_task_done(it, fn, args, kwargs):
    c = it.c
    d, q = _ld_parts(it, args[0])
    U = c.hget(q, 'unfinished')
    c.prove('%s:call-pre/task_done-has-unfinished' % it.where(), U > 0)
    c.hset(q, 'unfinished', U - 1)
    return None


LD_CONTRACTS = {
    'append': ld_append, 'appendleft': ld_appendleft, 'popleft': ld_popleft, 'pop': ld_pop,
    '__len__': ld_len, 'len': ld_len, 'qsize': ld_qsize, 'clear': ld_clear, 'wait': ld_wait, 'get': ld_wait,
    'task_done': ld_task_done,
}


# ---------------------------------------------------------------- loops of LockingDeque (token repair)
def _repair_loop(name):
    def inv(it, env):
        c = it.c
        d, q = _ld_parts(it, env['self'])
        T, n, M = c.hget(q, 'qsize'), B.seq_len(it, d), c.hget(q, 'maxsize')
        return [('tokens-below-len', T <= n), ('len-within-capacity', z3.And(n >= 0, n <= M)),
                ('tokens-nonneg', T >= 0)]

    def mods(it, env):
        d, q = _ld_parts(it, env['self'])
        return [(q, 'qsize'), (q, 'unfinished')]

    def var(it, env):
        c = it.c
        d, q = _ld_parts(it, env['self'])
        return B.seq_len(it, d) - c.hget(q, 'qsize')
    return LoopSpec(inv, mods, var, name)


def _top_up_loop():
    """LockingDeque.__wake_up: `while len(deque) > qsize(): put(block=False)` -- tokens catch up with the items."""
    def inv(it, env):
        c = it.c
        d, q = _ld_parts(it, env['self'])
        T, n, M = c.hget(q, 'qsize'), B.seq_len(it, d), c.hget(q, 'maxsize')
        T0 = env['$T_entry']
        return [('tokens-within-capacity', z3.And(T >= 1, T <= M)), ('len-within-capacity', z3.And(n >= 0, n <= M)),
                ('tokens-only-added-while-items-were-uncovered', z3.And(T >= T0, z3.Or(T == T0, T <= n)))]

    def on_entry(it, env):
        c = it.c
        d, q = _ld_parts(it, env['self'])
        env['$T_entry'] = c.hget(q, 'qsize')

    def mods(it, env):
        d, q = _ld_parts(it, env['self'])
        return [(q, 'qsize'), (q, 'unfinished')]

    def var(it, env):
        c = it.c
        d, q = _ld_parts(it, env['self'])
        return B.seq_len(it, d) - c.hget(q, 'qsize')
    sp = LoopSpec(inv, mods, var, 'wake-up-top-up')
    sp.on_entry = on_entry
    return sp


def _clear_loop():
    def inv(it, env):
        c = it.c
        d, q = _ld_parts(it, env['self'])
        u0, t0 = env['$UT_entry']
        return [('tokens-nonneg', c.hget(q, 'qsize') >= 0), ('deque-empty', B.seq_len(it, d) == 0),
                ('every-token-unfinished', c.hget(q, 'unfinished') >= c.hget(q, 'qsize')),
                # each token taken out is also taken off the unfinished count -- and nothing else is: a token that a
                # consumer already holds (got, not yet task_done) stays counted
                ('unfinished-drops-with-the-tokens', c.hget(q, 'unfinished') - c.hget(q, 'qsize') == u0 - t0)]

    def on_entry(it, env):
        c = it.c
        d, q = _ld_parts(it, env['self'])
        env['$UT_entry'] = (c.hget(q, 'unfinished'), c.hget(q, 'qsize'))

    def mods(it, env):
        d, q = _ld_parts(it, env['self'])
        return [(q, 'qsize'), (q, 'unfinished')]

    def var(it, env):
        d, q = _ld_parts(it, env['self'])
        return it.c.hget(q, 'qsize')
    sp = LoopSpec(inv, mods, var, 'clear-drain')
    sp.on_entry = on_entry
    return sp


# ---------------------------------------------------------------- loops of the live-output wrappers
def _print_spy_loop(ordinal_key):
    """for line in list(self.rtc.spy): self.live_spy_callback(line)
    invariant: the callback log grew by exactly the first k lines, in order."""
    def inv(it, env):
        c = it.c
        k = c.to_int(env['$k1'])
        seq = env['$it1'][1]
        n0, log0 = env['$snap_spy']
        log, n = c.ghost['log_live_spy'], c.ghost['log_live_spy_len']
        j = z3.Int('j!ps')
        items = B.seq_items(it, seq)
        rs = c.read(c.read(env['self'], 'rtc'), 'spy')
        e_items, e_len = env['$snap_rs']
        r_items, r_len = B.seq_items(it, rs), B.seq_len(it, rs)
        return [('step-log-only-grows', z3.And(r_len >= e_len, z3.ForAll([j], z3.Implies(
                    z3.And(0 <= j, j < e_len), z3.Select(r_items, j) == z3.Select(e_items, j))))),
                ('count', n == n0 + k),
                ('in-order', z3.ForAll([j], z3.Implies(z3.And(0 <= j, j < k),
                                                       z3.Select(log, n0 + j) == z3.Select(items, j)))),
                ('older-kept', z3.ForAll([j], z3.Implies(z3.And(0 <= j, j < n0),
                                                         z3.Select(log, j) == z3.Select(log0, j))))]

    def on_entry(it, env):
        c = it.c
        ghost_seq_init(c, 'log_live_spy')
        env['$snap_spy'] = (c.ghost['log_live_spy_len'], c.ghost['log_live_spy'])
        rs = c.read(c.read(env['self'], 'rtc'), 'spy')
        env['$snap_rs'] = (B.seq_items(it, rs), B.seq_len(it, rs))
    def mods(it, env):
        # the callback (or another thread posting to the chart meanwhile) may add markers to the step log
        c = it.c
        rs = c.read(c.read(env['self'], 'rtc'), 'spy')
        return [(rs, '$items'), (rs, '$len')]
    spec = LoopSpec(inv, mods, None, 'print-spy')
    spec.on_entry = on_entry
    spec.ghost_modifies = ['log_live_spy', 'log_live_spy_len']
    return spec


def install(world):
    for m, f in LD_CONTRACTS.items():
        p = 'activeobject.LockingDeque.' + m
        world.contracts[p] = FnContract(p, f)
    world.loopspecs[('activeobject.LockingDeque.__wake_up', 1)] = _top_up_loop()
    world.loopspecs[('activeobject.LockingDeque.append', 1)] = _repair_loop('append-repair')
    world.loopspecs[('activeobject.LockingDeque.appendleft', 1)] = _repair_loop('appendleft-repair')
    world.loopspecs[('activeobject.LockingDeque.clear', 1)] = _clear_loop()
    world.loopspecs[('hsm.HsmWithQueues.print_spy_after_rtc_if_live._print_spy_if_live', 1)] = _print_spy_loop(1)
    world.loopspecs[('hsm.HsmWithQueues.print_spy_after_at_start_if_live._print_spy_if_live', 1)] = _print_spy_loop(1)
    world.hooks['call_fn'] = call_fn_hook
