"""Shared sidecar vocabulary: symbolic chart objects, sequence views, spec predicates."""
import z3

from pyvc.sym import SInt, SBool, SRef, SFunc, Ref, NONE, IntArr, sval, Unsupported
from pyvc import builtins as B

INSTRUMENTED_HOSTS = ('InstrumentedHsmEventProcessor', 'HsmWithQueues', 'ActiveObject', 'Factory')
QUEUED_HOSTS = ('HsmWithQueues', 'ActiveObject', 'Factory')
ACTIVE_HOSTS = ('ActiveObject', 'Factory')


def class_const(it, cls, name):
    return it.class_attr(__import__('pyvc.sym', fromlist=['SClass']).SClass(cls), name)


def new_deque(it, name, maxlen, elem=None, length=None):
    """A deque with arbitrary contents: 0 <= len <= maxlen."""
    c = it.c
    r = c.fresh_ref(name, 'deque<%s>' % elem if elem else 'deque')
    n = c.fresh(name + '_len', z3.IntSort()) if length is None else length
    c.hset(r, '$len', n)
    c.hset(r, '$maxlen', z3.IntVal(maxlen) if isinstance(maxlen, int) else maxlen)
    c.hset(r, '$items', c.fresh(name + '_items', IntArr))
    c.assume(z3.And(n >= 0, n <= c.hget(r, '$maxlen')))
    return r


def make_chart(it, host, with_queues=True):
    """A symbolic instance of `host` satisfying the class invariant its __init__ establishes
    (the four/five Attribute holders pairwise distinct, ring buffers with the sizes read from source)."""
    c = it.c
    self = c.fresh_ref('self', host)
    for f in ('state', 'temp', 'event'):
        c.hset(self, f, c.fresh_ref(f, 'Attribute').e)
    if host in INSTRUMENTED_HOSTS:
        for f in ('rtc', 'full'):
            c.hset(self, f, c.fresh_ref(f, 'Attribute').e)
        rtc, full = c.read(self, 'rtc'), c.read(self, 'full')
        rsz = class_const(it, 'HsmEventProcessor', 'RTC_RING_BUFFER_SIZE')
        ssz = class_const(it, 'HsmEventProcessor', 'SPY_RING_BUFFER_SIZE')
        tsz = class_const(it, 'HsmEventProcessor', 'TRC_RING_BUFFER_SIZE')
        c.hset(rtc, 'spy', new_deque(it, 'rtc_spy', rsz, 'str').e)
        c.hset(rtc, 'tuples', new_deque(it, 'rtc_tuples', rsz, 'nt:SpyTuple').e)
        c.hset(full, 'spy', new_deque(it, 'full_spy', ssz, 'str').e)
        c.hset(full, 'trace', new_deque(it, 'full_trace', tsz, 'nt:TraceTuple').e)
    if host in QUEUED_HOSTS and with_queues:
        qsz = class_const(it, host, 'QUEUE_SIZE')
        c.hset(self, 'defer_queue', new_deque(it, 'defer_queue', qsz, 'Event').e)
        if host in ACTIVE_HOSTS:
            ld = make_locking_deque(it)
            c.hset(self, 'locking_deque', ld.e)
            c.hset(self, 'queue', ld.e)
            it.w.pytype_overrides[(host, 'queue')] = 'LockingDeque'
            c.hset(self, 'posted_events_queue', new_deque(it, 'posted_events', qsz, 'nt:PostedEvent').e)
        else:
            c.hset(self, 'queue', new_deque(it, 'queue', qsz, 'Event').e)
    return self


def make_locking_deque(it, balanced=True):
    c = it.c
    ld = c.fresh_ref('locking_deque', 'LockingDeque')
    qsz = class_const(it, 'HsmWithQueues', 'QUEUE_SIZE')
    d = new_deque(it, 'ld_deque', qsz, 'Event')
    q = c.fresh_ref('ld_queue', 'Queue')
    c.hset(ld, 'deque', d.e)
    c.hset(ld, 'locking_queue', q.e)
    c.hset(q, 'maxsize', z3.IntVal(qsz))
    tokens = c.fresh('tokens', z3.IntSort())
    c.hset(q, 'qsize', tokens)
    c.hset(q, 'unfinished', c.fresh('unfinished', z3.IntSort()))
    c.assume(z3.And(tokens >= 0, tokens <= qsz, c.hget(q, 'unfinished') >= tokens))
    if balanced:
        c.assume(tokens == c.hget(d, '$len'))
    return ld


class SeqView:
    """(items, len, maxlen) of a list/deque at one moment."""
    def __init__(self, c, ref, heap=None):
        r = ref.e if isinstance(ref, SRef) else ref
        h = heap if heap is not None else c.heap
        self.items = z3.Select(h['$items'], r) if '$items' in h else z3.Select(c.harr('$items'), r)
        self.len = z3.Select(h['$len'], r) if '$len' in h else z3.Select(c.harr('$len'), r)
        self.maxlen = z3.Select(h['$maxlen'], r) if '$maxlen' in h else z3.Select(c.harr('$maxlen'), r)

    def at(self, i):
        return z3.Select(self.items, i)


def view(it, ref, heap=None):
    c = it.c
    for f in ('$items', '$len', '$maxlen'):
        c.harr(f)
    return SeqView(c, ref, heap)


_i = z3.Int('i!spec')


def same_seq(a, b):
    return z3.And(a.len == b.len, z3.ForAll([_i], z3.Implies(z3.And(0 <= _i, _i < a.len), a.at(_i) == b.at(_i))))


def is_fifo_put(old, new, x):
    """new = (old ++ [x]) truncated from the left to maxlen   (deque.append)."""
    room = old.len < old.maxlen
    return z3.And(
        z3.Implies(room, z3.And(new.len == old.len + 1, new.at(old.len) == x,
                                z3.ForAll([_i], z3.Implies(z3.And(0 <= _i, _i < old.len), new.at(_i) == old.at(_i))))),
        z3.Implies(z3.Not(room), z3.And(new.len == old.len, new.at(old.len - 1) == x,
                                        z3.ForAll([_i], z3.Implies(z3.And(0 <= _i, _i < old.len - 1),
                                                                   new.at(_i) == old.at(_i + 1))))))


def is_lifo_put(old, new, x):
    """new = ([x] ++ old) truncated from the right to maxlen   (deque.appendleft)."""
    room = old.len < old.maxlen
    return z3.And(
        new.at(0) == x,
        z3.Implies(room, z3.And(new.len == old.len + 1,
                                z3.ForAll([_i], z3.Implies(z3.And(1 <= _i, _i <= old.len), new.at(_i) == old.at(_i - 1))))),
        z3.Implies(z3.Not(room), z3.And(new.len == old.len,
                                        z3.ForAll([_i], z3.Implies(z3.And(1 <= _i, _i < old.len),
                                                                   new.at(_i) == old.at(_i - 1))))))


def is_tail(old, new):
    return z3.And(new.len == old.len - 1,
                  z3.ForAll([_i], z3.Implies(z3.And(0 <= _i, _i < new.len), new.at(_i) == old.at(_i + 1))))


def named(prefix, pairs):
    return [('%s/%s' % (prefix, n), f) for n, f in pairs]


def prove_all(it, prefix, pairs, tags=()):
    for n, f in pairs:
        it.c.prove('%s/%s' % (prefix, n), f, tags=tags)


def symbolic_event(it, name='e', user=True):
    """An Event object with an arbitrary user signal (number above the built-in table)."""
    c = it.c
    e = c.fresh_ref(name, 'Event')
    sig = c.fresh(name + '_signal', z3.IntSort())
    c.hset(e, 'signal', sig)
    nm = c.fresh_ref(name + '_signal_name', 'str')
    c.hset(e, 'signal_name', nm.e)
    if user:
        c.assume(sig > len(it.w.signals))
        # registry consistency (C25): a number above the built-in table carries a name outside the built-in table
        c.assume(z3.And([sval(nm.e) != c.strconst(k) for k in it.w.signals]))
    else:
        c.assume(sig >= 1)
    return e


def overflow_keeps_order(old, new, x, at_back):
    """On overflow exactly one pending event is displaced (which one is not specified) and the others keep their
    relative order; the new event sits at the back (fifo) or at the front (lifo)."""
    n = old.len
    v = z3.Int('victim!spec')
    off = 0 if at_back else 1

    def without(vv):
        return z3.And(
            z3.ForAll([_i], z3.Implies(z3.And(0 <= _i, _i < vv), new.at(_i + off) == old.at(_i))),
            z3.ForAll([_i], z3.Implies(z3.And(vv < _i, _i < n), new.at(_i - 1 + off) == old.at(_i))))
    newpos = new.at(n - 1) == x if at_back else new.at(0) == x
    return z3.And(new.len == n, newpos, z3.Or(without(z3.IntVal(0)), without(n - 1),
                                             z3.Exists([v], z3.And(0 <= v, v < n, without(v)))))
