"""Timed posts, cancellation, stop (C10, C11, C12, C31)."""
import z3

from pyvc.sym import SInt, SBool, SRef, SFunc, Ref, StrV, NONE, IntArr, LoopSpec, Unsupported, Raised, sval
from pyvc.verify import FnContract
from pyvc import builtins as B

AO = 'activeobject.ActiveObject.'
RUNNER = AO + '__post_event.post_event_thread_runner'


# ---------------------------------------------------------------- virtual clock and post log (ghost)
def clock_init(c):
    g = c.ghost
    g['g_now'] = c.fresh('t0', z3.IntSort())
    g['g_posts'] = z3.IntVal(0)
    g['g_last_post_time'] = c.fresh('no_post_yet', z3.IntSort())
    g['g_kinds_ok'] = z3.BoolVal(True)
    g['g_cancelled'] = z3.BoolVal(False)        # somebody else cleared this source's run event (cancel_event(s), stop)
    c.pyghost['t0'] = g['g_now']


def sleep_hook(it, secs):
    """time.sleep(p): the virtual clock advances by exactly p (real-time accuracy of sleep is not claimed)."""
    c, g = it.c, it.c.ghost
    if 'g_now' in g:
        g['g_now'] = g['g_now'] + c.to_int(secs)
    r = c.pyghost.get('runner')
    if r is not None and r.get('may_cancel') and r.get('run_event') is not None:
        # while the timer thread sleeps another thread may cancel the source: it clears the run event
        if c.choose(2, 'cancelled-while-sleeping'):
            c.hset(SRef(r['run_event'], 'ThreadEvent'), 'flag', z3.BoolVal(False))
            g['g_cancelled'] = z3.BoolVal(True)
    return None


def ao_post(kind):
    def apply(it, fn, args, kwargs):
        """ActiveObject.post_fifo/post_lifo(e) as the timer thread uses it: one posting of kind `kind` at the
        current virtual time (where it lands in the queue is C14/C16's contract)."""
        c, g = it.c, it.c.ghost
        period = args[2] if len(args) > 2 else kwargs.get('period')
        if period is not None:
            raise Unsupported('timed post inside a timer thread')
        exp = c.pyghost.get('runner')
        if exp is not None and 'g_now' in g:
            d0, p, want_kind, ev = exp['d0'], exp['period'], exp['kind'], exp['event']
            t0 = c.pyghost['t0']
            if exp.get('may_cancel'):
                c.prove('runner:cancel/never-posts-after-its-run-event-was-cleared', z3.Not(g['g_cancelled']),
                        tags=('C11', 'C12'))
            first = g['g_posts'] == 0
            c.prove('runner:timing/first-post-after-p-if-deferred-else-at-once',
                    z3.Implies(first, g['g_now'] == t0 + z3.If(d0, p, 0)), tags=('C10',))
            c.prove('runner:timing/exactly-one-period-between-posts',
                    z3.Implies(z3.Not(first), g['g_now'] - g['g_last_post_time'] == p), tags=('C10',))
            c.prove('runner:post/posts-the-requested-event', c.to_ref(args[1]) == ev, tags=('C10',))
            c.prove('runner:post/goes-to-the-%s' % ('back (fifo)' if kind == 'fifo' else 'front (lifo)'),
                    z3.BoolVal(True), tags=('C10',))
            g['g_kinds_ok'] = z3.And(g['g_kinds_ok'], want_kind == c.strconst(kind))
            g['g_posts'] = g['g_posts'] + 1
            g['g_last_post_time'] = g['g_now']
        else:
            c.pyghost.setdefault('untimed_posts', []).append((kind, c.to_ref(args[1])))
        return None
    return apply


def runner_spec():
    def parts(it, env):
        c = it.c
        spec = env['spec']
        ev = c.read(spec, 'task_run_event')
        return c, c.ghost, spec, c.hget(ev, 'flag'), c.to_int(c.read(spec, 'total_times')), \
            c.to_int(c.read(spec, 'period')), c.to_int(env['times_activated']), c.to_bool(env['deferred'])

    def inv(it, env):
        c, g, spec, flag, n, p, ta, deferred = parts(it, env)
        r = c.pyghost['runner']
        return [('activations-equal-posts', z3.And(ta == g['g_posts'], ta >= 0)),
                ('never-more-than-requested', z3.Implies(n >= 1, ta <= n)),
                ('runs-exactly-while-postings-remain', flag == z3.And(z3.Not(g['g_cancelled']), z3.Or(n == 0, ta < n))),
                ('clock-before-first-post', z3.Implies(g['g_posts'] == 0, g['g_now'] == c.pyghost['t0'])),
                ('clock-after-a-post', z3.Implies(g['g_posts'] >= 1, g['g_now'] == g['g_last_post_time'])),
                # the code this sidecar was written for re-uses its parameter `deferred` as the "wait on this pass" flag
                ('wait-flag-before-first-post', z3.Implies(g['g_posts'] == 0, deferred == r['d0']), ('if-assigned:deferred',)),
                ('wait-flag-after-a-post', z3.Implies(g['g_posts'] >= 1, deferred), ('if-assigned:deferred',)),
                ('right-queue-kind', g['g_kinds_ok']),
                ('request-unchanged', z3.And(n == r['n'], p == r['period'], n >= 0, p > 0))]

    def mods(it, env):
        c = it.c
        return [(c.read(env['spec'], 'task_run_event'), 'flag')]

    def var(it, env):
        c, g, spec, flag, n, p, ta, deferred = parts(it, env)
        return (n >= 1, n - ta)

    s = LoopSpec(inv, mods, var, 'timer-runner')
    s.ghost_modifies = ['g_now', 'g_posts', 'g_last_post_time', 'g_kinds_ok', 'g_cancelled']
    return s


def install(world):
    world.hooks['sleep'] = sleep_hook
    world.fresh_excludes['ThreadEvent'] = ['PostedEvent.task_run_event']
    world.loopspecs[(RUNNER, 1)] = runner_spec()
    world.local_types[(RUNNER, 'spec')] = 'nt:PostedEventThreadSpec'
    world.pytype_overrides[('nt:PostedEventThreadSpec', 'event')] = 'Event'
    world.pytype_overrides[('nt:PostedEventThreadSpec', 'task_run_event')] = 'ThreadEvent'
    world.pytype_overrides[('nt:PostedEvent', 'task_run_event')] = 'ThreadEvent'
    world.pytype_overrides[('nt:PostedEvent', 'uuid')] = 'uuid'


# ---------------------------------------------------------------- cancel_event / cancel_events (C11)
IntInt = z3.ArraySort(z3.IntSort(), z3.IntSort())
_i, _m = z3.Ints('i!c m!c')
_x = z3.Const('x!c', Ref)


def cancel_spec(which):
    """Loop `for i in reversed(range(len(P))): examine P[-1]; match -> clear flag, pop (cancel_event: break);
    else rotate(1)`.  After j iterations the deque is  K ++ P0[0 .. n-j)  where K lists, in their original order,
    the entries among the last j of P0 that do NOT match -- by VALUE, which is what the property demands."""
    field = 'uuid' if which == 'cancel_event' else 'signal_name'

    def matches(it, env, entry):
        c = it.c
        return sval(c.hget(entry, 'PostedEvent.' + field)) == c.pyghost['cancel_value']

    def on_entry(it, env):
        c = it.c
        P = c.read(env['self'], 'posted_events_queue')
        env['$P0'] = (B.seq_items(it, P), B.seq_len(it, P))
        env['$flag0'] = c.harr('flag')
        c.ghost['g_src'] = c.fresh('src', IntInt)
        c.ghost['g_pos'] = c.fresh('pos', IntInt)
        c.ghost['g_kept'] = z3.IntVal(0)
        if which == 'cancel_event':
            c.pyghost['cancel_value'] = sval(c.to_ref(env['uuid']))
        else:
            c.pyghost['cancel_value'] = sval(c.hget(env['e'], 'signal_name')) if env['e'].pytype == 'Event' else \
                sval(c.hget(env['e'], 'PostedEvent.signal_name'))

    def inv(it, env):
        c, g = it.c, it.c.ghost
        P = c.read(env['self'], 'posted_events_queue')
        items, ln = B.seq_items(it, P), B.seq_len(it, P)
        A = c.fresh('P_items', IntArr)
        c.assumptions.append(A == items)
        P0, n = env['$P0']
        j = c.to_int(env['$k1'])
        k, src, pos = g['g_kept'], g['g_src'], g['g_pos']
        flag, flag0 = c.harr('flag'), env['$flag0']
        ev = lambda e: c.hget(e, 'PostedEvent.task_run_event')
        mt = lambda e: matches(it, env, e)
        cleared = z3.Exists([_m], z3.And(n - j <= _m, _m < n, mt(z3.Select(P0, _m)), ev(z3.Select(P0, _m)) == _x))
        out = [
            ('counts', z3.And(0 <= k, k <= j, j <= n, ln == k + (n - j))),
            ('kept-items', z3.ForAll([_i], z3.Implies(z3.And(0 <= _i, _i < k),
                                                      z3.Select(A, _i) == z3.Select(P0, z3.Select(src, _i))),
                                     patterns=[z3.Select(A, _i)])),
            ('kept-were-examined', z3.ForAll([_i], z3.Implies(z3.And(0 <= _i, _i < k),
                                                              z3.And(n - j <= z3.Select(src, _i), z3.Select(src, _i) < n)),
                                             patterns=[z3.Select(src, _i)])),
            ('kept-do-not-match', z3.ForAll([_i], z3.Implies(z3.And(0 <= _i, _i < k),
                                                             z3.Not(mt(z3.Select(P0, z3.Select(src, _i))))),
                                            patterns=[z3.Select(src, _i)])),
            ('kept-position-map', z3.ForAll([_i], z3.Implies(z3.And(0 <= _i, _i < k),
                                                             z3.Select(pos, z3.Select(src, _i)) == _i),
                                            patterns=[z3.Select(src, _i)])),
            ('kept-in-original-order', z3.ForAll([_i], z3.Implies(z3.And(0 <= _i, _i < k - 1),
                                                                  z3.Select(src, _i) < z3.Select(src, _i + 1)),
                                                 patterns=[z3.Select(src, _i)])),
            ('every-examined-non-matching-kept', z3.ForAll([_m], z3.Implies(
                z3.And(n - j <= _m, _m < n, z3.Not(mt(z3.Select(P0, _m)))),
                z3.And(0 <= z3.Select(pos, _m), z3.Select(pos, _m) < k, z3.Select(src, z3.Select(pos, _m)) == _m)),
                patterns=[z3.Select(pos, _m)])),
            ('unexamined-untouched', z3.ForAll([_i], z3.Implies(z3.And(k <= _i, _i < ln),
                                                                z3.Select(A, _i) == z3.Select(P0, _i - k)),
                                               patterns=[z3.Select(A, _i)])),
            ('matching-sources-stopped', z3.ForAll([_m], z3.Implies(
                z3.And(n - j <= _m, _m < n, mt(z3.Select(P0, _m))), z3.Not(z3.Select(flag, ev(z3.Select(P0, _m))))),
                patterns=[z3.Select(P0, _m)])),
            ('other-sources-keep-running', z3.ForAll([_x], z3.Implies(z3.Not(cleared),
                                                                      z3.Select(flag, _x) == z3.Select(flag0, _x)),
                                                     patterns=[z3.Select(flag, _x)])),
        ]
        if which == 'cancel_event':
            # ids are value-distinct (uuid4): nothing matched so far, otherwise the loop has been left
            out.append(('no-match-so-far', k == j))
        return out

    def mods(it, env):
        c = it.c
        P = c.read(env['self'], 'posted_events_queue')
        return [(P, '$items'), (P, '$len')]

    def body_end(it, env):
        """ghost bookkeeping of the index maps (what the iteration just did, read off the deque length)."""
        c, g = it.c, it.c.ghost
        P = c.read(env['self'], 'posted_events_queue')
        P0, n = env['$P0']
        j = c.to_int(env['$k1'])          # already incremented: this was iteration j-1, examining P0[n-j]
        k, src, pos = g['g_kept'], g['g_src'], g['g_pos']
        ln = B.seq_len(it, P)
        rotated = ln == k + 1 + (n - j)
        src2, pos2 = c.fresh('src', IntInt), c.fresh('pos', IntInt)
        c.assume(z3.Implies(rotated, z3.And(
            z3.Select(src2, 0) == n - j,
            z3.ForAll([_i], z3.Implies(z3.And(1 <= _i, _i <= k), z3.Select(src2, _i) == z3.Select(src, _i - 1)),
                      patterns=[z3.Select(src2, _i)]),
            z3.Select(pos2, n - j) == 0,
            z3.ForAll([_m], z3.Implies(_m != n - j, z3.Select(pos2, _m) == z3.Select(pos, _m) + 1),
                      patterns=[z3.Select(pos2, _m)]))))
        c.assume(z3.Implies(z3.Not(rotated), z3.And(src2 == src, pos2 == pos)))
        g['g_src'], g['g_pos'] = src2, pos2
        g['g_kept'] = z3.If(rotated, k + 1, k)

    def on_exit(it, env):
        it.c.pyghost['cancel_exit'] = (it.c.to_int(env['$k1']), env['$P0'])

    s = LoopSpec(inv, mods, None, which, locals_kind={'posted_event_task_meta_data': ('ref', 'nt:PostedEvent')})
    s.on_entry = on_entry
    s.on_exit = on_exit
    s.body_end = body_end
    s.ghost_modifies = ['g_src', 'g_pos', 'g_kept']
    s.heap_fields_modified = ['flag']
    return s
