"""Active fabric (C06, C08, C09, C13): registries, priority queues, delivery threads."""
import z3

from pyvc.sym import SInt, SBool, SRef, SFunc, Ref, StrV, NONE, IntArr, LoopSpec, Unsupported, Raised, sval
from pyvc.verify import FnContract
from pyvc import builtins as B

IntIntArr = z3.ArraySort(Ref, z3.IntSort())


# ---------------------------------------------------------------- subscriber queues (deque or LockingDeque)
def deliv_init(c):
    g = c.ghost
    if 'g_deliv' not in g:
        g['g_deliv'] = c.fresh('deliv0', IntIntArr)          # number of deliveries per subscriber queue
        g['g_front'] = c.fresh('front0', IntIntArr)          # how many of them went to the front
        g['g_last'] = c.fresh('last0', z3.ArraySort(Ref, Ref))  # last delivered event per queue


def subq_call(it, obj, meth, args):
    """q.append(ev) / q.appendleft(ev) on a subscribed queue: recorded, not interpreted (the queue's own
    behaviour is C16's business)."""
    c, g = it.c, it.c.ghost
    deliv_init(c)
    if meth not in ('append', 'appendleft'):
        raise Unsupported('subscriber queue method %s' % meth)
    q = obj.e
    g['g_deliv'] = z3.Store(g['g_deliv'], q, z3.Select(g['g_deliv'], q) + 1)
    if meth == 'appendleft':
        g['g_front'] = z3.Store(g['g_front'], q, z3.Select(g['g_front'], q) + 1)
    g['g_last'] = z3.Store(g['g_last'], q, c.to_ref(args[0]))
    return None


# ---------------------------------------------------------------- registries: dict name -> list of queues
_j = z3.Int('j!fab')
_l = z3.Int('l!fab')


def nodup(items, n):
    """Each queue occurs at most once (by identity) in a registry list."""
    return z3.ForAll([_j, _l], z3.Implies(z3.And(0 <= _j, _j < _l, _l < n), z3.Select(items, _j) != z3.Select(items, _l)))


def member(items, n, q):
    return z3.Exists([_j], z3.And(0 <= _j, _j < n, z3.Select(items, _j) == q))


def registry_of(it, subs, key, heap=None):
    """(has, list ref) of subs[key] in the given heap (default: current)."""
    c = it.c
    h = heap if heap is not None else c.heap
    has = z3.Select(z3.Select(h.get('$has', c.harr('$has')), subs), key)
    lst = z3.Select(z3.Select(h.get('$map', c.harr('$map')), subs), key)
    return has, lst


def list_view(it, lst, heap=None):
    c = it.c
    h = heap if heap is not None else c.heap
    items = z3.Select(h.get('$items', c.harr('$items')), lst)
    n = z3.Select(h.get('$len', c.harr('$len')), lst)
    return items, n


# ---------------------------------------------------------------- runner loops
def runner_specs(kind):
    path = 'activeobject.ActiveFabricSource.thread_runner_%s' % kind
    subs_name = '%s_subscriptions' % kind
    queue_name = '%s_queue' % kind
    item_name = '%s_item' % kind

    def inv_outer(it, env):
        return [('flag-is-the-shared-event', z3.BoolVal(True))]

    outer = LoopSpec(inv_outer, lambda it, env: [(env[queue_name], 'qsize')], None, 'runner-%s' % kind,
                     locals_kind={item_name: ('ref', 'FabricEvent'), 'event': ('ref', 'Event'), 'q': ('ref', 'subq')})
    outer.ghost_modifies = ['g_deliv', 'g_front', 'g_last', 'g_pq_taken']

    def on_entry(it, env):
        c = it.c
        deliv_init(c)
        env['$deliv0'] = (c.ghost['g_deliv'], c.ghost['g_front'], c.ghost['g_last'])

    def inv_inner(it, env):
        c, g = it.c, it.c.ghost
        k = c.to_int(env['$k2'])
        seq = env['$it2'][1]
        items, n = B.seq_items(it, seq), B.seq_len(it, seq)
        d0, f0, l0 = env['$deliv0']
        ev = c.hget(env[item_name], 'event')
        r = z3.Const('r!fab', Ref)
        inpre = z3.Exists([_j], z3.And(0 <= _j, _j < k, z3.Select(items, _j) == r))
        front = 1 if kind == 'lifo' else 0
        return [('registry-has-no-duplicates', nodup(items, n)),
                ('processed-got-exactly-one', z3.ForAll([_l], z3.Implies(
                    z3.And(0 <= _l, _l < k),
                    z3.And(z3.Select(g['g_deliv'], z3.Select(items, _l)) == z3.Select(d0, z3.Select(items, _l)) + 1,
                           z3.Select(g['g_last'], z3.Select(items, _l)) == ev)))),
                ('others-got-nothing', z3.ForAll([r], z3.Implies(
                    z3.Not(inpre), z3.And(z3.Select(g['g_deliv'], r) == z3.Select(d0, r),
                                          z3.Select(g['g_front'], r) == z3.Select(f0, r))))),
                ('placement-%s' % ('front' if kind == 'lifo' else 'back'), z3.ForAll([_l], z3.Implies(
                    z3.And(0 <= _l, _l < k),
                    z3.Select(g['g_front'], z3.Select(items, _l)) == z3.Select(f0, z3.Select(items, _l)) + front)),
                 ('C09',))]

    inner = LoopSpec(inv_inner, lambda it, env: [], None, 'deliver-%s' % kind)
    inner.on_entry = on_entry
    inner.ghost_modifies = ['g_deliv', 'g_front', 'g_last']
    return {(path, 1): outer, (path, 2): inner}


# ---------------------------------------------------------------- priority queues
def pq_put(it, obj, args, kwargs):
    """PriorityQueue.put: never blocks (unbounded); the item joins the multiset (ghost: a log of puts)."""
    c = it.c
    log = c.pyghost.setdefault(('pq_puts', obj.e.sexpr()), [])
    log.append(c.to_ref(args[0]))
    c.hset(obj, 'qsize', c.hget(obj, 'qsize') + 1)
    return None


def pq_get(it, obj, args, kwargs):
    """PriorityQueue.get: blocks until non-empty; returns SOME minimal element w.r.t. __lt__ (heap contract)."""
    c = it.c
    c.assume(c.hget(obj, 'qsize') > 0)
    c.hset(obj, 'qsize', c.hget(obj, 'qsize') - 1)
    r = c.fresh_ref('fabric_item', 'FabricEvent', distinct=False)
    c.assume(r.e != NONE)
    c.ghost['g_pq_taken'] = r.e
    return r


def pq_task_done(it, obj, args, kwargs):
    return None


# ---------------------------------------------------------------- threads of the fabric (ghost: live counts)
def thread_start_hook(it, th):
    c = it.c
    spec = getattr(c, 'thread_specs', {}).get(th.e.sexpr())
    if spec is None:
        return
    tgt, args, r = spec
    if isinstance(tgt, SFunc):
        nm = tgt.info.name
        key = 'g_live_' + nm
        if key in c.ghost:
            c.ghost[key] = c.ghost[key] + 1
            c.pyghost.setdefault('started', []).append((nm, th.e, args))


def thread_join_hook(it, th):
    """join(): the target's loop exits once its run flag is clear and it has been woken (proved for the runners);
    fair scheduling is assumed."""
    c = it.c
    cur = c.ghost.get('cur_thread')
    if cur is not None:
        if c.branch(th.e == cur, 'join-self'):
            raise Raised('RuntimeError')
    for nm in ('thread_runner_fifo', 'thread_runner_lifo'):
        key = 'g_live_' + nm
        if key in c.ghost:
            fi = it.src.find_method('ActiveFabricSource', nm)
            ref = it.w.funcref(SFunc(fi, [], None, 'ActiveFabricSource'))
            c.ghost[key] = z3.If(z3.And(c.hget(th, 'target') == ref, c.hget(th, 'alive')), c.ghost[key] - 1,
                                 c.ghost[key])
    c.hset(th, 'alive', z3.BoolVal(False))
    return None


def install(world):
    world.loopspecs.update(runner_specs('fifo'))
    world.loopspecs.update(runner_specs('lifo'))
    world.hooks['pq.put'] = pq_put
    world.hooks['pq.get'] = pq_get
    world.hooks['pq.task_done'] = pq_task_done
    world.hooks['thread.start'] = thread_start_hook
    world.hooks['thread.join'] = thread_join_hook
    world.hooks['subq'] = subq_call
    world.pytype_overrides[('ActiveFabricSource', 'fifo_subscriptions')] = 'dict<list<subq>>'
    world.pytype_overrides[('ActiveFabricSource', 'lifo_subscriptions')] = 'dict<list<subq>>'
    for k in ('fifo', 'lifo'):
        p = 'activeobject.ActiveFabricSource.thread_runner_%s' % k
        world.local_types[(p, '%s_subscriptions' % k)] = 'dict<list<subq>>'
        world.local_types[(p, '%s_queue' % k)] = 'PriorityQueue'
        world.local_types[(p, 'fabric_task_event')] = 'ThreadEvent'
    world.local_types[('activeobject.ActiveFabricSource.subscribe._subscribe', 'registry')] = 'list<subq>'
