"""Assumed contracts of code that is not miros: deque, list, dict, Queue, PriorityQueue, Thread,
threading.Event, RLock, str.format, time, uuid, datetime (DESIGN.md 5.4-5.6).  Each model is listed in the
evidence files under `trusted_base`; the container ones are validated natively by tools/validate_models.py.
"""
import ast
import z3

from .sym import (SInt, SBool, SRef, SFunc, SClass, SModule, SBuiltin, Unsupported, PathEnd, Raised, Ref, StrV, NONE,
                  sval, name_of, IntArr, box, unbox, is_sym)

TOP = z3.Const('TOP', Ref)
fn_closure = z3.Function('fn_closure', Ref, Ref)
fn_code = z3.Function('fn_code', Ref, Ref)
val_eq = z3.Function('val_eq', Ref, Ref, z3.BoolSort())     # == on containers (content equality)
sig_name = z3.Function('sig_name', z3.IntSort(), Ref)        # signals.name_for_signal
id_of = z3.Function('id_of', Ref, z3.IntSort())

BUILTIN_TYPES = {'pqheap', 'deque', 'list', 'dict', 'Queue', 'PriorityQueue', 'Thread', 'ThreadEvent', 'RLock', 'str',
                 'datetime', 'uuid', 'tuple', 'match', 'frame', 'code', 'idmap'}


def base_type(pt):
    if pt and '<' in pt:
        return pt.split('<', 1)[0]
    return pt


def elem_type(pt):
    if pt and '<' in pt:
        return pt.split('<', 1)[1][:-1]
    return None


# ------------------------------------------------------------------ sequences
def seq_len(it, obj):
    return it.c.hget(obj, '$len')


def seq_items(it, obj):
    return it.c.hget(obj, '$items')


def new_seq(it, pytype, items=(), maxlen=None, name='seq'):
    c = it.c
    r = c.fresh_ref(name, pytype)
    arr = z3.K(z3.IntSort(), NONE)
    for i, v in enumerate(items):
        arr = z3.Store(arr, i, c.to_ref(v))
    c.hset(r, '$items', arr)
    c.hset(r, '$len', z3.IntVal(len(items)))
    c.hset(r, '$maxlen', c.to_int(maxlen) if maxlen is not None else z3.IntVal(-1))
    return r


def new_list(it, items, elem=None):
    r = new_seq(it, 'list<%s>' % elem if elem else 'list', items, None, 'list')
    c = it.c
    if '$map' in c.heap:
        # a newly allocated list is not yet stored in any dict
        x = z3.Const('x!fr', Ref)
        k = z3.Const('k!fr', StrV)
        m = c.heap['$map']
        c.assume(z3.ForAll([x, k], z3.Select(z3.Select(m, x), k) != r.e,
                           patterns=[z3.Select(z3.Select(m, x), k)]))
    return r


def new_dict(it, pytype='dict'):
    c = it.c
    r = c.fresh_ref('dict', pytype)
    if '$map' in c.heap:
        # a newly allocated dict is not yet stored in any dict
        x = z3.Const('x!fr', Ref)
        k = z3.Const('k!fr', StrV)
        m = c.heap['$map']
        c.assume(z3.ForAll([x, k], z3.Select(z3.Select(m, x), k) != r.e,
                           patterns=[z3.Select(z3.Select(m, x), k)]))
    c.hset(r, '$has', z3.K(StrV, z3.BoolVal(False)))
    c.hset(r, '$len', z3.IntVal(0))
    return r


def shifted(c, old, lo, hi, delta, name):
    """Fresh array A with A[i] == old[i+delta] for lo <= i < hi (pattern on A[i])."""
    A = c.fresh(name, IntArr)
    i = z3.Int('i!sh')
    c.assume(z3.ForAll([i], z3.Implies(z3.And(lo <= i, i < hi), z3.Select(A, i) == z3.Select(old, i + delta)),
                       patterns=[z3.Select(A, i)]))
    return A


def seq_append(it, obj, v):
    """deque.append / list.append: non-forking (If-expressions); capacity-0 deques are assumed away."""
    c = it.c
    n, items, m = seq_len(it, obj), seq_items(it, obj), c.hget(obj, '$maxlen')
    rv = c.to_ref(v)
    room = z3.Or(m < 0, n < m)
    d = c.decide(room)
    if d is True or base_type(obj.pytype) == 'list':
        c.hset(obj, '$items', z3.Store(items, n, rv))
        c.hset(obj, '$len', n + 1)
        return
    c.assume(m != 0)
    A = shifted(c, items, 0, n - 1, 1, 'app')
    c.hset(obj, '$items', z3.If(room, z3.Store(items, n, rv), z3.Store(A, n - 1, rv)))
    c.hset(obj, '$len', z3.If(room, n + 1, n))


def seq_appendleft(it, obj, v):
    c = it.c
    n, items, m = seq_len(it, obj), seq_items(it, obj), c.hget(obj, '$maxlen')
    rv = c.to_ref(v)
    room = z3.Or(m < 0, n < m)
    c.assume(m != 0)
    A = shifted(c, items, 1, z3.If(room, n + 1, n), -1, 'apl')
    c.hset(obj, '$items', z3.Store(A, 0, rv))
    c.hset(obj, '$len', z3.If(room, n + 1, n))


def seq_popleft(it, obj):
    c = it.c
    n, items = seq_len(it, obj), seq_items(it, obj)
    if not c.branch(n > 0, 'popleft-nonempty'):
        raise Raised('IndexError')
    res = z3.Select(items, 0)
    A = shifted(c, items, 0, n - 1, 1, 'popl')
    c.hset(obj, '$items', A)
    c.hset(obj, '$len', n - 1)
    return SRef(res, elem_type(obj.pytype))


def seq_pop(it, obj):
    c = it.c
    n, items = seq_len(it, obj), seq_items(it, obj)
    if not c.branch(n > 0, 'pop-nonempty'):
        raise Raised('IndexError')
    res = z3.Select(items, n - 1)
    c.hset(obj, '$len', n - 1)
    return SRef(res, elem_type(obj.pytype))


def seq_rotate1(it, obj):
    c = it.c
    n, items = seq_len(it, obj), seq_items(it, obj)
    A = shifted(c, items, 1, n, -1, 'rot')
    c.hset(obj, '$items', z3.If(n > 1, z3.Store(A, 0, z3.Select(items, n - 1)), items))


def seq_rotate_m1(it, obj):
    """deque.rotate(-1): the first element moves to the back."""
    c = it.c
    n, items = seq_len(it, obj), seq_items(it, obj)
    A = shifted(c, items, 0, n - 1, 1, 'rotm')
    c.hset(obj, '$items', z3.If(n > 1, z3.Store(A, n - 1, z3.Select(items, 0)), items))


def seq_extend(it, obj, other):
    """deque.extend(other) without overflow handling beyond maxlen truncation from the left."""
    c = it.c
    n, items, m = seq_len(it, obj), seq_items(it, obj), c.hget(obj, '$maxlen')
    k, oit = seq_len(it, other), seq_items(it, other)
    A = c.fresh('ext', IntArr)
    i = z3.Int('i!ex')
    total = n + k
    drop = z3.If(z3.And(m >= 0, total > m), total - m, 0)
    c.assume(z3.ForAll([i], z3.Implies(z3.And(0 <= i, i < total - drop),
                                       z3.Select(A, i) == z3.If(i + drop < n, z3.Select(items, i + drop),
                                                                z3.Select(oit, i + drop - n))),
                       patterns=[z3.Select(A, i)]))
    c.hset(obj, '$items', A)
    c.hset(obj, '$len', total - drop)


def getitem(it, obj, idx):
    c = it.c
    if isinstance(obj, tuple):
        if isinstance(idx, int):
            if -len(obj) <= idx < len(obj):
                return obj[idx]
            raise Raised('IndexError')
        raise Unsupported('symbolic index into a python tuple')
    if isinstance(obj, SRef):
        bt = base_type(obj.pytype)
        if bt in ('list', 'deque'):
            n, items = seq_len(it, obj), seq_items(it, obj)
            if isinstance(idx, int) and idx < 0:
                i = n + idx
            else:
                i0 = c.to_int(idx)
                i = i0 if isinstance(idx, int) else z3.If(i0 < 0, n + i0, i0)
            if not c.branch(z3.And(0 <= i, i < n), 'index-in-range'):
                raise Raised('IndexError')
            return SRef(z3.Select(items, i), elem_type(obj.pytype))
        if bt == 'dict':
            _dict_access(it, obj, 'read')
            k = key_val(it, idx)
            if not c.branch(z3.Select(c.hget(obj, '$has'), k), 'dict-has'):
                raise Raised('KeyError')
            return SRef(z3.Select(c.hget(obj, '$map'), k), elem_type(obj.pytype))
        if bt == 'tuple':
            if isinstance(idx, int):
                return SRef(c.hget(obj, '$t%d' % idx), None)
        if bt == 'Attribute':
            raise Raised('TypeError')      # 'Attribute' object is not subscriptable
        if is_odict(it, obj):
            return od_getitem(it, obj, idx)
        if obj.pytype in it.src.classes:
            raise Raised('TypeError')
    if isinstance(obj, SModule) and obj.name in ('signals', 'return_status'):
        return module_attr(it, obj, idx)
    hook = it.w.hooks.get('getitem')
    if hook:
        return hook(it, obj, idx)
    raise Unsupported('subscript of %r' % (obj,))


def getslice(it, obj, lo, hi):
    c = it.c
    if isinstance(obj, str) and (lo is None or isinstance(lo, int)) and (hi is None or isinstance(hi, int)):
        return obj[lo:hi]
    if isinstance(obj, SRef) and obj.pytype == 'str':
        r = c.fresh_ref('substr', 'str', distinct=False)       # a piece of text: not interpreted
        c.assume(r.e != NONE)
        return r
    if isinstance(obj, SRef) and base_type(obj.pytype) == 'list' and lo in (None, 0) and hi is not None:
        # lst[0:k]: the first min(k, len) elements
        n, items = seq_len(it, obj), seq_items(it, obj)
        k = c.to_int(hi)
        r = c.fresh_ref('prefix', obj.pytype)
        c.hset(r, '$items', items)
        c.hset(r, '$len', z3.If(k < 0, 0, z3.If(k < n, k, n)))
        c.hset(r, '$maxlen', z3.IntVal(-1))
        return r
    if isinstance(obj, SRef) and base_type(obj.pytype) == 'list' and (lo is None or isinstance(lo, int)) and hi is None:
        # lst[k:] for a literal k >= 0: a new list without the first k elements
        k = lo or 0
        if k >= 0:
            n, items = seq_len(it, obj), seq_items(it, obj)
            r = c.fresh_ref('slice', obj.pytype)
            n2 = z3.If(n >= k, n - k, 0)
            A = shifted(c, items, 0, n2, k, 'slice')
            c.hset(r, '$items', A)
            c.hset(r, '$len', n2)
            c.hset(r, '$maxlen', z3.IntVal(-1))
            return r
    hook = it.w.hooks.get('getslice')
    if hook:
        return hook(it, obj, lo, hi)
    raise Unsupported('slice of %r' % (obj,))


def setitem(it, obj, idx, v):
    c = it.c
    if isinstance(obj, SRef):
        bt = base_type(obj.pytype)
        if bt in ('list', 'deque'):
            n, items = seq_len(it, obj), seq_items(it, obj)
            i0 = c.to_int(idx)
            i = i0 if (isinstance(idx, int) and idx >= 0) else z3.If(i0 < 0, n + i0, i0)
            if not c.branch(z3.And(0 <= i, i < n), 'store-index-in-range'):
                raise Raised('IndexError')
            c.hset(obj, '$items', z3.Store(items, i, c.to_ref(v)))
            return
        if bt == 'dict':
            _dict_access(it, obj, 'write')
            k = key_val(it, idx)
            c.hset(obj, '$has', z3.Store(c.hget(obj, '$has'), k, True))
            c.hset(obj, '$map', z3.Store(c.hget(obj, '$map'), k, c.to_ref(v)))
            return
        if is_odict(it, obj):
            return od_setitem(it, obj, idx, v)
    raise Unsupported('subscript store on %r' % (obj,))


def _dict_access(it, obj, how):
    hook = it.w.hooks.get('dict_access')
    if hook:
        hook(it, obj, how)


def key_val(it, k):
    c = it.c
    if isinstance(k, str):
        return c.strconst(k)
    if isinstance(k, SRef):
        return sval(k.e)
    if isinstance(k, (int, SInt)):
        return sval(box(c.to_int(k)))
    raise Unsupported('dict key %r' % (k,))


def contains(it, container, x):
    c = it.c
    if is_odict(it, container):
        return od_contains(it, container, x)
    if isinstance(container, SRef) and container.pytype == 'odict_values':
        keys, vals, idx, n = od_parts(it, container)
        if isinstance(x, (int, SInt)) and not isinstance(x, bool):
            j = z3.Int('j!ov')
            return SBool(z3.Exists([j], z3.And(0 <= j, j < n, z3.Select(vals, j) == c.to_int(x))))
        return False
    if isinstance(container, SRef) and base_type(container.pytype) == 'list' and elem_type(container.pytype) == 'int':
        n, items = seq_len(it, container), seq_items(it, container)
        j = z3.Int('j!li')
        if isinstance(x, (int, SInt)) and not isinstance(x, bool):
            return SBool(z3.Exists([j], z3.And(0 <= j, j < n, z3.Select(items, j) == box(c.to_int(x)))))
        return False
    if isinstance(container, SRef):
        bt = base_type(container.pytype)
        if bt == 'dict' or bt == 'dict_keys':
            return SBool(z3.Select(c.hget(container, '$has'), key_val(it, x)))
        if bt == 'idmap':
            # `id(q) in map(lambda x: id(x), registry)` : membership by identity
            n, items = seq_len(it, container), seq_items(it, container)
            j = z3.Int('j!in')
            target = x.e if isinstance(x, SInt) else c.to_int(x)
            return SBool(z3.Exists([j], z3.And(0 <= j, j < n, id_of(z3.Select(items, j)) == target)))
    if isinstance(container, str) and isinstance(x, str):
        return x in container
    hook = it.w.hooks.get('contains')
    if hook:
        return hook(it, container, x)
    raise Unsupported('membership test in %r' % (container,))


def str_concat(it, a, b):
    """a + b on strings, in the same canonical form as str_format (pieces flattened, constants merged)."""
    c = it.c
    r = c.fresh_ref('strcat', 'str', distinct=False)
    c.assume(r.e != NONE)

    def pieces(x):
        if isinstance(x, str):
            return [('c', x)]
        if isinstance(x, SRef) and ('parts', x.e.sexpr()) in c.pyghost:
            return list(c.pyghost[('parts', x.e.sexpr())])
        return [('v', sval(c.to_ref(x)))]
    parts = _merge_parts(pieces(a) + pieces(b))
    c.assume(sval(r.e) == text_of_parts(c, parts))
    c.pyghost[('parts', r.e.sexpr())] = parts
    return r


str_cat = z3.Function('str_cat', StrV, StrV, StrV)
_fmt_funcs = {}


def str_format(it, fmt, args):
    """<literal>.format(args): the text is the concatenation of the literal's pieces and the arguments' texts, kept
    in a canonical form (adjacent constant pieces merged, concatenation right-nested), so that two ways of writing
    the same text ("POST_FIFO:{}".format(n) and "{}:{}".format("POST_FIFO", n)) denote the same value.  Format
    specifications ({:>5} ...) make the piece an opaque function of the argument."""
    c = it.c
    it.w.dropped.add('characters of formatted text (texts are compared as canonical concatenations of pieces)')
    if not isinstance(fmt, str):
        raise Unsupported('format on a non-literal')
    import string
    parts = []
    k = 0
    if fmt.startswith('<') and fmt.endswith('>') and '{' not in fmt:
        parts = [('o', fmt, [_arg_term(it, a) for a in args])]        # an opaque builtin text (strftime ...)
    else:
        for lit, field, spec, conv in string.Formatter().parse(fmt):
            if lit:
                parts.append(('c', lit))
            if field is None:
                continue
            if field == '':
                idx = k
                k += 1
            elif field.isdigit():
                idx = int(field)
            else:
                raise Unsupported('format field {%s}' % field)
            if idx >= len(args):
                raise Raised('IndexError')
            a = args[idx]
            if spec or conv:
                parts.append(('o', 'spec:%s!%s' % (spec, conv), [_arg_term(it, a)]))
            elif isinstance(a, str):
                parts.append(('c', a))
            elif isinstance(a, bool):
                parts.append(('c', str(a)))
            elif isinstance(a, int):
                parts.append(('c', str(a)))
            elif isinstance(a, SRef) and ('parts', a.e.sexpr()) in c.pyghost:
                parts.extend(c.pyghost[('parts', a.e.sexpr())])
            else:
                parts.append(('v', _arg_term(it, a)))
    r = c.fresh_ref('fmt', 'str', distinct=False)
    c.assume(r.e != NONE)
    parts = _merge_parts(parts)
    c.assume(sval(r.e) == text_of_parts(c, parts))
    c.pyghost[('parts', r.e.sexpr())] = parts
    return r


def _arg_term(it, a):
    c = it.c
    if isinstance(a, (SInt, int)) and not isinstance(a, bool):
        return sval(box(c.to_int(a)))
    if a is None:
        return c.strconst('None')
    return sval(c.to_ref(a))


def _merge_parts(parts):
    out = []
    for p in parts:
        if p[0] == 'c' and out and out[-1][0] == 'c':
            out[-1] = ('c', out[-1][1] + p[1])
        elif p[0] == 'c' and p[1] == '':
            continue
        else:
            out.append(p)
    return out


_opaque_funcs = {}


def text_of_parts(c, parts):
    """The StrV term of a canonical list of pieces: ('c', text) | ('v', StrV term) | ('o', key, [StrV terms])."""
    parts = _merge_parts(list(parts))

    def term(p):
        if p[0] == 'c':
            return c.strconst(p[1])
        if p[0] == 'v':
            return p[1]
        f = _opaque_funcs.get((p[1], len(p[2])))
        if f is None:
            f = z3.Function('text_%d' % len(_opaque_funcs), *([StrV] * len(p[2]) + [StrV]))
            _opaque_funcs[(p[1], len(p[2]))] = f
        return f(*p[2]) if p[2] else c.strconst(p[1])
    if not parts:
        return c.strconst('')
    t = term(parts[-1])
    for p in reversed(parts[:-1]):
        t = str_cat(term(p), t)
    return t


def fmt_text(c, fmt, *vals):
    """Spec-side helper: the text of fmt.format(*vals) where each val is a python str (constant) or a StrV term."""
    import string
    parts = []
    k = 0
    for lit, field, spec, conv in string.Formatter().parse(fmt):
        if lit:
            parts.append(('c', lit))
        if field is None:
            continue
        v = vals[k]
        k += 1
        parts.append(('c', v) if isinstance(v, str) else ('v', v))
    return text_of_parts(c, parts)


# ------------------------------------------------------------------ for loops
def for_setup(it, st, env):
    itv = it.eval(st.iter)
    c = it.c
    if isinstance(itv, SRef) and base_type(itv.pytype) in ('list', 'deque'):
        return ('seq', itv, seq_len(it, itv) if base_type(itv.pytype) == 'deque' else None)
    if isinstance(itv, tuple) and itv and itv[0] == 'range_rev':
        return itv
    if isinstance(itv, SRef) and itv.pytype == 'odict_items':
        if getattr(it.w, 'guarded_registries', ()) and is_odict(it, SRef(itv.e, it.w.guarded_registries[0])):
            # a Python-level loop over a live view of the registry: an insertion by another thread in the middle of it
            # raises RuntimeError("OrderedDict mutated during iteration"); it needs the writers' lock (or a snapshot)
            locks = c.pyghost.get('locks_seen', [])
            held = z3.Or([c.hget(l, 'held') > 0 for l in locks]) if locks else z3.BoolVal(False)
            c.prove('%s:guarded/registry-iterated-under-the-writers-lock-or-over-a-snapshot' % it.where(), held,
                    tags=('lock',), assume_after=False)
        return ('oditems', itv)
    raise Unsupported('for over %r' % (itv,))


def for_havoc(it, st, env, ordinal, state):
    c = it.c
    k = env['$k%d' % ordinal]
    ke = c.to_int(k)
    if state[0] == 'seq':
        c.assume(z3.And(ke >= 0, ke <= seq_len(it, state[1])))
    elif state[0] == 'oditems':
        c.assume(z3.And(ke >= 0, ke <= c.hget(state[1], '$len')))
    else:
        c.assume(z3.And(ke >= 0, ke <= state[1]))


def for_next(it, st, env, ordinal, state):
    c = it.c
    kn = '$k%d' % ordinal
    ke = c.to_int(env[kn])
    if state[0] == 'seq':
        obj = state[1]
        n = seq_len(it, obj)
        if state[2] is not None:
            # a deque mutated during iteration raises RuntimeError
            if not c.branch(n == state[2], 'deque-unchanged'):
                raise Raised('RuntimeError')
        if not c.branch(ke < n, 'for%d' % ordinal):
            return False
        v = SRef(z3.Select(seq_items(it, obj), ke), elem_type(obj.pytype))
    elif state[0] == 'oditems':
        keys, vals, idx, n = od_parts(it, state[1])
        if not c.branch(ke < n, 'for%d' % ordinal):
            return False
        kobj = c.fresh_ref('key', 'str', distinct=False)
        c.assume(z3.And(kobj.e != NONE, sval(kobj.e) == z3.Select(keys, ke)))
        v = (kobj, SInt(z3.Select(vals, ke)))
    else:
        n = state[1]
        if not c.branch(ke < n, 'for%d' % ordinal):
            return False
        v = SInt(n - 1 - ke)
    it.assign(st.target, v)
    env[kn] = SInt(ke + 1)
    return True


def listcomp(it, e):
    """[x for x in seq] (copy) is the only comprehension on verified paths."""
    if len(e.generators) == 1 and not e.generators[0].ifs and isinstance(e.elt, ast.Name) \
            and isinstance(e.generators[0].target, ast.Name) and e.elt.id == e.generators[0].target.id:
        src = it.eval(e.generators[0].iter)
        return seq_copy(it, src, 'list')
    raise Unsupported('list comprehension')


def seq_copy(it, src, kind):
    c = it.c
    if not (isinstance(src, SRef) and base_type(src.pytype) in ('list', 'deque')):
        raise Unsupported('copy of %r' % (src,))
    et = elem_type(src.pytype)
    r = c.fresh_ref('copy', '%s<%s>' % (kind, et) if et else kind)
    c.hset(r, '$items', seq_items(it, src))
    c.hset(r, '$len', seq_len(it, src))
    c.hset(r, '$maxlen', c.hget(src, '$maxlen') if kind == 'deque' else z3.IntVal(-1))
    return r


# ------------------------------------------------------------------ modules
def module_attr(it, mod, attr):
    w = it.w
    c = it.c
    if mod.name == 'signals':
        if attr in w.signals:
            return w.signals[attr]
        if attr in ('name_for_signal', 'is_inner_signal', 'append', 'values', 'items', 'keys',
                    'highest_inner_signal'):
            return SBuiltin('signals.' + attr)
        return w.user_signal_number(it, attr)
    if mod.name == 'return_status':
        if attr in w.statuses:
            return w.statuses[attr]
        raise Raised('KeyError')
    if mod.name == 'time' and attr == 'sleep':
        return SBuiltin('time.sleep')
    if mod.name == 'uuid':
        if attr == 'NAMESPACE_DNS':
            return SRef(w.strobj('<NAMESPACE_DNS>'), None)
        return SBuiltin('uuid.' + attr)
    if mod.name == 'stdlib_datetime':
        return SBuiltin('datetime.' + attr)
    if mod.name in ('re', 'inspect', 'json', 'traceback', 'sys', 'itertools'):
        return SBuiltin(mod.name + '.' + attr)
    raise Unsupported('module attribute %s.%s' % (mod.name, attr))


def builtin_attr(it, obj, attr):
    c = it.c
    bt = base_type(obj.pytype)
    if bt == 'Thread' and attr in ('name', 'daemon'):
        return c.read(obj, attr)
    if bt == 'match':
        return SBuiltin('match.' + attr, obj)
    if bt == 'frame' and attr == 'f_back':
        return SRef(c.fresh('caller_frame', Ref), 'frame')
    if bt in ('Queue', 'PriorityQueue') and attr == 'mutex':
        return SRef(c.hget(obj, 'mutex'), 'Lock')
    if bt in ('Queue', 'PriorityQueue') and attr == 'queue':
        r = SRef(c.hget(obj, '$heap'), 'pqheap')
        r.owner = obj
        return r
    if bt == 'deque' and attr == 'maxlen':
        return SInt(c.hget(obj, '$maxlen'))
    if bt == 'Queue' and attr == 'unfinished_tasks':
        return SInt(c.hget(obj, 'unfinished'))
    return c.read(obj, attr)


# ------------------------------------------------------------------ constructors
def construct(it, cls, args, kwargs, node):
    c = it.c
    w = it.w
    name = cls.name
    if name.startswith('singleton:'):
        hook = w.hooks.get('singleton')
        if hook:
            return hook(it, name.split(':', 1)[1], args, kwargs)
        k = name.split(':', 1)[1]
        pt = {'SourceThreadEvent': 'ThreadEvent'}.get(k, k)
        return SRef(w.strobj('<the %s>' % k), pt)
    if name.startswith('namedtuple:'):
        nt = name.split(':', 1)[1]
        fields = it.src.namedtuples[nt][1]
        r = c.fresh_ref(nt, 'nt:' + nt)
        vals = dict(zip(fields, args))
        if len(args) > len(fields):
            raise Raised('TypeError')
        for k, v in kwargs.items():
            if k not in fields or k in vals:
                raise Raised('TypeError')
            vals[k] = v
        if set(vals) != set(fields):
            raise Raised('TypeError')
        for f in fields:
            c.write(r, f, vals[f])
        return r
    if name == 'namedtuple':
        try:
            tn = args[0]
            for bound, (typename, fields) in it.src.namedtuples.items():
                if typename == tn:
                    return SClass('namedtuple:' + bound)
        except Exception:
            pass
        raise Unsupported('namedtuple declaration not indexed')
    if name == 'deque':
        ml = kwargs.get('maxlen')
        return new_seq(it, 'deque', (), ml, 'deque')
    if name in ('Queue', 'PriorityQueue'):
        r = c.fresh_ref(name.lower(), name)
        ms = kwargs.get('maxsize', args[0] if args else 0)
        c.hset(r, 'qsize', z3.IntVal(0))
        c.hset(r, 'unfinished', z3.IntVal(0))
        c.hset(r, 'maxsize', c.to_int(ms))
        hook = w.hooks.get('new_' + name)
        if hook:
            hook(it, r)
        return r
    if name == 'ThreadEvent' or name == 'SourceThreadEvent':
        r = c.fresh_ref('tev', 'ThreadEvent')
        c.hset(r, 'flag', z3.BoolVal(False))
        return r
    if name in ('RLock', 'Lock'):
        r = c.fresh_ref('rlock', 'RLock')
        c.hset(r, 'held', z3.IntVal(0))
        c.hset(r, 'epoch', z3.IntVal(0))
        return r
    if name == 'Thread':
        r = c.fresh_ref('thread', 'Thread')
        tgt = kwargs.get('target')
        c.hset(r, 'target', c.to_ref(tgt))
        c.hset(r, 'alive', z3.BoolVal(False))
        c.hset(r, 'started', z3.BoolVal(False))
        a = kwargs.get('args', ())
        if not isinstance(a, tuple):
            raise Unsupported('Thread args')
        for i, v in enumerate(a):
            c.hset(r, '$arg%d' % i, c.to_ref(v))
        c.thread_specs = getattr(c, 'thread_specs', {})
        c.thread_specs[r.e.sexpr()] = (tgt, a, r)
        if 'daemon' in kwargs:
            c.write(r, 'daemon', kwargs['daemon'])
        return r
    if name == 'Attribute':
        return c.fresh_ref('attr', 'Attribute')
    if name in ('HsmTopologyException', 'ActiveObjectOutOfPostedEventResources', 'RuntimeError', 'LookupError',
                'Exception', 'AssertionError', 'ValueError'):
        return SRef(c.fresh('exc', Ref), 'exc:' + name)
    if name in it.src.classes:
        con = w.contracts.get('%s.%s.__init__' % (it.src.classes[name].module, name))
        r = c.fresh_ref(name.lower(), name)
        fi = it.src.find_method(name, '__init__')
        if con is not None and not getattr(con, 'verifying', False):
            con.apply(it, None, [r] + list(args), kwargs)
            return r
        if fi is not None:
            it.call_func(it.w_method(fi).bind(r), args, kwargs)
        return r
    raise Unsupported('constructor %s' % name)


# ------------------------------------------------------------------ builtin calls
def call_builtin(it, b, args, kwargs, node):
    c = it.c
    w = it.w
    n = b.name
    obj = b.obj
    if n in ('print', 'pp', 'pprint', 'noop'):
        w.dropped.add('calls to print/pp/pprint (no effect on the modelled state)')
        return None
    if n == 'len':
        v = args[0]
        if isinstance(v, (tuple, str)):
            return len(v)
        if isinstance(v, SRef):
            if v.pytype == 'str':
                hook = w.hooks.get('str.len')
                if hook:
                    return hook(it, v)
            if base_type(v.pytype) in ('list', 'deque', 'tuple'):
                return SInt(seq_len(it, v))
            if v.pytype in it.src.classes:
                fi = it.src.find_method(v.pytype, '__len__')
                if fi:
                    return it.call_func(it.w_method(fi).bind(v), [], {})
            if base_type(v.pytype) == 'dict':
                return SInt(c.hget(v, '$len'))
            if is_odict(it, v):
                if v.pytype in getattr(it.w, 'guarded_registries', ()) and not it.where().endswith('__init__'):
                    # the size of a registry that other threads extend is only meaningful inside the writers' critical
                    # section (a number computed from it outside is stale by the time it is used)
                    locks = c.pyghost.get('locks_seen', [])
                    held = z3.Or([c.hget(l, 'held') > 0 for l in locks]) if locks else z3.BoolVal(False)
                    c.prove('%s:guarded/registry-length-read-under-the-writers-lock' % it.where(), held,
                            tags=('lock',), assume_after=False)
                return SInt(c.hget(v, '$len'))
        raise Unsupported('len of %r' % (v,))
    if n in ('max', 'min'):
        if len(args) == 2 and all(isinstance(a, (int, SInt)) and not isinstance(a, bool) for a in args):
            if all(isinstance(a, int) for a in args):
                return max(args) if n == 'max' else min(args)
            a, b = c.to_int(args[0]), c.to_int(args[1])
            return SInt(z3.If(a >= b, a, b) if n == 'max' else z3.If(a <= b, a, b))
        raise Unsupported('%s of %r' % (n, args))
    if n == 'id':
        return SInt(id_of(c.to_ref(args[0])))
    if n == 'next':
        v = args[0]
        if isinstance(v, SRef) and v.pytype == 'counter':
            # itertools.count: every next() returns a number larger than all it returned before
            key = 'g_counter_' + v.e.sexpr()
            last = c.ghost.get(key)
            r = c.fresh('count', z3.IntSort())
            if last is not None:
                c.assume(r > last)
            c.ghost[key] = r
            return SInt(r)
        raise Unsupported('next() of %r' % (v,))
    if n == 'callable':
        v = args[0]
        if isinstance(v, (SFunc, SClass)):
            return True
        if isinstance(v, str):
            return False
        if isinstance(v, SRef):
            return v.pytype in ('state', 'fn')
        return False
    if n == 'str':
        v = args[0]
        if isinstance(v, str):
            return v
        if isinstance(v, SRef) and v.pytype == 'str':
            return v
        if isinstance(v, SRef) and v.pytype == 'uuid':
            return SRef(v.e, 'str')
        r = c.fresh_ref('str', 'str', distinct=False)
        c.assume(sval(r.e) == str_of(c.to_ref(v)))
        return r
    if n == 'getattr' and len(args) == 3 and isinstance(args[0], SRef) and args[0].pytype in it.src.classes \
            and isinstance(args[1], str):
        # getattr(obj, 'name', default): the attribute if the object has it, else the default
        o, a, dflt = args
        has = call_builtin(it, SBuiltin('hasattr'), [o, a], {}, None)
        if has is True:
            return it.get_attr(o, a)
        if has is False:
            return dflt
        if c.branch(c.to_bool(has), 'getattr-has-' + a):
            return it.get_attr(o, a)
        return dflt
    if n == 'getattr' and len(args) == 2 and isinstance(args[0], SRef) and args[0].pytype in it.src.classes:
        # getattr(obj, name): the normal lookup wins whenever `name` is a real attribute of the object (instance
        # attribute, method, class attribute, inherited dict API); only otherwise __getattr__(name) is consulted
        o, a = args
        if isinstance(a, str):
            return it.get_attr(o, a)
        if isinstance(a, SRef) and a.pytype in ('str', None):
            names = set(it.src.init_attrs(o.pytype))
            for cn in it.src.mro(o.pytype):
                ci = it.src.classes.get(cn)
                if ci:
                    names |= set(ci.methods) | set(ci.attrs)
                    if any(b not in it.src.classes for b in ci.bases):
                        names |= set(dir(__import__('collections').OrderedDict))
            cond = z3.Or([sval(a.e) == c.strconst(k) for k in sorted(names)])
            if c.branch(cond, 'getattr-name-is-a-real-attribute'):
                return c.fresh_ref('some_attribute_value', None, distinct=False)
            ga = it.src.find_method(o.pytype, '__getattr__')
            if ga is None:
                raise Raised('AttributeError')
            return it.call_func(it.w_method(ga).bind(o), [SRef(a.e, 'str')], {})
    if n == 'hasattr':
        o, a = args
        if isinstance(o, SRef) and o.pytype in it.src.classes and isinstance(a, str):
            if a in it.src.init_attrs(o.pytype) or it.src.find_method(o.pytype, a) is not None:
                return True
            if (o.e.sexpr(), a) in getattr(c, 'world_set_attrs', ()):
                return True
            hook = w.hooks.get('hasattr')
            if hook:
                return hook(it, o, a)
            return False
        raise Unsupported('hasattr on %r' % (o,))
    if n == 'isinstance':
        o, k = args
        return type_is(it, o, k, sub=True)
    if n == 'type':
        return ('typeof', args[0])
    if n == 'map':
        # map(lambda x: id(x), registry): the image sequence (identities of the elements)
        if node is not None and isinstance(node.args[0], ast.Lambda):
            lam = node.args[0]
            if isinstance(lam.body, ast.Call) and isinstance(lam.body.func, ast.Name) and lam.body.func.id == 'id':
                seq = args[1]
                return SRef(seq.e, 'idmap')
        raise Unsupported('map')
    if n == 'list':
        a0 = args[0]
        if isinstance(a0, SRef) and a0.pytype == 'idmap':
            # list(map(id, registry)): the identities, position by position (a snapshot: callers here only read it
            # before they change the registry)
            snap = new_seq(it, 'list', (), None, 'idlist')
            c.hset(snap, '$items', seq_items(it, a0))
            c.hset(snap, '$len', seq_len(it, a0))
            return SRef(snap.e, 'idmap')
        if isinstance(a0, SRef) and a0.pytype in ('odict_values', 'odict_keys'):
            return od_view_list(it, a0, 'values' if a0.pytype == 'odict_values' else 'keys')
        return seq_copy(it, a0, 'list')
    if n.startswith('odict.'):
        return SRef(obj.e, 'odict_' + n.split('.', 1)[1])
    if n == 'reversed':
        v = args[0]
        if isinstance(v, tuple) and v[0] == 'range':
            return ('range_rev', v[1])
        raise Unsupported('reversed')
    if n == 'range':
        if len(args) == 1:
            return ('range', c.to_int(args[0]))
        if len(args) == 3 and args[2] == -1 and args[1] == -1:
            # range(a, -1, -1): a, a-1, ..., 0  ==  reversed(range(a + 1))
            return ('range_rev', c.to_int(args[0]) + 1)
        raise Unsupported('range with several arguments')
    if n == 'bool':
        return SBool(c.to_bool(args[0])) if args else False
    if n == 'any' and node is not None and len(node.args) == 1 and isinstance(node.args[0], ast.GeneratorExp):
        # any(<x is y> for x in seq): identity membership
        g = node.args[0]
        if len(g.generators) == 1 and not g.generators[0].ifs and isinstance(g.generators[0].target, ast.Name) \
                and isinstance(g.elt, ast.Compare) and len(g.elt.ops) == 1 and isinstance(g.elt.ops[0], ast.Is):
            var = g.generators[0].target.id
            l, r = g.elt.left, g.elt.comparators[0]
            other = r if isinstance(l, ast.Name) and l.id == var else (l if isinstance(r, ast.Name) and r.id == var else None)
            if other is not None:
                seq = it.eval(g.generators[0].iter)
                x = c.to_ref(it.eval(other))
                if isinstance(seq, SRef) and base_type(seq.pytype) in ('list', 'deque'):
                    n_, items = seq_len(it, seq), seq_items(it, seq)
                    j = z3.Int('j!any')
                    return SBool(z3.Exists([j], z3.And(0 <= j, j < n_, z3.Select(items, j) == x)))
        raise Unsupported('any(...) of this shape')
    if n == 'copy':
        return args[0]          # copy.copy of a function object: the same behaviour (identity matters nowhere here)
    if n == 'setattr':
        o, a, v = args
        if isinstance(a, str):
            it.set_attr(o, a, v)
            return None
        raise Unsupported('setattr with symbolic name')
    if n.startswith('signals.'):
        return signals_call(it, n.split('.', 1)[1], args, kwargs)
    if n == 'time.sleep':
        hook = w.hooks.get('sleep')
        if hook:
            return hook(it, args[0])
        return None
    if n == 'uuid.uuid4':
        r = c.fresh_ref('uuid4', 'uuid')
        for o in getattr(c, 'uuids', []):
            c.assume(sval(o) != sval(r.e))       # uuid4 uniqueness (assumed)
        c.uuids = getattr(c, 'uuids', []) + [r.e]
        hook = w.hooks.get('uuid4_is_new')
        if hook:
            hook(it, r)          # ... nor does it repeat a value the caller already holds (assumed; stated by the target)
        return r
    if n == 'uuid.uuid5':
        nm = args[1]
        if not (isinstance(nm, str) or (isinstance(nm, SRef) and nm.pytype == 'str')):
            raise Raised('TypeError')
        r = c.fresh_ref('uuid5', 'uuid', distinct=False)
        return r
    if n == 'datetime.now':
        r = c.fresh_ref('now', 'datetime', distinct=False)
        c.assume(r.e != NONE)
        hook = w.hooks.get('now')
        if hook:
            hook(it, r)
        return r
    if n == 'datetime.strftime':
        return str_format(it, '<strftime>', [args[0]])
    if n == 'inspect.currentframe':
        return SRef(c.fresh('frame', Ref), 'frame')
    if n == 'inspect.getframeinfo':
        # (filename, lineno, function, code_context, index): code_context holds the source line of the statement
        # being executed in that frame -- the ghost `statement line` of the target
        line = c.pyghost.get('stmt_line')
        if line is None:
            raise Unsupported('getframeinfo without a statement-line model')
        lines = new_list(it, [line], 'str')
        return (SRef(c.fresh('filename', Ref), 'str'), SInt(c.fresh('lineno', z3.IntSort())),
                SRef(c.fresh('function', Ref), 'str'), lines, 0)
    if n == 'inspect.ismethod':
        v = args[0]
        if isinstance(v, SFunc):
            return v.bound is not None
        hook = w.hooks.get('ismethod')
        if hook:
            return hook(it, v)
        return False
    if n == 'json.dumps':
        # assumed contract of json (validated natively in the thorough tier): loads(dumps(v)) is a value equal to v
        # for JSON-representable v with string keys.  The text is an opaque str that remembers what it encodes.
        v = args[0]
        if not (isinstance(v, SRef) and base_type(v.pytype) == 'dict'):
            raise Unsupported('json.dumps of %r' % (v,))
        t = c.fresh_ref('json_text', 'str')
        c.hset(t, '$json_has', c.hget(v, '$has'))
        c.hset(t, '$json_map', c.hget(v, '$map'))
        return t
    if n == 'json.loads':
        t = args[0]
        d = new_dict(it)
        k = z3.Const('k!js', StrV)
        has0, map0 = c.hget(t, '$json_has'), c.hget(t, '$json_map')
        m1 = c.fresh('loaded_map', z3.ArraySort(StrV, Ref))
        c.assume(z3.ForAll([k], z3.Select(m1, k) == jcopy(z3.Select(map0, k)), patterns=[z3.Select(m1, k)]))
        c.hset(d, '$has', has0)
        c.hset(d, '$map', m1)
        x = z3.Const('x!js', Ref)
        c.assume(z3.ForAll([x], z3.And((jcopy(x) == NONE) == (x == NONE), sval(jcopy(x)) == sval(x),
                                       is_str(jcopy(x)) == is_str(x)), patterns=[jcopy(x)]))
        return d
    if n == 're.match':
        hook = w.hooks.get('re.match')
        if hook:
            return hook(it, args)
        raise Unsupported('re.match without a model')
    if n == 're.search':
        r = SRef(c.fresh('m', Ref), 'match')
        hook = w.hooks.get('re.search')
        if hook:
            return hook(it, args, r)
        return r
    if n.startswith('str.'):
        return str_call(it, n.split('.', 1)[1], obj, args, kwargs)
    if n.startswith('match.'):
        hook = w.hooks.get('match.' + n.split('.', 1)[1])
        if hook:
            return hook(it, obj, args)
        raise Unsupported(n)
    if n.startswith('subq.'):
        hook = w.hooks.get('subq')
        if hook is None:
            raise Unsupported('subscriber queue call without a model')
        return hook(it, obj, n.split('.', 1)[1], args)
    bt = base_type(n.split('.', 1)[0]) if '.' in n else None
    meth = n.split('.', 1)[1] if '.' in n else None
    if bt in ('deque', 'list', 'idmap'):
        return seq_call(it, obj, meth, args, kwargs)
    if bt == 'dict':
        if meth == 'setdefault':
            k = key_val(it, args[0])
            if c.branch(z3.Select(c.hget(obj, '$has'), k), 'setdefault-has-key'):
                return SRef(z3.Select(c.hget(obj, '$map'), k), elem_type(obj.pytype))
            dflt = args[1] if len(args) > 1 else None
            c.hset(obj, '$has', z3.Store(c.hget(obj, '$has'), k, True))
            c.hset(obj, '$map', z3.Store(c.hget(obj, '$map'), k, c.to_ref(dflt)))
            return dflt
        if meth == 'keys':
            return SRef(obj.e, 'dict_keys')
        if meth == 'get':
            _dict_access(it, obj, 'read')
            k = key_val(it, args[0])
            if c.branch(z3.Select(c.hget(obj, '$has'), k), 'dict-get-has'):
                return SRef(z3.Select(c.hget(obj, '$map'), k), elem_type(obj.pytype))
            return args[1] if len(args) > 1 else None
        if meth == 'clear':
            c.hset(obj, '$has', z3.K(StrV, z3.BoolVal(False)))
            c.hset(obj, '$len', z3.IntVal(0))
            return None
        raise Unsupported('dict.%s' % meth)
    if bt == 'pqheap':
        if meth == 'clear' and getattr(obj, 'owner', None) is not None:
            # the underlying container of a queue.Queue emptied in place
            c.hset(obj.owner, 'qsize', z3.IntVal(0))
            return None
        raise Unsupported('queue container .%s' % meth)
    if bt == 'Queue':
        return queue_call(it, obj, meth, args, kwargs)
    if bt == 'PriorityQueue':
        hook = w.hooks.get('pq.' + meth)
        if hook:
            return hook(it, obj, args, kwargs)
        return queue_call(it, obj, meth, args, kwargs)
    if bt == 'ThreadEvent':
        if meth == 'set':
            c.hset(obj, 'flag', z3.BoolVal(True))
            return None
        if meth == 'clear':
            c.hset(obj, 'flag', z3.BoolVal(False))
            return None
        if meth == 'is_set':
            return SBool(c.hget(obj, 'flag'))
        raise Unsupported('ThreadEvent.%s' % meth)
    if bt == 'Thread':
        return thread_call(it, obj, meth, args, kwargs)
    if bt in ('RLock', 'Lock'):
        return lock_call(it, obj, meth)
    raise Unsupported('builtin %s' % n)


str_of = z3.Function('str_of', Ref, StrV)
is_str = z3.Function('is_str', Ref, z3.BoolSort())      # dynamic type test for references of unknown static type
jcopy = z3.Function('json_equal_copy', Ref, Ref)     # "a value equal to x", as json.loads(json.dumps(x)) yields


def type_is(it, o, k, sub=False):
    c = it.c
    kn = k.name if isinstance(k, SClass) else (k.name if isinstance(k, SBuiltin) else None)
    if kn is None:
        raise Unsupported('type test against %r' % (k,))
    if isinstance(o, bool):
        return kn in ('bool',) or (sub and kn == 'int')
    if isinstance(o, int) or isinstance(o, SInt):
        return kn == 'int'
    if isinstance(o, SBool):
        return kn == 'bool' or (sub and kn == 'int')
    if isinstance(o, str):
        return kn == 'str'
    if o is None:
        return False
    if isinstance(o, SRef):
        pt = base_type(o.pytype)
        if pt is None or pt == 'Event|int':
            hook = it.w.hooks.get('typeis')
            if hook:
                return hook(it, o, kn)
            raise Unsupported('type test on an untyped reference')
        if pt in it.src.classes:
            return kn == pt or (sub and kn in it.src.mro(pt))
        if pt in ABSTRACT_TYPES:
            # an abstract static type (e.g. a subscriber's queue: a deque or an active object's LockingDeque): the test
            # has no static answer; it is a property of the object
            if kn not in ABSTRACT_TYPES[pt]:
                return False
            others = [x for x in ABSTRACT_TYPES[pt] if x != kn]
            c.assume(z3.Sum([z3.If(isa(o.e, c.strconst(x)), 1, 0) for x in ABSTRACT_TYPES[pt]]) == 1)
            return SBool(isa(o.e, c.strconst(kn)))
        return kn == pt
    return False


ABSTRACT_TYPES = {'subq': ('deque', 'LockingDeque')}
isa = z3.Function('is_instance_of', Ref, StrV, z3.BoolSort())


def signals_call(it, meth, args, kwargs):
    c = it.c
    if meth == 'name_for_signal':
        hook = it.w.hooks.get('name_for_signal')
        if hook:
            return hook(it, args[0])
        return SRef(sig_name(c.to_int(args[0])), 'str')
    if meth == 'is_inner_signal':
        v = args[0]
        hi = len(it.w.signals)
        if isinstance(v, (int, SInt)):
            e = c.to_int(v)
            return SBool(z3.And(e >= 1, e <= hi))
        if isinstance(v, str):
            return v in it.w.signals
        if isinstance(v, SRef):
            return SBool(z3.Or([sval(v.e) == c.strconst(k) for k in it.w.signals]))
    raise Unsupported('signals.%s' % meth)


def str_call(it, meth, obj, args, kwargs):
    if meth == 'format':
        return str_format(it, obj, args)
    if meth == 'replace':
        r = it.c.fresh_ref('repl', 'str', distinct=False)
        return r
    hook = it.w.hooks.get('str.' + meth)
    if hook:
        return hook(it, obj, args, kwargs)
    if meth in ('endswith', 'startswith') and len(args) == 1 and isinstance(args[0], str):
        if isinstance(obj, str):
            return getattr(obj, meth)(args[0])
        # an uninterpreted predicate of the text, with its value on the texts that are known literally (the
        # built-in signal names among them)
        c = it.c
        pred = _str_preds.setdefault(meth, z3.Function('str_' + meth, StrV, StrV, z3.BoolSort()))
        lit = c.strconst(args[0])
        for k in list(it.w.signals) + list(getattr(it.w, '_strs', {})):
            if isinstance(k, str):
                c.assume(pred(c.strconst(k), lit) == z3.BoolVal(getattr(k, meth)(args[0])))
        return SBool(pred(sval(c.to_ref(obj)), lit))
    raise Unsupported('str.%s' % meth)


_str_preds = {}


def seq_call(it, obj, meth, args, kwargs):
    c = it.c
    if meth == 'append':
        seq_append(it, obj, args[0])
        return None
    if meth == 'appendleft':
        seq_appendleft(it, obj, args[0])
        return None
    if meth == 'popleft':
        return seq_popleft(it, obj)
    if meth == 'pop':
        if args:
            # pop(i): the element at position i leaves, the ones behind it move up
            n, items = seq_len(it, obj), seq_items(it, obj)
            i0 = c.to_int(args[0])
            i = z3.If(i0 < 0, n + i0, i0)
            if not c.branch(z3.And(0 <= i, i < n), 'pop-index-in-range'):
                raise Raised('IndexError')
            out = SRef(z3.Select(items, i), elem_type(obj.pytype))
            A = c.fresh('after_pop', IntArr)
            j = z3.Int('j!pop')
            c.assume(z3.ForAll([j], z3.Implies(z3.And(0 <= j, j < n - 1),
                                               z3.Select(A, j) == z3.If(j < i, z3.Select(items, j), z3.Select(items, j + 1))),
                               patterns=[z3.Select(A, j)]))
            c.hset(obj, '$items', A)
            c.hset(obj, '$len', n - 1)
            return out
        return seq_pop(it, obj)
    if meth == 'clear':
        c.hset(obj, '$len', z3.IntVal(0))
        return None
    if meth == 'rotate':
        if args and args[0] == 1:
            seq_rotate1(it, obj)
            return None
        if args and args[0] == -1:
            seq_rotate_m1(it, obj)
            return None
        raise Unsupported('rotate(n) for n != 1')
    if meth == 'extend':
        seq_extend(it, obj, args[0])
        return None
    if meth == 'copy':
        return seq_copy(it, obj, base_type(obj.pytype))
    if meth == 'index' and obj.pytype == 'idmap':
        # list(map(id, registry)).index(id(q)): first position holding that very object
        n, items = seq_len(it, obj), seq_items(it, obj)
        target = c.to_int(args[0])
        i = c.fresh('idx', z3.IntSort())
        j = z3.Int('j!ix')
        found = z3.Exists([j], z3.And(0 <= j, j < n, id_of(z3.Select(items, j)) == target))
        if not c.branch(found, 'index-found'):
            raise Raised('ValueError')
        c.assume(z3.And(0 <= i, i < n, id_of(z3.Select(items, i)) == target))
        c.assume(z3.ForAll([j], z3.Implies(z3.And(0 <= j, j < i), id_of(z3.Select(items, j)) != target)))
        return SInt(i)
    if meth == 'index':
        # first position whose element == the argument (value equality)
        n, items = seq_len(it, obj), seq_items(it, obj)
        x = c.to_ref(args[0])
        i = c.fresh('idx', z3.IntSort())
        j = z3.Int('j!ix')
        found = z3.Exists([j], z3.And(0 <= j, j < n, elem_eq(it, obj, z3.Select(items, j), x)))
        if not c.branch(found, 'index-found'):
            raise Raised('ValueError')
        c.assume(z3.And(0 <= i, i < n, elem_eq(it, obj, z3.Select(items, i), x)))
        c.assume(z3.ForAll([j], z3.Implies(z3.And(0 <= j, j < i), z3.Not(elem_eq(it, obj, z3.Select(items, j), x)))))
        return SInt(i)
    raise Unsupported('%s.%s' % (obj.pytype, meth))


def elem_eq(it, seq, a, b):
    et = elem_type(seq.pytype)
    if et == 'int':
        return a == b           # both boxed ints
    if et in ('LockingDeque', 'state', 'fn', 'Thread'):
        return a == b
    if et == 'str':
        return sval(a) == sval(b)
    return val_eq(a, b)


def queue_call(it, obj, meth, args, kwargs):
    c = it.c
    qs, un, ms = c.hget(obj, 'qsize'), c.hget(obj, 'unfinished'), c.hget(obj, 'maxsize')
    if meth == 'put':
        # a put on a full bounded Queue blocks: wherever the property says "never blocks" that is a failure
        hook = it.w.hooks.get('queue.put')
        if hook:
            hook(it, obj, args)
        block = kwargs.get('block', args[1] if len(args) > 1 else True)
        if block is False:
            # put(..., block=False) never waits: a full bounded queue raises queue.Full instead
            if not c.branch(z3.Or(ms <= 0, qs < ms), 'put-has-room'):
                raise Raised('Full')
        else:
            c.prove('%s:no-block/put@%s' % (it.where(), it.callsite or 'site'), z3.Or(ms <= 0, qs < ms))
            if any(o in it.where() for o in getattr(it.w, 'shared_put_owners', ())):
                # a queue that other threads fill as well: what full()/qsize() said a statement ago does not hold
                # any more when the put runs, so a put that may wait cannot rest on such a test (rely: qsize is
                # unstable under interference); only an unbounded queue never makes a blocking put wait
                c.prove('%s:no-block/waiting-put-on-a-queue-other-threads-fill@%s' % (it.where(), it.callsite or 'site'),
                        ms <= 0)
        c.hset(obj, 'qsize', qs + 1)
        c.hset(obj, 'unfinished', un + 1)
        return None
    if meth == 'full':
        return SBool(z3.And(ms > 0, qs >= ms))
    if meth == 'qsize':
        return SInt(qs)
    if meth == 'empty':
        return SBool(qs <= 0)
    if meth == 'get':
        c.assume(qs > 0)            # blocking get: returns once an item is available
        c.hset(obj, 'qsize', qs - 1)
        return SRef(c.fresh('item', Ref), elem_type(obj.pytype))
    if meth == 'get_nowait':
        if not c.branch(qs > 0, 'get_nowait-nonempty'):
            raise Raised('Empty')
        c.hset(obj, 'qsize', qs - 1)
        return SRef(c.fresh('item', Ref), None)
    if meth == 'task_done':
        if not c.branch(un > 0, 'task_done-unfinished'):
            raise Raised('ValueError')
        c.hset(obj, 'unfinished', un - 1)
        return None
    raise Unsupported('Queue.%s' % meth)


def lock_call(it, obj, meth):
    """Ghost ownership model of a (re-entrant) lock: held = hold count of the CURRENT thread; epoch counts its
    critical sections.  Blocking while another thread holds it is scheduling, not state."""
    c = it.c
    held, ep = c.hget(obj, 'held'), c.hget(obj, 'epoch')
    mon = c.pyghost.get(('monitor', obj.e.sexpr()))     # (on_enter, invariant) of the monitor this lock protects
    if meth in ('acquire', '__enter__'):
        c.pyghost.setdefault('locks_seen', [])
        if not any(obj.e.eq(l.e) for l in c.pyghost['locks_seen']):
            c.pyghost['locks_seen'].append(obj)
        if mon is not None:
            # entering from outside: the protected state is whatever the last owner left, i.e. the monitor invariant
            mon[0](it, held == 0)
        c.hset(obj, 'epoch', z3.If(held == 0, ep + 1, ep))
        c.hset(obj, 'held', held + 1)
        return True
    if meth in ('release', '__exit__'):
        if not c.branch(held > 0, 'lock-held-by-me'):
            raise Raised('RuntimeError')          # cannot release un-acquired lock
        if mon is not None:
            c.prove('%s:monitor/invariant-restored-when-the-lock-is-given-up' % it.where(),
                    z3.Implies(held == 1, mon[1](it)), tags=('lock',), assume_after=False)
        c.hset(obj, 'held', held - 1)
        return None
    raise Unsupported('lock.%s' % meth)


def thread_call(it, obj, meth, args, kwargs):
    c = it.c
    if meth == 'is_alive':
        return SBool(c.hget(obj, 'alive'))
    if meth == 'start':
        if not c.branch(z3.Not(c.hget(obj, 'started')), 'thread-not-started'):
            raise Raised('RuntimeError')
        c.hset(obj, 'started', z3.BoolVal(True))
        c.hset(obj, 'alive', z3.BoolVal(True))
        c.pyghost.setdefault('threads_started', []).append(obj)
        hook = it.w.hooks.get('thread.start')
        if hook:
            hook(it, obj)
        return None
    if meth == 'join':
        hook = it.w.hooks.get('thread.join')
        if hook:
            return hook(it, obj)
        cur = c.ghost.get('cur_thread')
        if cur is not None:
            if c.branch(obj.e == cur, 'join-self'):
                raise Raised('RuntimeError')
        c.hset(obj, 'alive', z3.BoolVal(False))
        return None
    raise Unsupported('Thread.%s' % meth)


# ------------------------------------------------------------------ ordered dict str -> int (the signal registry)
# view: $okeys[i] (insertion order), $ovals[i], $len, plus the index map $oidx[key] = position+1 (0: absent).
# Class invariant linking them (stated by the sidecar, assumed in pre-states, proved in post-states):
#   forall s. idx[s] != 0 -> 1 <= idx[s] <= n /\ keys[idx[s]-1] == s ;  forall i in [0,n). idx[keys[i]] == i+1
def is_odict(it, obj):
    return isinstance(obj, SRef) and obj.pytype in it.src.classes and \
        any(b in ('OrderedDict', 'OrderedDictWithParams') for b in it.src.mro(obj.pytype)[1:] + it.src.classes[obj.pytype].bases)


def od_parts(it, obj):
    c = it.c
    return c.hget(obj, '$okeys'), c.hget(obj, '$ovals'), c.hget(obj, '$oidx'), c.hget(obj, '$len')


def od_key(it, k):
    c = it.c
    if isinstance(k, str):
        return c.strconst(k)
    if isinstance(k, SRef) and k.pytype in ('str', None):
        return sval(k.e)
    return None


def od_guard(it, obj, how):
    """Writers of a registry declared `guarded` must hold some lock, and the membership test / length read that
    decides the write must lie in the same critical section (readers rely on the registry only ever growing)."""
    c = it.c
    if obj.pytype not in getattr(it.w, 'guarded_registries', ()):
        return
    locks = c.pyghost.get('locks_seen', [])
    held = z3.Or([c.hget(l, 'held') > 0 for l in locks]) if locks else z3.BoolVal(False)
    ep = z3.Sum([c.hget(l, 'epoch') for l in locks]) if locks else z3.IntVal(0)
    k = ('od_read_epoch', obj.e.sexpr(), len(c.frames))
    if how == 'read':
        c.pyghost[k] = (held, ep)
        return
    where = it.where()
    c.prove('%s:guarded/registry-insert-holds-a-lock' % where, held, tags=('lock',), assume_after=False)
    if k in c.pyghost:
        h0, e0 = c.pyghost[k]
        c.prove('%s:atomic/registry-test-and-insert-in-one-critical-section' % where, z3.And(h0, e0 == ep),
                tags=('lock',), assume_after=False)


def od_contains(it, obj, k):
    kv = od_key(it, k)
    od_guard(it, obj, 'read')
    if kv is None:
        return False                       # a non-string is never a key of the registry
    keys, vals, idx, n = od_parts(it, obj)
    return SBool(z3.Select(idx, kv) != 0)


def od_getitem(it, obj, k):
    c = it.c
    kv = od_key(it, k)
    keys, vals, idx, n = od_parts(it, obj)
    if kv is None or not c.branch(z3.Select(idx, kv) != 0, 'odict-has-key'):
        raise Raised('KeyError')
    return SInt(z3.Select(vals, z3.Select(idx, kv) - 1))


def od_setitem(it, obj, k, v):
    c = it.c
    kv = od_key(it, k)
    if kv is None:
        raise Unsupported('registry key %r' % (k,))
    keys, vals, idx, n = od_parts(it, obj)
    val = c.to_int(v)
    od_guard(it, obj, 'write')
    if c.branch(z3.Select(idx, kv) != 0, 'odict-update'):
        c.hset(obj, '$ovals', z3.Store(vals, z3.Select(idx, kv) - 1, val))
    else:
        c.hset(obj, '$okeys', z3.Store(keys, n, kv))
        c.hset(obj, '$ovals', z3.Store(vals, n, val))
        c.hset(obj, '$oidx', z3.Store(idx, kv, n + 1))
        c.hset(obj, '$len', n + 1)


def od_view_list(it, obj, which):
    """list(d.keys()) / list(d.values()): a new list in insertion order."""
    c = it.c
    keys, vals, idx, n = od_parts(it, obj)
    r = c.fresh_ref('odlist', 'list<%s>' % ('str' if which == 'keys' else 'int'))
    A = c.fresh('odlist_items', IntArr)
    i = z3.Int('i!od')
    if which == 'keys':
        c.assume(z3.ForAll([i], z3.Implies(z3.And(0 <= i, i < n), z3.And(sval(z3.Select(A, i)) == z3.Select(keys, i),
                                                                         z3.Select(A, i) != NONE)),
                           patterns=[z3.Select(A, i)]))
    else:
        c.assume(z3.ForAll([i], z3.Implies(z3.And(0 <= i, i < n), z3.Select(A, i) == box(z3.Select(vals, i))),
                           patterns=[z3.Select(A, i)]))
        c.assume(z3.ForAll([i], unbox(box(i)) == i, patterns=[box(i)]))
    c.hset(r, '$items', A)
    c.hset(r, '$len', n)
    c.hset(r, '$maxlen', z3.IntVal(-1))
    return r
