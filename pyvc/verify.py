"""Targets: a function of the real source + symbolic pre-state + contract -> obligations."""
import time
import traceback
import z3

from .sym import (Ctx, World, Frame, SInt, SBool, SRef, SFunc, SClass, Unsupported, PathEnd, ReturnSignal, Raised,
                  Ref, NONE, LoopSpec)
from .interp import Interp


class Contract:
    """Sidecar contract of one function (keyed by structural path).

    apply(it, fn, args, kwargs) is the call-site semantics: assert the precondition, havoc the frame,
    assume the postcondition.  It is ordinary ghost code run on the symbolic state."""
    path = None
    verifying = False

    def apply(self, it, fn, args, kwargs):
        raise NotImplementedError


class FnContract(Contract):
    def __init__(self, path, apply_fn):
        self.path = path
        self._apply = apply_fn

    def apply(self, it, fn, args, kwargs):
        return self._apply(it, fn, args, kwargs)


class Target:
    def __init__(self, name, run, functions=(), note=''):
        self.name = name
        self.run = run              # run(it) : sets up the pre-state, executes real source, proves the post-state
        self.functions = list(functions)   # structural paths of the real functions this target executes
        self.note = note


class TargetResult:
    def __init__(self, target):
        self.target = target
        self.obligations = []
        self.paths = 0
        self.error = None
        self.seconds = 0.0
        self.path_samples = []


def explore(world, target, max_paths=20000):
    res = TargetResult(target)
    t0 = time.time()
    seen = {}
    worklist = [[]]
    while worklist:
        prefix = worklist.pop()
        res.paths += 1
        if res.paths > max_paths:
            res.error = 'path budget exceeded (%d)' % max_paths
            break
        ctx = Ctx(world, prefix)
        it = Interp(ctx)
        ctx.frames.append(Frame('<target %s>' % target.name, {}, None, 'target'))
        try:
            target.run(it)
        except PathEnd:
            pass
        except Unsupported as ex:
            res.error = 'unsupported: %s' % ex
            res.trace = traceback.format_exc()
            break
        except (KeyError, AttributeError, TypeError, IndexError, ValueError, z3.Z3Exception) as ex:
            # the sidecar names a local / shape that the changed source no longer has: no VC can honestly be
            # generated for this target (DESIGN 3.2); the native search decides, otherwise the check is undecided
            res.error = 'sidecar no longer fits the source: %s: %s' % (type(ex).__name__, ex)
            res.trace = traceback.format_exc()
            break
        except Raised as r:
            # an exception escaping the target harness itself: the harness must decide what that means
            res.error = 'uncaught exception %s escaped the target harness' % r.kind
            break
        except ReturnSignal:
            pass
        occ = {}
        for ob in ctx.obligations:
            k0 = (ob.name, ob.sig)
            occ[k0] = occ.get(k0, 0) + 1
            k = (ob.name, ob.sig, occ[k0])
            if k not in seen:
                seen[k] = ob
                ob.target = target.name
                res.obligations.append(ob)
        if len(res.path_samples) < 3:
            res.path_samples.append(' '.join(ctx.trace[:40]))
        worklist.extend(ctx.alternatives)
    res.seconds = round(time.time() - t0, 3)
    return res


# ---------------------------------------------------------------------------- helpers for sidecars
def method(it, obj, name):
    """The (decorated) method `name` of obj's class, bound to obj -- real source."""
    fi = it.src.find_method(obj.pytype, name)
    if fi is None:
        raise Unsupported('%s has no method %s' % (obj.pytype, name))
    fn = it.w_method(fi)
    return fn if getattr(fn, 'staticmethod', False) else fn.bind(obj)


def module_func(it, path):
    fi = it.src.funcs.get(path)
    if fi is None:
        raise Unsupported('function %s no longer exists' % path)
    return SFunc(fi, [], None, None)


class Outcome:
    def __init__(self, value=None, raised=None):
        self.value = value
        self.raised = raised


def run_body(it, fn, args, kwargs=None, contract_key=None):
    """Execute the real body of fn (never its own contract) and return how it ended."""
    con = it.w.contracts.get(contract_key or fn.key)
    prev = None
    if con is not None:
        prev = con.verifying
        con.verifying = True
    try:
        try:
            v = it.call_func(fn, list(args), dict(kwargs or {}), inline=True)
            return Outcome(value=v)
        except Raised as r:
            return Outcome(raised=r.kind)
    finally:
        if con is not None:
            con.verifying = prev


def framed(it, name, mods, thunk):
    """Run thunk() logging heap writes; afterwards every write must hit a declared (ref, field) or a fresh object."""
    c = it.c
    saved = c.write_log
    c.write_log = []
    n0 = len(c.live_refs)
    try:
        out = thunk()
    finally:
        log = c.write_log
        c.write_log = saved
        if saved is not None:
            saved.extend(log)
    it.check_frame(name, mods, log, c.live_refs[n0:])
    return out
