"""Regular-language back end (DESIGN.md 5.7): exact decisions about which strings a Python `re` pattern accepts.

The pattern literal is read from the real source, parsed with Python's own `re._parser`, turned into an epsilon-NFA
over a finite alphabet of *atoms* (equivalence classes of characters w.r.t. every character set that occurs in the
patterns involved), determinised lazily; inclusion / emptiness are product-automaton reachability.  Witnesses are
shortest strings and are replayed through the real `re` by the callers.

Supported: literals, character sets and their negations, categories \\d \\w \\s (and negations), '.', alternation,
groups (capturing or not), greedy/lazy repeats with finite or open bounds, '^' at the start and '$' at the end.
Anything else (look-around, back-references, flags) raises Unsupported -> the obligation is undecided, never passed.
Assumption: `re._parser`'s tree means what `re` executes (sampled natively by the callers); characters outside the
Basic Multilingual Plane are represented by a handful of samples.
"""
import re
import re._parser as sre_parse
import re._constants as C


class Unsupported(Exception):
    pass


SAMPLES_ASTRAL = [0x1F600, 0x10400, 0x2F800]
_UNIVERSE = None


def universe():
    global _UNIVERSE
    if _UNIVERSE is None:
        _UNIVERSE = [cp for cp in range(0, 0x10000) if not (0xD800 <= cp <= 0xDFFF)] + SAMPLES_ASTRAL
    return _UNIVERSE


# ---------------------------------------------------------------------------- character predicates
class CharSet:
    """A set of characters given by a predicate on code points; identity by a canonical key."""
    def __init__(self, key, pred):
        self.key = key
        self.pred = pred

    def __contains__(self, cp):
        return self.pred(cp)


_CAT = {
    C.CATEGORY_DIGIT: lambda cp: chr(cp).isdigit() if cp < 128 else bool(re.fullmatch(r'\d', chr(cp))),
    C.CATEGORY_NOT_DIGIT: lambda cp: not bool(re.fullmatch(r'\d', chr(cp))),
    C.CATEGORY_SPACE: lambda cp: bool(re.fullmatch(r'\s', chr(cp))),
    C.CATEGORY_NOT_SPACE: lambda cp: not bool(re.fullmatch(r'\s', chr(cp))),
    C.CATEGORY_WORD: lambda cp: bool(re.fullmatch(r'\w', chr(cp))),
    C.CATEGORY_NOT_WORD: lambda cp: not bool(re.fullmatch(r'\w', chr(cp))),
}


def _set_from_in(items):
    negate = False
    preds = []
    key = []
    for op, av in items:
        if op is C.NEGATE:
            negate = True
            key.append('^')
        elif op is C.LITERAL:
            preds.append(lambda cp, v=av: cp == v)
            key.append('L%d' % av)
        elif op is C.RANGE:
            lo, hi = av
            preds.append(lambda cp, lo=lo, hi=hi: lo <= cp <= hi)
            key.append('R%d-%d' % (lo, hi))
        elif op is C.CATEGORY:
            if av not in _CAT:
                raise Unsupported('category %s' % av)
            preds.append(_CAT[av])
            key.append('C%s' % av)
        else:
            raise Unsupported('set item %s' % op)
    if negate:
        return CharSet('[' + ','.join(key) + ']', lambda cp: not any(p(cp) for p in preds))
    return CharSet('[' + ','.join(key) + ']', lambda cp: any(p(cp) for p in preds))


# ---------------------------------------------------------------------------- NFA construction
class NFA:
    def __init__(self):
        self.n = 0
        self.eps = {}        # state -> set(state)
        self.trans = {}      # state -> list of (CharSet, state)
        self.start = None
        self.accept = None

    def new(self):
        s = self.n
        self.n += 1
        self.eps[s] = set()
        self.trans[s] = []
        return s


def _build(nfa, tree, at_start, at_end):
    """Returns (entry, exit) states of the fragment for a parsed sub-pattern (a list of (op, av))."""
    entry = nfa.new()
    cur = entry
    items = list(tree)
    for idx, (op, av) in enumerate(items):
        nxt = nfa.new()
        if op is C.LITERAL:
            nfa.trans[cur].append((CharSet('L%d' % av, lambda cp, v=av: cp == v), nxt))
        elif op is C.NOT_LITERAL:
            nfa.trans[cur].append((CharSet('NL%d' % av, lambda cp, v=av: cp != v), nxt))
        elif op is C.ANY:
            nfa.trans[cur].append((CharSet('ANY', lambda cp: cp != 10), nxt))
        elif op is C.IN:
            nfa.trans[cur].append((_set_from_in(av), nxt))
        elif op is C.BRANCH:
            for alt in av[1]:
                a, b = _build(nfa, alt, False, False)
                nfa.eps[cur].add(a)
                nfa.eps[b].add(nxt)
        elif op is C.SUBPATTERN:
            sub = av[-1]
            if av[1] or av[2]:
                raise Unsupported('inline flags')
            a, b = _build(nfa, sub, False, False)
            nfa.eps[cur].add(a)
            nfa.eps[b].add(nxt)
        elif op in (C.MAX_REPEAT, C.MIN_REPEAT):
            lo, hi, sub = av
            prev = cur
            for _ in range(lo):
                a, b = _build(nfa, sub, False, False)
                nfa.eps[prev].add(a)
                prev = b
            if hi is C.MAXREPEAT:
                a, b = _build(nfa, sub, False, False)
                nfa.eps[prev].add(a)
                nfa.eps[b].add(a)
                nfa.eps[b].add(nxt)
                nfa.eps[prev].add(nxt)
            else:
                nfa.eps[prev].add(nxt)
                for _ in range(hi - lo):
                    a, b = _build(nfa, sub, False, False)
                    nfa.eps[prev].add(a)
                    nfa.eps[b].add(nxt)
                    prev = b
        elif op is C.AT:
            if av is C.AT_BEGINNING and idx == 0 and at_start:
                nfa.eps[cur].add(nxt)
            elif av in (C.AT_END,) and idx == len(items) - 1 and at_end:
                # '$' also matches before a trailing newline; handled by the caller (accept + optional '\n')
                nfa.eps[cur].add(nxt)
                nfa.dollar = True
            else:
                raise Unsupported('anchor %s inside the pattern' % av)
        else:
            raise Unsupported('regex construct %s' % op)
        cur = nxt
    return entry, cur


def compile_pattern(pattern, mode='match'):
    """Language of strings s with re.match(pattern, s) (mode='match': prefix match, any tail),
    re.fullmatch (mode='full') or re.search (mode='search': any head, any tail)."""
    tree = sre_parse.parse(pattern)
    if tree.state.flags & ~(re.UNICODE):
        raise Unsupported('flags')
    nfa = NFA()
    nfa.dollar = False
    a, b = _build(nfa, tree, True, True)
    start = nfa.new()
    acc = nfa.new()
    anyc = CharSet('SIGMA', lambda cp: True)
    if mode == 'search':
        nfa.trans[start].append((anyc, start))
    nfa.eps[start].add(a)
    if nfa.dollar:
        # '$' : end of string, or just before a newline that ends the string
        nl = nfa.new()
        nfa.trans[b].append((CharSet('L10', lambda cp: cp == 10), nl))
        nfa.eps[nl].add(acc)
        nfa.eps[b].add(acc)
    else:
        nfa.eps[b].add(acc)
        if mode in ('match', 'search'):
            nfa.trans[acc].append((anyc, acc))
    nfa.start, nfa.accept = start, acc
    return nfa


# ---------------------------------------------------------------------------- alphabet atoms
def atoms_for(nfas):
    """Partition the universe by membership in every character set of the given automata; one representative each."""
    sets = {}
    for nfa in nfas:
        for s in range(nfa.n):
            for cs, _ in nfa.trans[s]:
                sets.setdefault(cs.key, cs)
    keys = sorted(sets)
    classes = {}
    for cp in universe():
        sig = tuple(cp in sets[k] for k in keys)
        if sig not in classes:
            classes[sig] = cp
        elif cp < 128 and classes[sig] >= 128:
            classes[sig] = cp
    # prefer printable ASCII representatives
    reps = sorted(classes.values())
    return reps, keys, sets


class DFA:
    """Lazy subset construction over the atom representatives."""
    def __init__(self, nfa, reps):
        self.nfa = nfa
        self.reps = reps
        self.start = self.closure({nfa.start})
        self.cache = {}

    def closure(self, states):
        stack = list(states)
        seen = set(states)
        while stack:
            s = stack.pop()
            for t in self.nfa.eps[s]:
                if t not in seen:
                    seen.add(t)
                    stack.append(t)
        return frozenset(seen)

    def step(self, S, cp):
        k = (S, cp)
        r = self.cache.get(k)
        if r is None:
            nxt = set()
            for s in S:
                for cs, t in self.nfa.trans[s]:
                    if cp in cs:
                        nxt.add(t)
            r = self.closure(nxt)
            self.cache[k] = r
        return r

    def accepting(self, S):
        return self.nfa.accept in S


def _search(dfas, good, max_states=400000):
    """BFS over the product; returns a shortest string reaching a product state for which good(flags) holds."""
    reps = dfas[0].reps
    start = tuple(d.start for d in dfas)
    seen = {start: None}
    queue = [start]
    head = 0
    while head < len(queue):
        cur = queue[head]
        head += 1
        if good(tuple(d.accepting(S) for d, S in zip(dfas, cur))):
            out = []
            k = cur
            while seen[k] is not None:
                prev, cp = seen[k]
                out.append(chr(cp))
                k = prev
            return ''.join(reversed(out))
        for cp in reps:
            nxt = tuple(d.step(S, cp) for d, S in zip(dfas, cur))
            if nxt not in seen:
                seen[nxt] = (cur, cp)
                queue.append(nxt)
                if len(seen) > max_states:
                    raise Unsupported('product automaton too large')
    return None


def witness_in_not_in(inside, outside):
    """A shortest string accepted by every automaton of `inside` and by none of `outside` (None if there is none)."""
    nfas = list(inside) + list(outside)
    reps, _, _ = atoms_for(nfas)
    dfas = [DFA(n, reps) for n in nfas]
    k = len(inside)
    return _search(dfas, lambda acc: all(acc[:k]) and not any(acc[k:]))


def included(a, b):
    """L(a) subset of L(b) ?  -> (True, None) or (False, witness in a but not in b)."""
    w = witness_in_not_in([a], [b])
    return (w is None), w


def disjoint(a, b):
    w = witness_in_not_in([a, b], [])
    return (w is None), w
