"""pyvc symbolic executor: Python AST (re-read from /repo on every run) -> verification conditions.

Design (DESIGN.md section 2):
  * forward symbolic execution with path splitting (re-execution under a decision prefix);
  * loops are cut at their head by a sidecar invariant (check on entry, havoc the declared
    frame + assigned locals, assume invariant, run the body once, re-check; optional variant);
  * a call is replaced by the callee's contract when the sidecar has one, otherwise small
    closures/wrappers are inlined (their bodies are real source too);
  * every failure mode is a *named obligation*  assumptions => goal ; nothing is skipped:
    an unsupported construct aborts VC generation for that target (Unsupported).
Heap: one z3 array per field name (Burstall-Bornat).  Lists and deques are heap objects with
fields $items : Ref -> (Int -> Ref), $len, $maxlen.
"""
import ast
import itertools
import z3

from .extract import loops_of

Ref = z3.DeclareSort('Ref')
StrV = z3.DeclareSort('StrV')
NONE = z3.Const('None', Ref)
IntArr = z3.ArraySort(z3.IntSort(), Ref)

sval = z3.Function('sval', Ref, StrV)          # value of a str object (== compares values, `is` identities)
name_of = z3.Function('name_of', Ref, Ref)     # fn.__name__ (a str object)


class Unsupported(Exception):
    """Construct outside the supported subset: VC generation for this target is abandoned."""


class PathEnd(Exception):
    pass


class ReturnSignal(Exception):
    def __init__(self, value):
        self.value = value


class BreakSignal(Exception):
    pass


class ContinueSignal(Exception):
    pass


class Raised(Exception):
    """A Python exception propagating on this path."""
    def __init__(self, kind, note=''):
        self.kind = kind
        self.note = note


# ---------------------------------------------------------------------------- values
class SInt:
    def __init__(self, e):
        self.e = e

    def __repr__(self):
        return 'SInt(%s)' % self.e


class SBool:
    def __init__(self, e):
        self.e = e

    def __repr__(self):
        return 'SBool(%s)' % self.e


class SRef:
    def __init__(self, e, pytype=None):
        self.e = e
        self.pytype = pytype

    def __repr__(self):
        return 'SRef(%s:%s)' % (self.e, self.pytype)


class SFunc:
    """A Python function value whose body is real miros source."""
    def __init__(self, info, closure, bound=None, defcls=None, wrapped=None):
        self.info = info
        self.closure = closure      # dict name -> value  (enclosing function's locals at def time)
        self.bound = bound          # bound self value or None
        self.defcls = defcls        # class whose body defines it (for super())
        self.wrapped = wrapped      # functools.wraps target (SFunc) if any

    def bind(self, obj):
        f = SFunc(self.info, self.closure, obj, self.defcls, self.wrapped)
        for k in ('public_path', 'staticmethod', 'contextmanager'):
            if hasattr(self, k):
                setattr(f, k, getattr(self, k))
        return f

    @property
    def key(self):
        return getattr(self, 'public_path', None) or self.info.path

    def __repr__(self):
        return 'SFunc(%s)' % self.info.path


class SClass:
    def __init__(self, name):
        self.name = name

    def __repr__(self):
        return 'SClass(%s)' % self.name


class SModule:
    def __init__(self, name):
        self.name = name

    def __repr__(self):
        return 'SModule(%s)' % self.name


class SBuiltin:
    def __init__(self, name, obj=None):
        self.name = name
        self.obj = obj

    def __repr__(self):
        return 'SBuiltin(%s)' % self.name


class SSuper:
    def __init__(self, obj, after):
        self.obj = obj
        self.after = after


class SOpaque:
    """A value the encoding does not interpret (format text, timestamps...): an uninterpreted Ref."""


def is_sym(v):
    return isinstance(v, (SInt, SBool, SRef))


# ---------------------------------------------------------------------------- schema
INT_FIELDS = {'signal', 'priority', 'total_times', 'period', '$len', '$maxlen', 'qsize', 'unfinished',
              'times_activated', 'maxsize', 'order', 'held', 'epoch', 'highest_inner_signal'}
BOOL_FIELDS = {'ignored', 'instrumented', 'live_spy', 'live_trace', 'spied_on', 'alive', 'daemon', 'flag',
               'hook', 'start', 'internal', 'recall', 'post_lifo', 'post_fifo', 'post_defer', 'deferred',
               'started', '_is_atomic'}
ARR_FIELDS = {'$items'}
HAS_SORT = None
MAP_SORT = None
# static python type of what a field holds (None = unknown object)
FIELD_PYTYPE = {
    'state': 'Attribute', 'temp': 'Attribute', 'event': 'Attribute', 'rtc': 'Attribute', 'full': 'Attribute',
    'fun': 'state', 'spy': 'deque<str>', 'tuples': 'deque<nt:SpyTuple>', 'trace': 'deque<nt:TraceTuple>',
    'defer_queue': 'deque<Event>', 'queue': 'deque<Event>',
    'posted_events_queue': 'deque<nt:PostedEvent>', 'deque': 'deque<Event>', 'locking_queue': 'Queue',
    'locking_deque': 'LockingDeque', 'signal_name': 'str', 'state_name': 'str', 'name': 'str',
    'thread': 'Thread', 'fifo_thread': 'Thread', 'lifo_thread': 'Thread', '_thread': 'Thread',
    'task_run_event': 'ThreadEvent', 'activeobject_task_event': 'ThreadEvent',
    'fabric_task_event': 'ThreadEvent', '_event': 'ThreadEvent',
    'fifo_fabric_queue': 'PriorityQueue', 'lifo_fabric_queue': 'PriorityQueue',
    'fifo_subscriptions': 'dict', 'lifo_subscriptions': 'dict', 'fabric': 'ActiveFabricSource',
    'writer': 'InstrumenationWriterClass', 'queue_type': 'str', 'uuid': 'str', 'event_or_signal': 'Event',
    'payload': None, 'datetime': 'datetime', 'start_state': 'str', 'end_state': 'str',
    'live_spy_callback': 'fn', 'live_trace_callback': 'fn', 'last_live_trace_datetime': 'datetime',
    'state_fn': 'state', '_queue': 'Queue', 'fn': 'fn', 'content': None, 'target': 'fn',
    'instance': None, 'klass': 'class', 'mutex': 'Lock', '_lock': 'RLock', '_value': None, '_initial_value': None,
}


REF_OVERRIDES = {'SpyTuple.signal', 'TraceTuple.signal', 'SpyTuple.internal', 'SpyTuple.state'}


def heap_key(owner, field):
    if owner and owner.startswith('nt:'):
        return owner[3:] + '.' + field
    return field


def field_sort(f):
    if f in REF_OVERRIDES:
        return Ref
    if f == '$okeys':
        return z3.ArraySort(z3.IntSort(), StrV)
    if f == '$ovals':
        return z3.ArraySort(z3.IntSort(), z3.IntSort())
    if f == '$oidx':
        return z3.ArraySort(StrV, z3.IntSort())
    if '.' in f and not f.startswith('$'):
        f = f.rsplit('.', 1)[1]
    if f in ('$has', '$json_has'):
        return z3.ArraySort(StrV, z3.BoolSort())
    if f in ('$map', '$json_map'):
        return z3.ArraySort(StrV, Ref)
    if f in INT_FIELDS:
        return z3.IntSort()
    if f in BOOL_FIELDS:
        return z3.BoolSort()
    if f in ARR_FIELDS:
        return IntArr
    return Ref


# ---------------------------------------------------------------------------- obligations
class Obligation:
    __slots__ = ('name', 'assumptions', 'goal', 'tags', 'sig', 'kind', 'axioms', 'target', 'trace')

    def __init__(self, name, assumptions, goal, tags, sig, kind='prove', axioms=()):
        self.name = name
        self.assumptions = assumptions
        self.goal = goal
        self.tags = tags
        self.sig = sig
        self.kind = kind      # 'prove' | 'cover' (must be satisfiable) | 'mustfail'
        self.axioms = axioms


class Frame:
    def __init__(self, func, env, defcls=None, label=''):
        self.func = func
        self.env = env
        self.defcls = defcls
        self.label = label


# ---------------------------------------------------------------------------- context
class Ctx:
    """One symbolic path.  Re-created for every decision prefix."""

    def __init__(self, world, prefix):
        self.world = world
        self.src = world.src
        self.prefix = list(prefix)
        self.decisions = []
        self.alternatives = []
        self.heap = {}
        self.ghost = {}
        self.assumptions = []
        self.known = {}            # simplified literal sexpr -> bool (cheap branch pruning)
        self.obligations = []
        self.frames = []
        self.counter = itertools.count()
        self.axioms = world.axioms
        self.write_log = None      # list of (field, ref) when a loop body / function frame is being checked
        self.strconsts = {}
        self.dry = False
        self.live_refs = []
        self.trace = []            # readable path description
        self.pyghost = {}          # python-side ghost bookkeeping of sidecars (per path)
        self.fresh_ids = set()     # z3 ids of objects allocated on this path (pairwise distinct)
        self._solver = None

    # ---- symbols
    def fresh(self, name, sort):
        return z3.Const('%s!%d' % (name, next(self.counter)), sort)

    def fresh_ref(self, name, pytype=None, distinct=True):
        r = self.fresh(name, Ref)
        if distinct:
            self.assume(r != NONE)
            for o in self.live_refs:
                self.assume(r != o)
        self.live_refs.append(r)
        if distinct:
            self.fresh_ids.add(r.get_id())
            # a newly allocated object is not yet referenced from the heap fields listed for its type
            for fld in self.world.fresh_excludes.get(pytype, ()):
                x = z3.Const('x!alloc', Ref)
                arr = self.harr(fld)
                self.assumptions.append(z3.ForAll([x], z3.Select(arr, x) != r, patterns=[z3.Select(arr, x)]))
        return SRef(r, pytype)

    def strconst(self, s):
        """The value of a string literal: distinct literals have distinct values."""
        return self.world.strconst(s)

    def strobj(self, s):
        """A str object for a literal (interned per literal, like CPython does for identifiers)."""
        return SRef(self.world.strobj(s), 'str')

    # ---- forking
    def choose(self, n, label=''):
        pos = len(self.decisions)
        if pos < len(self.prefix):
            k = self.prefix[pos]
        else:
            k = 0
            for j in range(1, n):
                self.alternatives.append(self.decisions + [j])
        self.decisions.append(k)
        if label:
            self.trace.append('%s=%d' % (label, k))
        return k

    def _lit_key(self, cond):
        s = z3.simplify(cond)
        if z3.is_true(s):
            return True, None
        if z3.is_false(s):
            return False, None
        neg = False
        while z3.is_not(s):
            s = s.arg(0)
            neg = not neg
        return None, (s.sexpr(), neg)

    def decide(self, cond):
        """Return True/False when cond is decided syntactically or by facts already branched on."""
        if isinstance(cond, bool):
            return cond
        val, key = self._lit_key(cond)
        if val is not None:
            return val
        k, neg = key
        if k in self.known:
            return self.known[k] != neg
        return None

    def feasible(self, cond):
        if self.world.prune_ms <= 0:
            return True
        if self._solver is None:
            self._solver = z3.Solver()
            self._solver.set('timeout', self.world.prune_ms)
            self._n_added = 0
        s = self._solver
        while self._n_added < len(self.assumptions):
            a = self.assumptions[self._n_added]
            if not _has_quant(a):
                s.add(a)
            self._n_added += 1
        return s.check(cond) != z3.unsat

    def branch(self, cond, label=''):
        """Fork on a z3 Bool (or python bool); the taken side is added to the path condition."""
        d = self.decide(cond)
        if d is not None:
            return d
        k = self.choose(2, label)
        taken = (k == 0)
        c = cond if taken else z3.Not(cond)
        if not self.feasible(c):
            raise PathEnd()
        self.assume(c)
        return taken

    def assume(self, f):
        if isinstance(f, bool):
            if not f:
                raise PathEnd()
            return
        self.assumptions.append(f)
        val, key = self._lit_key(f)
        if val is False:
            raise PathEnd()
        if key is not None:
            self.known[key[0]] = not key[1]

    def sig(self):
        return tuple(self.decisions)

    def prove(self, name, goal, tags=(), assume_after=True):
        if self.dry:
            return
        if isinstance(goal, bool):
            goal = z3.BoolVal(goal)
        s = z3.simplify(goal)
        if not z3.is_true(s):
            ob = Obligation(name, list(self.assumptions), goal, tuple(tags), self.sig(),
                            axioms=tuple(self.world.axioms))
            ob.trace = ' '.join(self.trace[-60:])
            self.obligations.append(ob)
        else:
            self.obligations.append(Obligation(name, [], z3.BoolVal(True), tuple(tags), self.sig()))
        if assume_after:
            self.assume(goal)

    def cover(self, name, tags=()):
        if self.dry:
            return
        self.obligations.append(Obligation(name, list(self.assumptions), z3.BoolVal(True), tuple(tags),
                                           self.sig(), kind='cover', axioms=tuple(self.world.axioms)))

    def fail(self, name, why='', tags=()):
        """This program point must be unreachable (definedness, TypeError, blocking call...)."""
        self.prove(name, z3.BoolVal(False), tags)
        raise PathEnd()

    # ---- heap
    def harr(self, field):
        a = self.heap.get(field)
        if a is None:
            a = z3.Const('H0_' + field.replace('$', 'S_'), z3.ArraySort(Ref, field_sort(field)))
            self.heap[field] = a
        return a

    def hget(self, ref, field):
        if isinstance(ref, SRef):
            ref = ref.e
        arr = self.harr(field)
        # resolve reads through stores to *other freshly allocated objects* (pairwise distinct by construction)
        rid = ref.get_id()
        if rid in self.fresh_ids:
            while z3.is_store(arr):
                k = arr.arg(1)
                if k.eq(ref):
                    return arr.arg(2)
                if k.get_id() in self.fresh_ids:
                    arr = arr.arg(0)
                else:
                    break
        return z3.Select(arr, ref)

    def hset(self, ref, field, val):
        if isinstance(ref, SRef):
            ref = ref.e
        if self.write_log is not None:
            self.write_log.append((field, ref))
        self.heap[field] = z3.Store(self.harr(field), ref, val)

    def read(self, ref, field, pytype=Ellipsis):
        """Heap read wrapped as a value."""
        key = heap_key(ref.pytype if isinstance(ref, SRef) else None, field)
        e = self.hget(ref, key)
        srt = field_sort(key)
        if srt == z3.IntSort():
            return SInt(e)
        if srt == z3.BoolSort():
            return SBool(e)
        if pytype is Ellipsis:
            owner = ref.pytype if isinstance(ref, SRef) else None
            pytype = self.world.field_pytype(owner, field)
        return SRef(e, pytype)

    def write(self, ref, field, v):
        field = heap_key(ref.pytype if isinstance(ref, SRef) else None, field)
        srt = field_sort(field)
        if srt == z3.IntSort():
            self.hset(ref, field, self.to_int(v))
        elif srt == z3.BoolSort():
            self.hset(ref, field, self.to_bool(v))
        else:
            self.hset(ref, field, self.to_ref(v))

    def snapshot(self):
        return dict(self.heap), dict(self.ghost)

    # ---- conversions
    def to_int(self, v):
        if isinstance(v, bool):
            return z3.IntVal(int(v))
        if isinstance(v, int):
            return z3.IntVal(v)
        if isinstance(v, SInt):
            return v.e
        if isinstance(v, SBool):
            return z3.If(v.e, 1, 0)
        raise Unsupported('int expected, got %r' % (v,))

    def to_bool(self, v):
        if isinstance(v, bool):
            return z3.BoolVal(v)
        if isinstance(v, SBool):
            return v.e
        if isinstance(v, int):
            return z3.BoolVal(v != 0)
        if isinstance(v, SInt):
            return v.e != 0
        if v is None:
            return z3.BoolVal(False)
        if isinstance(v, SRef):
            bt = (v.pytype or '').split('<', 1)[0]
            if bt in ('deque', 'list'):
                return z3.And(v.e != NONE, self.hget(v, '$len') > 0)        # a sequence is true iff it is not empty
            if bt == 'LockingDeque':
                return z3.And(v.e != NONE, self.hget(SRef(self.hget(v, 'deque'), 'deque'), '$len') > 0)   # via __len__
            if bt in ('dict', 'str', 'tuple'):
                raise Unsupported('truthiness of container %r' % (v,))
            if bt in ALWAYS_TRUE_TYPES or self._plain_object_type(bt):
                return v.e != NONE
            # an object whose class defines truth through __bool__/__len__ (Event is an OrderedDict: empty -> falsy),
            # a namedtuple, or a value of unknown type (a payload may be 0, '' or []): not None, and otherwise unknown
            return z3.And(v.e != NONE, truthy(v.e))
        if isinstance(v, str):
            return z3.BoolVal(len(v) > 0)
        if isinstance(v, (SFunc, SClass)):
            return z3.BoolVal(True)
        raise Unsupported('truthiness of %r' % (v,))

    def _plain_object_type(self, pt):
        src = self.world.src
        if pt not in src.classes:
            return False
        for cn in src.mro(pt):
            ci = src.classes.get(cn)
            if ci is None or '__bool__' in ci.methods or '__len__' in ci.methods:
                return False
            if any(b not in src.classes and b != 'object' for b in ci.bases):
                return False
        return True

    def to_ref(self, v):
        if v is None:
            return NONE
        if isinstance(v, SRef):
            return v.e
        if isinstance(v, str):
            return self.world.strobj(v)
        if isinstance(v, SFunc):
            return self.world.funcref(v)
        if isinstance(v, SClass):
            return self.world.classref(v.name)
        if isinstance(v, bool):
            return self.world.strobj('<True>' if v else '<False>')
        if isinstance(v, int):
            return self.world.intobj(int(v))
        if isinstance(v, SInt):
            return self.world.box_int(v.e)
        if isinstance(v, SBool):
            return z3.If(v.e, self.world.strobj('<True>'), self.world.strobj('<False>'))
        if isinstance(v, tuple):
            return self.world.tupleref(self, v)
        raise Unsupported('cannot store %r in the heap' % (v,))

    # ---- frames
    @property
    def env(self):
        return self.frames[-1].env

    def lookup(self, name):
        fr = self.frames[-1]
        if name in fr.env:
            return fr.env[name]
        f = fr.func
        if isinstance(f, SFunc):
            for cl in f.closure or ():
                if name in cl:
                    return cl[name]
        return self.world.global_lookup(self, name, fr)


def _has_quant(e):
    seen = set()
    stack = [e]
    while stack:
        x = stack.pop()
        if z3.is_quantifier(x):
            return True
        i = x.get_id()
        if i in seen:
            continue
        seen.add(i)
        stack.extend(x.children())
    return False


# ---------------------------------------------------------------------------- world
class LoopSpec:
    """Sidecar specification of one loop (keyed by function path and ordinal in source order)."""
    def __init__(self, invariant, modifies=None, variant=None, name=None, locals_kind=None, after_havoc=None,
                 body_end=None):
        self.invariant = invariant      # f(ctx, env) -> [(name, formula)]
        self.modifies = modifies        # f(ctx, env) -> [(ref, field)] | None
        self.variant = variant          # f(ctx, env) -> Int expr | None
        self.name = name
        self.locals_kind = locals_kind or {}   # name -> ('int'|'bool'|'ref', pytype) for locals undefined at entry
        self.after_havoc = after_havoc  # ghost code run after assuming the invariant (lemma steps)
        self.body_end = body_end        # ghost code run before re-checking the invariant


class World:
    """Everything shared by the paths of one verification target."""

    def __init__(self, src, prune_ms=150):
        self.src = src
        self.prune_ms = prune_ms
        self.contracts = {}         # function path -> Contract
        self.loopspecs = {}         # (function path, ordinal) -> LoopSpec
        self.axioms = []            # global background axioms (named)
        self.hooks = {}             # 'call_state', 'call_fn', ...
        self._strv = {}
        self._stro = {}
        self._funcrefs = {}
        self._classrefs = {}
        self._into = {}
        self._usersig = {}
        self.inline_depth = 12
        self.signals = dict(src.literal_table('SignalSource'))
        self.statuses = dict(src.literal_table('ReturnStatusSource'))
        self.dropped = set()        # what extraction dropped on this run (reported)
        self.decorated = {}         # cache: (class, method) -> SFunc (outermost wrapper)
        self.user_signal = None
        self.local_types = {}       # (function path, local name) -> pytype (sidecar typing of locals)
        self.fresh_excludes = {}    # pytype -> heap fields that cannot yet point to a newly allocated object
        self.extra_mods = None      # f(it, env) -> extra (ref, field) pairs every loop may write (spy wrappers)
        self.disabled_auto = set()  # (loop name, local) for which the automatic stability clause was refuted
        self.disabled_auto_ghosts = set()
        self.guarded = {}           # (class pytype, field) -> name of the lock attribute protecting it (None: no lock)
        self.pytype_overrides = {}  # (owner pytype, field) -> pytype
        self.dynamic_attrs = {'*': {'state_name', 'state_fn', 'spied_on'}}

    def field_pytype(self, owner, field):
        k = (owner, field)
        if k in self.pytype_overrides:
            return self.pytype_overrides[k]
        if owner and owner.startswith('nt:'):
            k = (owner, field)
        return FIELD_PYTYPE.get(field)

    # ---- interned constants
    def strconst(self, s):
        c = self._strv.get(s)
        if c is None:
            c = z3.Const('str_%d_%s' % (len(self._strv), _ident(s)), StrV)
            self._strv[s] = c
        return c

    def strobj(self, s):
        o = self._stro.get(s)
        if o is None:
            o = z3.Const('strobj_%d_%s' % (len(self._stro), _ident(s)), Ref)
            self._stro[s] = o
        return o

    def funcref(self, f):
        key = (f.info.path, id(f.closure) if f.closure else 0)
        o = self._funcrefs.get(key)
        if o is None:
            o = (z3.Const('fn_%d_%s' % (len(self._funcrefs), f.info.name), Ref), f)
            self._funcrefs[key] = o
        return o[0]

    def func_of_ref(self, e):
        for r, f in self._funcrefs.values():
            if r.eq(e):
                return f
        return None

    def classref(self, name):
        o = self._classrefs.get(name)
        if o is None:
            o = z3.Const('class_' + name, Ref)
            self._classrefs[name] = o
        return o

    def intobj(self, i):
        return self.box_int(z3.IntVal(i))

    def box_int(self, e):
        return box(e)

    def tupleref(self, ctx, tup):
        r = ctx.fresh_ref('tuple', 'tuple')
        for i, v in enumerate(tup):
            ctx.hset(r, '$t%d' % i, ctx.to_ref(v))
        ctx.hset(r, '$len', z3.IntVal(len(tup)))
        return r.e

    def const_axioms(self):
        """Distinctness of interned constants (string literal values, literal objects, functions, classes)."""
        ax = []
        vs = list(self._strv.values())
        if len(vs) > 1:
            ax.append(z3.Distinct(*vs))
        objs = list(self._stro.values()) + [r for r, _ in self._funcrefs.values()] + list(self._classrefs.values())
        if objs:
            ax.append(z3.Distinct(*(objs + [NONE])))
        for s, o in self._stro.items():
            ax.append(sval(o) == self.strconst(s))
        return ax

    def user_signal_number(self, it, name):
        """signals.<NAME> for a name outside the built-in table: a user signal (number > highest inner)."""
        k = self._usersig.get(name)
        if k is None:
            k = z3.Int('signal_' + _ident(name))
            self._usersig[name] = k
        it.c.assume(k > len(self.signals))
        return SInt(k)

    def loop_shapes(self):
        """contracts/loop_shapes.json: shapes of the loops of the tree the sidecars were written for."""
        if not hasattr(self, '_loop_shapes'):
            import json
            import os
            p = os.path.join(os.path.dirname(os.path.dirname(os.path.abspath(__file__))), 'contracts', 'loop_shapes.json')
            try:
                self._loop_shapes = json.load(open(p))
            except (OSError, ValueError):
                self._loop_shapes = {}
        return self._loop_shapes

    # ---- name resolution outside function frames
    def global_lookup(self, ctx, name, frame):
        src = self.src
        mod = None
        f = frame.func
        if isinstance(f, SFunc):
            mod = f.info.module
        if mod and name in src.module_funcs[mod]:
            return SFunc(src.module_funcs[mod][name], {}, None, None)
        if name in src.classes:
            return SClass(name)
        if name in ('signals',):
            obj = ctx.pyghost.get('signals_object')
            if obj is not None:
                return obj                      # the registry as an object (C25); elsewhere its contract is used
            return SModule('signals')
        if name in ('return_status',):
            return SModule('return_status')
        if name in BUILTIN_NAMES:
            return SBuiltin(name)
        if name in MODULE_NAMES:
            return SModule(name)
        if name in CLASS_ALIASES:
            return SClass(CLASS_ALIASES[name])
        if name in src.namedtuples:
            return SClass('namedtuple:' + name)
        if mod and name in src.module_assigns[mod]:
            v = src.module_assigns[mod][name]
            # X = SingletonDecorator(K)
            if isinstance(v, ast.Call) and isinstance(v.func, ast.Name) and v.func.id == 'SingletonDecorator':
                return SClass('singleton:' + v.args[0].id)
            if isinstance(v, ast.Call) and isinstance(v.func, ast.Name) and v.func.id in ('RLock', 'Lock') and not v.args:
                lk = SRef(self.strobj('<module lock %s.%s>' % (mod, name)), 'RLock')
                if ('module_lock', name) not in ctx.pyghost:
                    ctx.pyghost[('module_lock', name)] = True
                    ctx.assume(ctx.hget(lk, 'held') >= 0)       # hold count of the calling thread (re-entrant)
                return lk
            try:
                return ast.literal_eval(v)
            except Exception:
                pass
        for m in src.module_funcs:
            if name in src.module_funcs[m]:
                return SFunc(src.module_funcs[m][name], {}, None, None)
        raise Unsupported('unresolved name %s' % name)


def _ident(s):
    return ''.join(ch if ch.isalnum() else '_' for ch in s)[:24]


truthy = z3.Function('truthy', Ref, z3.BoolSort())
ALWAYS_TRUE_TYPES = {'state', 'fn', 'rawstate', 'Thread', 'ThreadEvent', 'RLock', 'Queue', 'PriorityQueue', 'Attribute',
                     'class', 'datetime', 'uuid', 'code', 'frame', 'match'}
box = z3.Function('box_int', z3.IntSort(), Ref)
unbox = z3.Function('unbox_int', Ref, z3.IntSort())

BUILTIN_NAMES = {'len', 'id', 'isinstance', 'hasattr', 'type', 'map', 'list', 'reversed', 'range', 'str', 'callable',
                 'print', 'pp', 'pprint', 'setattr', 'getattr', 'int', 'copy', 'wraps', 'super', 'enumerate',
                 'sorted', 'set', 'True', 'False', 'next', 'max', 'min', 'bool', 'any'}
MODULE_NAMES = {'itertools', 'time', 'uuid', 're', 'inspect', 'json', 'stdlib_datetime', 'traceback', 'sys'}
CLASS_ALIASES = {'HsmEvent': 'Event', 'ThreadEvent': 'ThreadEvent', 'Thread': 'Thread', 'deque': 'deque',
                 'Queue': 'Queue', 'PriorityQueue': 'PriorityQueue', 'RLock': 'RLock', 'OrderedDict': 'OrderedDict',
                 'RuntimeError': 'RuntimeError', 'LookupError': 'LookupError', 'Exception': 'Exception',
                 'namedtuple': 'namedtuple', 'AssertionError': 'AssertionError', 'ValueError': 'ValueError'}
