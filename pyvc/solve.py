"""Discharging obligations: z3 (API, fresh process) first, cvc5 (CLI) on `unknown`; finite grounding for refutation.

Outcomes per obligation (DESIGN.md 3.1):
  discharged  negated VC is unsat (unbounded; the only outcome counted as proved)
  refuted     a model of assumptions /\ not goal exists (quantifier-free query, or its finite grounding)
  undecided   neither
"""
import multiprocessing as mp
import os
import subprocess
import tempfile
import time
import z3

from .sym import Ref, NONE


def to_smt2(assumptions, goal, axioms):
    s = z3.Solver()
    for a in axioms:
        s.add(a)
    for a in assumptions:
        s.add(a)
    s.add(z3.Not(goal))
    return s.to_smt2()


def _has_quant_text(txt):
    return '(forall ' in txt or '(exists ' in txt


def _z3_check(smt2, timeout_ms, seed=0):
    s = z3.Solver()
    s.set('timeout', int(timeout_ms))
    if seed:
        s.set('random_seed', seed % 1000)
    s.from_string(smt2)
    r = s.check()
    return s, r


class _Watchdog:
    """A solver call that ignores its time limit, or a grounding that explodes, must never hang a check: after the hard
    deadline the worker's z3 context is interrupted and the main thread gets a KeyboardInterrupt; the obligation is then
    reported `unknown` (never a verdict)."""
    def __init__(self, seconds):
        import threading
        self.fired = False
        self._t = threading.Timer(seconds, self._fire)
        self._t.daemon = True

    def _fire(self):
        import _thread
        self.fired = True
        try:
            z3.main_ctx().interrupt()
        except Exception:
            pass
        _thread.interrupt_main()

    def __enter__(self):
        self._t.start()
        return self

    def __exit__(self, *a):
        self._t.cancel()
        return False


def _limit_memory():
    # one worker may not take the machine down (a runaway grounding once reached 10 GB)
    try:
        import resource
        cap = int(os.environ.get('PYVC_WORKER_MEM_GB', '6')) * (1 << 30)
        soft, hard = resource.getrlimit(resource.RLIMIT_AS)
        if hard == resource.RLIM_INFINITY or cap < hard:
            resource.setrlimit(resource.RLIMIT_AS, (cap, hard))
    except Exception:
        pass


def _solve_one(task):
    idx, timeout_ms = task[0], task[2]
    hard = 4 * timeout_ms / 1000.0 + 60
    t0 = time.time()
    try:
        with _Watchdog(hard) as wd:
            return _solve_one_(task)
    except BaseException as ex:          # watchdog, MemoryError, solver crash: never a verdict
        return {'idx': idx, 'backend': 'z3', 'result': 'unknown', 'model': None, 'seconds': round(time.time() - t0, 3),
                'reason': 'worker gave up after %.0fs: %r' % (time.time() - t0, ex)}


def _solve_one_(task):
    idx, smt2, timeout_ms, kind, want_ground, seed = task
    t0 = time.time()
    res = {'idx': idx, 'backend': 'z3', 'result': 'unknown', 'model': None, 'reason': ''}
    # a short first attempt, then two long ones with different seeds: budgets are sized so that a verdict
    # does not flip when all cores are busy (slow queries are the unstable ones)
    stages = [max(2000, timeout_ms // 10), timeout_ms, timeout_ms] if kind != 'cover' else [timeout_ms]
    if kind == 'reach':
        # the goal is literally `false` (a program point that must be unreachable): when it IS reachable the
        # quantified background theory keeps z3 from answering sat, so do not burn the long budgets on it
        # ... but a valid one must not flip to `unknown` just because the machine is busy: one short, one full stage
        stages = [max(3000, timeout_ms // 5), timeout_ms]
    for n, tmo in enumerate(stages):
        try:
            s, r = _z3_check(smt2, tmo, seed + n)
            res['result'] = str(r)
            if r == z3.sat:
                res['model'] = _model_text(s.model())
            elif r == z3.unknown:
                res['reason'] = s.reason_unknown()
        except Exception as ex:          # solver crash: never a verdict
            res['result'] = 'error'
            res['reason'] = repr(ex)
        if res['result'] != 'unknown':
            break
    if res['result'] == 'unknown' and kind == 'prove':
        r2 = _cvc5(smt2, timeout_ms)
        if r2 in ('unsat', 'sat'):
            res['result'] = r2
            res['backend'] = 'cvc5'
    if res['result'] == 'unknown' and want_ground:
        # no verdict on the unbounded query: look for a candidate counter-model on its finite grounding
        # (a candidate only: grounding weakens quantified assumptions; the native replay decides)
        try:
            fs = list(z3.parse_smt2_string(smt2))
            gtxt = ground_assertions(fs)
            if gtxt is not None:
                s, r = _z3_check(gtxt, max(3000, timeout_ms // 2))
                if r == z3.sat:
                    res['backend'] = 'z3 unknown; finite grounding sat (candidate model)'
                    res['model'] = _model_text(s.model())
                    res['candidate'] = True
                elif r == z3.unsat:
                    res['reason'] += ' | finite grounding unsat'
        except Exception as ex:
            res['reason'] += ' | grounding error %r' % (ex,)
    res['seconds'] = round(time.time() - t0, 3)
    return res


def _model_text(m):
    out = []
    for d in m.decls():
        try:
            out.append('%s = %s' % (d.name(), m[d]))
        except Exception:
            pass
    return '\n'.join(sorted(out))[:20000]


def _cvc5(smt2, timeout_ms):
    exe = '/usr/bin/cvc5'
    if not os.path.exists(exe):
        return 'unknown'
    try:
        with tempfile.NamedTemporaryFile('w', suffix='.smt2', delete=False, dir=os.environ.get('PYVC_TMP')) as f:
            f.write('(set-logic ALL)\n' + smt2)
            path = f.name
        try:
            p = subprocess.run([exe, '--lang=smt2', '--tlimit=%d' % timeout_ms, path], capture_output=True,
                               text=True, timeout=timeout_ms / 1000.0 + 5)
            out = p.stdout.strip().splitlines()
            return out[0] if out else 'unknown'
        finally:
            os.unlink(path)
    except Exception:
        return 'unknown'


# ------------------------------------------------------------------ finite grounding
def ground(e, refs, lo, hi, depth=0):
    """Expand every quantifier over a finite domain: Ref -> the given constants, Int -> [lo, hi]."""
    cache = {}

    def go(x):
        k = x.get_id()
        if k in cache:
            return cache[k]
        if z3.is_quantifier(x):
            n = x.num_vars()
            doms = []
            for i in range(n):
                srt = x.var_sort(i)
                if srt == Ref:
                    doms.append(refs)
                elif srt == z3.IntSort():
                    doms.append([z3.IntVal(v) for v in range(lo, hi + 1)])
                else:
                    raise ValueError('cannot ground sort %s' % srt)
            body = x.body()
            insts = []
            import itertools
            for combo in itertools.product(*doms):
                # de Bruijn: var 0 is the LAST bound variable
                insts.append(go(z3.substitute_vars(body, *reversed(combo))))
            r = z3.And(insts) if x.is_forall() else z3.Or(insts)
        elif z3.is_app(x) and x.num_args() > 0:
            ch = [go(a) for a in x.children()]
            r = x.decl()(*ch)
        else:
            r = x
        cache[k] = r
        return r
    return go(e)


def ground_query(assumptions, goal, axioms, n_refs=None, lo=-1, hi=7):
    return ground_assertions(list(axioms) + list(assumptions) + [z3.Not(goal)], n_refs, lo, hi)


def ground_assertions(fs, n_refs=None, lo=-1, hi=7):
    if n_refs is None:
        cs = {}
        for f in fs:
            _ref_consts(f, cs)
        n_refs = min(len(cs) + 2, 48)
    refs = [z3.Const('g!%d' % i, Ref) for i in range(n_refs)]
    s = z3.Solver()
    s.add(z3.Distinct(*(refs + [NONE])))
    try:
        for f in fs:
            s.add(ground(f, refs + [NONE], lo, hi))
    except ValueError:
        return None
    # every Ref-sorted constant of the query denotes an element of the finite universe
    consts = {}
    for f in fs:
        _ref_consts(f, consts)
    for cst in consts.values():
        s.add(z3.Or([cst == r for r in refs + [NONE]]))
    return s.to_smt2()


def _ref_consts(e, acc, seen=None):
    seen = seen if seen is not None else set()
    stack = [e]
    while stack:
        x = stack.pop()
        k = x.get_id()
        if k in seen:
            continue
        seen.add(k)
        if z3.is_quantifier(x):
            stack.append(x.body())
            continue
        if z3.is_const(x) and x.sort() == Ref and x.decl().kind() == z3.Z3_OP_UNINTERPRETED:
            acc[x.decl().name()] = x
        stack.extend(x.children())


# ------------------------------------------------------------------ driver
_POOL = None


def start_pool(procs=None):
    """Create the worker pool early, before the parent accumulates z3 state (cheap forks)."""
    global _POOL
    if _POOL is None:
        procs = procs or int(os.environ.get('PYVC_PROCS', '0')) or min(16, os.cpu_count() or 4)
        _POOL = mp.get_context('fork').Pool(procs, initializer=_limit_memory)
    return _POOL


def stop_pool():
    global _POOL
    if _POOL is not None:
        _POOL.terminate()
        _POOL = None


class Result:
    def __init__(self, ob, res):
        self.ob = ob
        self.name = ob.name
        self.tags = ob.tags
        self.kind = ob.kind
        self.result = res['result']
        self.backend = res['backend']
        self.seconds = res['seconds']
        self.model = res.get('model')
        self.reason = res.get('reason', '')
        self.smt2_head = res.get('smt2_head', '')

    @property
    def status(self):
        if self.kind == 'cover':
            return 'covered' if self.result in ('sat', 'unknown') else ('vacuous' if self.result == 'unsat' else 'error')
        if self.result == 'unsat':
            return 'discharged'
        if self.result == 'sat':
            return 'refuted'
        if self.result == 'error':
            return 'error'
        return 'undecided'


def solve_all(obligations, const_axioms, timeout_ms=10000, procs=None, seed=0, do_ground=True):
    tasks = []
    metas = []
    for i, ob in enumerate(obligations):
        axioms = list(ob.axioms) + list(const_axioms)
        if ob.kind == 'cover':
            txt = to_smt2(ob.assumptions, z3.BoolVal(False), axioms)
            tasks.append((i, txt, min(timeout_ms, 3000), 'cover', None, seed))
        else:
            if z3.is_true(ob.goal):
                metas.append((i, {'idx': i, 'backend': 'syntactic', 'result': 'unsat', 'seconds': 0.0}))
                continue
            txt = to_smt2(ob.assumptions, ob.goal, axioms)
            g = True if (do_ground and _has_quant_text(txt)) else None
            tasks.append((i, txt, timeout_ms, 'reach' if z3.is_false(z3.simplify(ob.goal)) else 'prove', g, seed))
    results = dict(metas)
    heads = {t[0]: t[1] for t in tasks}
    if tasks:
        if len(tasks) == 1 or _POOL is None:
            outs = [_solve_one(t) for t in tasks]
        else:
            outs = _POOL.map(_solve_one, tasks, chunksize=1)
        for o in outs:
            results[o['idx']] = o
        # an `unknown` is a wall-clock verdict: it may only mean that the machine was busy.  Before it is reported,
        # the obligation is solved again, alone (no sibling queries competing for the cores), with four times the
        # budget.  More than a handful of unknowns means the tree itself changed: those are not all retried.
        by_idx = {t[0]: t for t in tasks}
        again = [i for i, o in sorted(results.items()) if o.get('result') == 'unknown' and i in by_idx
                 and by_idx[i][3] in ('prove', 'reach')][:4]
        for i in again:
            idx, txt, tmo, kind, g, sd = by_idx[i]
            t0 = time.time()
            try:
                sv, r = _z3_check(txt, tmo * 3, sd + 7)
            except Exception:
                continue
            if r == z3.unsat:
                results[i] = dict(results[i], result='unsat', backend='z3 (retried alone)', reason='',
                                  seconds=round(results[i].get('seconds', 0) + time.time() - t0, 3))
            elif r == z3.sat:
                results[i] = dict(results[i], result='sat', backend='z3 (retried alone)', model=_model_text(sv.model()),
                                  seconds=round(results[i].get('seconds', 0) + time.time() - t0, 3))
    final = []
    for i, ob in enumerate(obligations):
        r = results[i]
        r['smt2_head'] = heads.get(i, '')[-1500:] if i in heads else ''
        final.append(Result(ob, r))
    return final
