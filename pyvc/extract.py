"""Source extraction: the verified text is the code that runs.

Every run re-reads $MIROS_REPO/miros/*.py (default /repo), parses it with `ast`
and indexes classes, functions (by structural path), namedtuple declarations and
literal constant tables.  Nothing of miros is copied into /verif.
"""
import ast
import hashlib
import os

REPO = os.environ.get('MIROS_REPO', '/repo')
MODULES = ['hsm', 'activeobject', 'event', 'singleton', 'thread_safe_attributes']


class SourceError(Exception):
    """A miros module is missing or does not parse (checker error, exit 3)."""


class FuncInfo:
    def __init__(self, path, node, module, cls, parent):
        self.path = path          # e.g. 'hsm.HsmEventProcessor.dispatch'
        self.node = node          # ast.FunctionDef
        self.module = module
        self.cls = cls            # name of enclosing class or None
        self.parent = parent      # FuncInfo of enclosing function or None
        self.nested = {}          # name -> FuncInfo

    @property
    def name(self):
        return self.node.name

    def span(self):
        return (self.node.lineno, self.node.end_lineno)


class ClassInfo:
    def __init__(self, name, node, module):
        self.name = name
        self.node = node
        self.module = module
        self.bases = []           # base class names (as written)
        self.methods = {}         # name -> FuncInfo
        self.attrs = {}           # class-level simple assignments: name -> ast expr
        self.nested_classes = {}


class Source:
    def __init__(self, repo=None):
        self.repo = repo or REPO
        self.text = {}
        self.tree = {}
        self.funcs = {}           # path -> FuncInfo
        self.classes = {}         # name -> ClassInfo   (class names are unique across miros)
        self.module_funcs = {}    # module -> name -> FuncInfo
        self.module_assigns = {}  # module -> name -> ast expr   (module-level simple assignments)
        self.namedtuples = {}     # name-as-bound -> (typename, [fields])
        self.sha = {}
        for m in MODULES:
            p = os.path.join(self.repo, 'miros', m + '.py')
            try:
                with open(p, encoding='utf-8') as f:
                    txt = f.read()
                tree = ast.parse(txt, filename=p)
            except (OSError, SyntaxError) as ex:
                raise SourceError('%s: %s' % (p, ex))
            self.text[m] = txt
            self.tree[m] = tree
            self.sha[m] = hashlib.sha256(txt.encode()).hexdigest()
            self.module_funcs[m] = {}
            self.module_assigns[m] = {}
            self._index_module(m, tree)

    # ------------------------------------------------------------------
    def _index_module(self, m, tree):
        for st in tree.body:
            if isinstance(st, ast.FunctionDef):
                fi = self._index_func(m + '.' + st.name, st, m, None, None)
                self.module_funcs[m][st.name] = fi
            elif isinstance(st, ast.ClassDef):
                self._index_class(m, st, m)
            elif isinstance(st, ast.Assign) and len(st.targets) == 1 and isinstance(st.targets[0], ast.Name):
                self.module_assigns[m][st.targets[0].id] = st.value
                self._maybe_namedtuple(st.targets[0].id, st.value)

    def _maybe_namedtuple(self, bound, value):
        if isinstance(value, ast.Call) and isinstance(value.func, ast.Name) and value.func.id == 'namedtuple' \
                and len(value.args) >= 2 and isinstance(value.args[1], (ast.List, ast.Tuple)):
            try:
                fields = [ast.literal_eval(e) for e in value.args[1].elts]
                self.namedtuples[bound] = (ast.literal_eval(value.args[0]), fields)
            except Exception:
                pass

    def _index_class(self, prefix, node, m):
        ci = ClassInfo(node.name, node, m)
        for b in node.bases:
            if isinstance(b, ast.Name):
                ci.bases.append(b.id)
            elif isinstance(b, ast.Attribute):
                ci.bases.append(b.attr)
        self.classes[node.name] = ci
        for st in node.body:
            if isinstance(st, ast.FunctionDef):
                fi = self._index_func(prefix + '.' + node.name + '.' + st.name, st, m, node.name, None)
                ci.methods[st.name] = fi
            elif isinstance(st, ast.Assign) and len(st.targets) == 1 and isinstance(st.targets[0], ast.Name):
                ci.attrs[st.targets[0].id] = st.value
            elif isinstance(st, ast.ClassDef):
                ci.nested_classes[st.name] = self._index_class(prefix + '.' + node.name, st, m)
        return ci

    def _index_func(self, path, node, m, cls, parent):
        fi = FuncInfo(path, node, m, cls, parent)
        self.funcs[path] = fi
        for sub in ast.walk(node):
            # namedtuple declarations made inside functions (self.X = namedtuple(...))
            if isinstance(sub, ast.Assign) and len(sub.targets) == 1:
                t = sub.targets[0]
                nm = t.id if isinstance(t, ast.Name) else (t.attr if isinstance(t, ast.Attribute) else None)
                if nm:
                    self._maybe_namedtuple(nm, sub.value)
        self._index_nested(fi, node.body, m, cls)
        return fi

    def _index_nested(self, fi, body, m, cls):
        for st in body:
            if isinstance(st, ast.FunctionDef):
                sub = self._index_func(fi.path + '.' + st.name, st, m, cls, fi)
                fi.nested[st.name] = sub
            elif isinstance(st, (ast.If, ast.While, ast.For, ast.With, ast.Try)):
                for fld in ('body', 'orelse', 'finalbody'):
                    self._index_nested(fi, getattr(st, fld, []) or [], m, cls)
                for h in getattr(st, 'handlers', []) or []:
                    self._index_nested(fi, h.body, m, cls)

    # ------------------------------------------------------------------
    def mro(self, cname):
        """C3 is overkill here: miros uses single inheritance plus one mixin pair;
        we compute the linearisation Python would (left-to-right depth first,
        duplicates keep their last position)."""
        out = []

        def walk(c):
            res = [c]
            ci = self.classes.get(c)
            if ci:
                for b in ci.bases:
                    res += walk(b)
            return res
        seq = walk(cname)
        for i, c in enumerate(seq):
            if c not in seq[i + 1:]:
                out.append(c)
        return out

    def find_method(self, cname, mname, after=None):
        """Resolve a method through the MRO of cname; `after` = start after that class (super())."""
        mro = self.mro(cname)
        if after is not None:
            if after in mro:
                mro = mro[mro.index(after) + 1:]
            else:
                mro = self.mro(after)[1:]
        for c in mro:
            ci = self.classes.get(c)
            if ci and mname in ci.methods:
                return ci.methods[mname]
        return None

    def find_class_attr(self, cname, aname):
        for c in self.mro(cname):
            ci = self.classes.get(c)
            if ci and aname in ci.attrs:
                return ci.attrs[aname], c
        return None, None

    def init_attrs(self, cname):
        """Names assigned as self.<name> in the __init__ chain of cname (attribute definedness)."""
        names = set()
        for c in self.mro(cname):
            ci = self.classes.get(c)
            if not ci:
                continue
            init = ci.methods.get('__init__')
            if init:
                for n in ast.walk(init.node):
                    if isinstance(n, ast.Attribute) and isinstance(n.ctx, ast.Store) \
                            and isinstance(n.value, ast.Name) and n.value.id == 'self':
                        names.add(n.attr)
                # methods called from __init__ on self (init_rtc) contribute too
                for n in ast.walk(init.node):
                    if isinstance(n, ast.Call) and isinstance(n.func, ast.Attribute) \
                            and isinstance(n.func.value, ast.Name) and n.func.value.id == 'self':
                        fi = self.find_method(cname, n.func.attr)
                        if fi:
                            for k in ast.walk(fi.node):
                                if isinstance(k, ast.Attribute) and isinstance(k.ctx, ast.Store) \
                                        and isinstance(k.value, ast.Name) and k.value.id == 'self':
                                    names.add(k.attr)
        return names

    def literal_table(self, cname):
        """self['NAME'] = <int> assignments in cname.__init__, in source order (signals, statuses)."""
        ci = self.classes[cname]
        out = []
        for st in ci.methods['__init__'].node.body:
            if isinstance(st, ast.Assign) and len(st.targets) == 1 and isinstance(st.targets[0], ast.Subscript):
                t = st.targets[0]
                if isinstance(t.value, ast.Name) and t.value.id == 'self':
                    try:
                        out.append((ast.literal_eval(t.slice), ast.literal_eval(st.value)))
                    except Exception:
                        raise SourceError('non-literal entry in %s.__init__' % cname)
        return out

    def func_sha(self, path):
        fi = self.funcs[path]
        seg = ast.get_source_segment(self.text[fi.module], fi.node) or ''
        return hashlib.sha256(seg.encode()).hexdigest()

    def describe(self, path):
        fi = self.funcs[path]
        return {'function': path, 'file': 'miros/%s.py' % fi.module, 'lines': list(fi.span()),
                'sha256': self.func_sha(path)[:16]}


def loops_of(funcnode):
    """While/For statements of a function in source order, not descending into nested defs."""
    out = []

    def walk(body):
        for st in body:
            if isinstance(st, ast.FunctionDef):
                continue
            if isinstance(st, (ast.While, ast.For)):
                out.append(st)
            for fld in ('body', 'orelse', 'finalbody'):
                sub = getattr(st, fld, None)
                if sub:
                    walk(sub)
            for h in getattr(st, 'handlers', []) or []:
                walk(h.body)
    walk(funcnode.body)
    return out


def loop_shape(st):
    """(hash of the loop statement with every bare name replaced by its order of first occurrence, the names in that
    order).  Attribute names, constants and structure are kept: two loops have the same shape iff they are the same
    code up to a consistent renaming of local variables / parameters."""
    import copy
    import hashlib
    names = []
    node = copy.deepcopy(st)
    for n in ast.walk(node):
        if isinstance(n, ast.Name):
            if n.id not in names:
                names.append(n.id)
            n.id = 'v%d' % names.index(n.id)
        elif isinstance(n, ast.arg):
            if n.arg not in names:
                names.append(n.arg)
            n.arg = 'v%d' % names.index(n.arg)
    txt = ast.dump(node, annotate_fields=False, include_attributes=False)
    return hashlib.sha1(txt.encode()).hexdigest()[:16], names


def loop_header_shape(st):
    """Shape of the loop header only (kind, test or target/iterable), names normalised within the header."""
    import copy
    import hashlib
    if isinstance(st, ast.While):
        parts = [copy.deepcopy(st.test)]
        kind = 'while'
    else:
        parts = [copy.deepcopy(st.target), copy.deepcopy(st.iter)]
        kind = 'for'
    names = []
    for p in parts:
        for n in ast.walk(p):
            if isinstance(n, ast.Name):
                if n.id not in names:
                    names.append(n.id)
                n.id = 'v%d' % names.index(n.id)
    txt = kind + '|' + '|'.join(ast.dump(p, annotate_fields=False, include_attributes=False) for p in parts)
    return hashlib.sha1(txt.encode()).hexdigest()[:16]
