"""AST interpreter over a symbolic Ctx (one path at a time; forks by re-execution)."""
import ast
import z3

from .sym import (Ctx, Frame, SInt, SBool, SRef, SFunc, SClass, SModule, SBuiltin, SSuper, Unsupported, PathEnd,
                  ReturnSignal, BreakSignal, ContinueSignal, Raised, Ref, NONE, sval, name_of, field_sort,
                  FIELD_PYTYPE, is_sym, unbox, box)
from .extract import loops_of
from . import builtins as B

VALUE_EQ = {'str', 'datetime', 'uuid'}
IDENTITY_EQ = {'state', 'fn', 'Thread', 'ThreadEvent', 'LockingDeque', 'Attribute', 'Queue', 'PriorityQueue',
               'RLock', 'class', None}


class AliasEnv(dict):
    """A frame environment that records which names are read (to learn which locals a sidecar invariant mentions)
    and in which the sidecar's names for locals resolve to the (renamed) locals of the code."""
    def __init__(self, base, renaming=None):
        dict.__init__(self, base)
        self._ren = renaming or {}
        self.reads = set()

    def _k(self, k):
        self.reads.add(k)
        return self._ren.get(k, k)

    def __getitem__(self, k):
        return dict.__getitem__(self, self._k(k))

    def __setitem__(self, k, v):
        dict.__setitem__(self, self._k(k), v)

    def __contains__(self, k):
        return dict.__contains__(self, self._k(k))

    def get(self, k, d=None):
        return dict.get(self, self._k(k), d)

    def setdefault(self, k, d=None):
        return dict.setdefault(self, self._k(k), d)


class YieldSignal(Exception):
    def __init__(self, value):
        self.value = value


class Interp:
    def __init__(self, ctx):
        self.c = ctx
        self.w = ctx.world
        self.src = ctx.src
        self.depth = 0
        self.callsite = ''

    # ================================================================ statements
    def exec_block(self, stmts):
        for st in stmts:
            self.exec_stmt(st)

    def exec_stmt(self, st):
        m = getattr(self, 'st_' + type(st).__name__, None)
        if m is None:
            raise Unsupported('statement %s at line %d' % (type(st).__name__, st.lineno))
        m(st)

    def st_Pass(self, st):
        pass

    def st_Global(self, st):
        pass

    def st_Expr(self, st):
        if isinstance(st.value, ast.Constant):
            return                      # docstring / bare string: dropped
        if isinstance(st.value, ast.Yield):
            v = self.eval(st.value.value) if st.value.value is not None else None
            raise YieldSignal(v)
        self.eval(st.value)

    def st_Assign(self, st):
        v = self.eval(st.value)
        for t in st.targets:
            self.assign(t, v)

    def assign(self, t, v):
        c = self.c
        if isinstance(t, ast.Name):
            if isinstance(v, SRef):
                fr = c.frames[-1]
                if isinstance(fr.func, SFunc):
                    lt = self.w.local_types.get((fr.func.info.path, t.id))
                    if lt:
                        v = SRef(v.e, lt)
            c.env[t.id] = v
        elif isinstance(t, (ast.Tuple, ast.List)):
            vs = self.unpack(v, len(t.elts))
            for tt, vv in zip(t.elts, vs):
                self.assign(tt, vv)
        elif isinstance(t, ast.Attribute):
            obj = self.eval(t.value)
            self.set_attr(obj, t.attr, v)
        elif isinstance(t, ast.Subscript):
            obj = self.eval(t.value)
            idx = self.eval(t.slice)
            B.setitem(self, obj, idx, v)
        else:
            raise Unsupported('assignment target %s' % type(t).__name__)

    def unpack(self, v, n):
        if isinstance(v, tuple):
            if len(v) != n:
                raise Unsupported('tuple arity')
            return list(v)
        if isinstance(v, SRef) and v.pytype == 'tuple':
            return [SRef(self.c.hget(v, '$t%d' % i), None) for i in range(n)]
        raise Unsupported('unpacking %r' % (v,))

    def check_guard(self, obj, attr, how):
        """Lock discipline: a field declared guarded_by(lock) may only be touched with the lock held, and a test
        followed by a write must lie in ONE critical section."""
        key = (obj.pytype, attr)
        if key not in self.w.guarded or getattr(self, 'guard_off', False):
            return
        if how == 'read' and key in getattr(self.w, 'guarded_read_relaxed', ()):
            return          # a lone read whose value is only returned is its own linearisation point
        c = self.c
        lockattr = self.w.guarded[key]
        where = self.where()
        if lockattr is None or lockattr not in self.src.init_attrs(obj.pytype):
            c.prove('%s:guarded/%s-of-%s-without-any-lock' % (where, how, attr), z3.BoolVal(False), tags=('lock',),
                    assume_after=False)
            return
        lock = SRef(c.hget(obj, lockattr), 'RLock')
        held, ep = c.hget(lock, 'held'), c.hget(lock, 'epoch')
        c.prove('%s:guarded/%s-of-%s-holds-%s' % (where, how, attr, lockattr), held > 0, tags=('lock',),
                assume_after=False)
        k = ('rd_epoch', obj.e.sexpr(), attr)
        if how == 'read':
            c.pyghost[k] = ep
        elif k in c.pyghost:
            c.prove('%s:atomic/test-and-set-of-%s-in-one-critical-section' % (where, attr), ep == c.pyghost[k],
                    tags=('lock',), assume_after=False)

    def set_attr(self, obj, attr, v):
        c = self.c
        if isinstance(obj, SRef) and obj.pytype in self.src.classes:
            self.check_guard(obj, attr, 'write')
        if isinstance(obj, SRef):
            if field_sort(attr) == Ref and isinstance(v, SFunc) and v.bound is None and v.info.parent is None \
                    and attr in ('state_fn',):
                pass
            c.write(obj, attr, v)
            c.world_set_attrs = getattr(c, 'world_set_attrs', set())
            c.world_set_attrs.add((obj.e.sexpr(), attr))
            # remember python-side values that the heap cannot carry (closures)
            if isinstance(v, SFunc):
                c.world.funcref(v)
            return
        if isinstance(obj, SFunc) and attr == '__name__':
            # fn.__name__ = name
            c.assume(name_of(self.w.funcref(obj)) == c.to_ref(v))
            return
        raise Unsupported('attribute store on %r' % (obj,))

    def st_AugAssign(self, st):
        cur = self.eval(_as_load(st.target))
        rhs = self.eval(st.value)
        v = self.binop(type(st.op), cur, rhs)
        self.assign(st.target, v)

    def st_If(self, st):
        cond = self.truth(self.eval(st.test))
        if self.c.branch(cond, 'if@%d' % st.lineno):
            self.exec_block(st.body)
        else:
            self.exec_block(st.orelse)

    def st_Return(self, st):
        raise ReturnSignal(self.eval(st.value) if st.value is not None else None)

    def st_Break(self, st):
        raise BreakSignal()

    def st_Continue(self, st):
        raise ContinueSignal()

    def st_Raise(self, st):
        kind = 'Exception'
        e = st.exc
        if isinstance(e, ast.Call):
            # arguments are evaluated (format calls etc.) but only the class matters
            f = e.func
            kind = f.id if isinstance(f, ast.Name) else getattr(f, 'attr', 'Exception')
            if self._is_exception_class(kind):
                for a in e.args:
                    self.eval(a)
            else:
                # raise helper(...): a function of the source that builds the exception object
                kind = self._exception_built_by(e)
        elif isinstance(e, ast.Name):
            kind = e.id
        elif isinstance(e, ast.Constant):
            kind = 'TypeError'     # raise("text") : exceptions must derive from BaseException
        raise Raised(kind)

    def _is_exception_class(self, name):
        import builtins
        b = getattr(builtins, name, None)
        if isinstance(b, type) and issubclass(b, BaseException):
            return True
        seen = set()
        todo = [name]
        while todo:
            c = todo.pop()
            if c in seen:
                continue
            seen.add(c)
            ci = self.src.classes.get(c)
            if ci is None:
                b = getattr(builtins, c, None)
                if isinstance(b, type) and issubclass(b, BaseException):
                    return True
                continue
            todo.extend(ci.bases)
        # names imported from the standard library (queue.Full, queue.Empty, ...) that are not classes of the source
        return name not in self.src.classes and self.src_function_named(name) is None

    def src_function_named(self, name):
        try:
            v = self.c.lookup(name)
        except Exception:
            return None
        return v if isinstance(v, SFunc) else None

    def _exception_built_by(self, call):
        """`raise f(...)` where f is a function of the source: run it, it must end in `return <ExceptionClass>(...)`."""
        fn = self.src_function_named(call.func.id) if isinstance(call.func, ast.Name) else None
        if fn is None:
            raise Unsupported('raise of the result of %s' % ast.dump(call.func)[:80])
        for a in call.args:
            self.eval(a)
        rets = [n for n in ast.walk(fn.info.node) if isinstance(n, ast.Return)]
        kinds = set()
        for r in rets:
            v = r.value
            if isinstance(v, ast.Call):
                nm = v.func.id if isinstance(v.func, ast.Name) else getattr(v.func, 'attr', None)
                if nm and self._is_exception_class(nm):
                    for a in v.args:
                        pass
                    kinds.add(nm)
                    continue
            kinds.add(None)
        if len(kinds) != 1 or None in kinds:
            raise Unsupported('raise %s(...): the helper does not simply return one exception class' % fn.info.name)
        return kinds.pop()

    def st_Assert(self, st):
        cond = self.truth(self.eval(st.test))
        if self.c.branch(cond, 'assert@%d' % st.lineno):
            return
        raise Raised('AssertionError')

    def st_FunctionDef(self, st):
        fr = self.c.frames[-1]
        f = fr.func
        info = f.info.nested.get(st.name) if isinstance(f, SFunc) else None
        if info is None:
            raise Unsupported('nested def %s not indexed' % st.name)
        closure = [fr.env] + (list(f.closure) if f.closure else [])
        fn = SFunc(info, closure, None, fr.defcls)
        fn = self.apply_decorators(st, fn)
        self.c.env[st.name] = fn

    def apply_decorators(self, st, fn):
        for d in reversed(st.decorator_list):
            if isinstance(d, ast.Call) and isinstance(d.func, ast.Name) and d.func.id == 'wraps':
                fn.wrapped = self.eval(d.args[0])
                self.w.dropped.add('functools.wraps (identity on behaviour; copies __name__)')
                if isinstance(fn.wrapped, SFunc) and self.c.frames and len(self.c.frames) > 1:
                    self.c.assumptions.append(name_of(self.w.funcref(fn)) == name_of(self.w.funcref(fn.wrapped)))
                elif isinstance(fn.wrapped, SRef):
                    self.c.assumptions.append(name_of(self.w.funcref(fn)) == name_of(fn.wrapped.e))
                continue
            if isinstance(d, ast.Name) and d.id in ('staticmethod', 'contextmanager'):
                setattr(fn, d.id, True)
                continue
            dv = self.eval(d)
            fn = self.call_value(dv, [fn], {}, st)
        return fn

    def st_Try(self, st):
        if st.finalbody:
            raise Unsupported('try/finally')
        try:
            self.exec_block(st.body)
        except Raised as r:
            for h in st.handlers:
                if self.handler_matches(h, r.kind):
                    if h.name:
                        self.c.env[h.name] = SRef(self.c.fresh('exc', Ref), 'exc:' + r.kind)
                    self.exec_block(h.body)
                    return
            raise
        else:
            self.exec_block(st.orelse)

    def handler_matches(self, h, kind):
        if h.type is None:
            return True
        names = []
        if isinstance(h.type, ast.Name):
            names = [h.type.id]
        elif isinstance(h.type, ast.Tuple):
            names = [e.id for e in h.type.elts if isinstance(e, ast.Name)]
        if 'Exception' in names or 'BaseException' in names:
            return True
        return kind in names

    def st_With(self, st):
        if len(st.items) != 1:
            raise Unsupported('with: several items')
        item = st.items[0]
        call = item.context_expr
        if not isinstance(call, ast.Call):
            v = self.eval(call)
            if isinstance(v, SRef) and v.pytype == 'RLock' and item.optional_vars is None:
                B.lock_call(self, v, 'acquire')
                try:
                    self.exec_block(st.body)
                finally:
                    B.lock_call(self, v, 'release')
                return
            if isinstance(v, SRef) and v.pytype == 'Lock' and item.optional_vars is None:
                self.w.dropped.add('with <queue>.mutex: (mutual exclusion of one statement; no effect on sequential state)')
                self.exec_block(st.body)
                return
            raise Unsupported('with on a non-call')
        fv, args, kwargs = self.eval_callee_and_args(call)
        if not (isinstance(fv, SFunc) and getattr(fv, 'contextmanager', False)):
            raise Unsupported('with on something that is not a miros @contextmanager')
        _check_yield_last(fv.info.node)
        try:
            self.call_func(fv, args, kwargs, inline=True, want_yield=True)
            raise Unsupported('context manager did not yield')
        except YieldSignal as y:
            if item.optional_vars is not None:
                self.assign(item.optional_vars, y.value)
        self.exec_block(st.body)

    # ---------------------------------------------------------------- loops
    def loop_key(self, node):
        fr = self.c.frames[-1]
        f = fr.func
        loops = loops_of(f.info.node)
        for i, l in enumerate(loops):
            if l is node:
                return f.info.path, i + 1
        raise Unsupported('loop not found')

    def reattach_loop_spec(self, st, path, ordinal):
        shapes = self.w.loop_shapes()
        if not shapes:
            return None
        from .extract import loop_shape
        sh, names = loop_shape(st)
        cands = [k for k, v in shapes.items() if v['shape'] == sh and self._lkey(k) in self.w.loopspecs]
        if not cands:
            return None
        on_stack = [fr.func.info.path for fr in self.c.frames if isinstance(fr.func, SFunc)]
        pref = [k for k in cands if self._lkey(k)[0] in on_stack]
        if len(pref) == 1:
            cands = pref
        if len(cands) != 1:
            return None
        okey = self._lkey(cands[0])
        # an invariant belongs to ONE loop: when the loop it was written for is still where it was, another loop that
        # merely looks the same (same code up to renaming) has no claim on it
        ofi = self.src.funcs.get(okey[0])
        if ofi is not None:
            oloops = loops_of(ofi.node)
            if okey[1] <= len(oloops) and oloops[okey[1] - 1] is not st and loop_shape(oloops[okey[1] - 1])[0] == sh:
                return None
        onames = shapes[cands[0]]['names']
        if len(onames) != len(names):
            return None
        renaming = {o: n for o, n in zip(onames, names) if o != n}
        return self.w.loopspecs[okey], okey, renaming

    @staticmethod
    def _lkey(k):
        p, n = k.rsplit('#', 1)
        return (p, int(n))

    def st_While(self, st):
        if st.orelse:
            raise Unsupported('while/else')
        self.run_loop(st, kind='while')

    def st_For(self, st):
        if st.orelse:
            raise Unsupported('for/else')
        if isinstance(st.iter, ast.Tuple):
            # a literal tuple of known length: unrolled, no invariant needed
            for v in self.eval(st.iter):
                self.assign(st.target, v)
                try:
                    self.exec_block(st.body)
                except ContinueSignal:
                    continue
                except BreakSignal:
                    break
            return
        self.run_loop(st, kind='for')

    def run_loop(self, st, kind):
        c = self.c
        path, ordinal = self.loop_key(st)
        spec = self.w.loopspecs.get((path, ordinal))
        env = c.env
        if spec is not None:
            # the sidecar was written for a particular loop: if the loop found at this position has another header
            # (another kind of loop, another test) the function was restructured and the invariant is not attached
            snap = self.w.loop_shapes().get('%s#%d' % (path, ordinal))
            if snap is not None and snap.get('header'):
                from .extract import loop_header_shape
                if loop_header_shape(st) != snap['header']:
                    spec = None
        if spec is None:
            # the loop may have been moved (unchanged up to renaming) out of the function the sidecar names
            found = self.reattach_loop_spec(st, path, ordinal)
            if found is None:
                raise Unsupported('loop %s#%d has no sidecar invariant (none was written for it, or the loop was '
                                  'restructured)' % (path, ordinal))
            spec, okey, renaming = found
            self.w.dropped.add('loop invariant of %s#%d re-attached to the same loop found in %s (shape equal up to '
                               'renaming of locals)' % (okey[0], okey[1], path))
            # the sidecar's names for the locals (and for the iteration counter of its ordinal) keep working
            renaming = dict(renaming)
            for pre in ('$k', '$it'):
                renaming[pre + str(okey[1])] = pre + str(ordinal)
            for frm in c.frames[:-1]:
                # the locals of the callers stay visible to the sidecar under their own names (the loop used to be there)
                for k_, v_ in frm.env.items():
                    if k_ not in env and k_ not in renaming:
                        env.setdefault('$outer:' + k_, v_)
                        renaming.setdefault(k_, '$outer:' + k_)
            env = AliasEnv(env, renaming)
            c.frames[-1].env = env
            path_for_name, ord_for_name = okey
        else:
            path_for_name, ord_for_name = path, ordinal
        lname = '%s:loop%d' % (path_for_name.split('.', 1)[1], ord_for_name)
        if not isinstance(env, AliasEnv):
            env = AliasEnv(env)
            c.frames[-1].env = env
        assigned_in_body = _assigned_names(st.body)

        def clauses():
            # a clause tagged 'if-assigned:<local>' speaks about a loop-carried flag of the code the sidecar was written
            # for; when the loop no longer assigns that local the clause has nothing to say
            out = []
            for nm, f, *tg in spec.invariant(self, env):
                tags = tg[0] if tg else ()
                cond = [t.split(':', 1)[1] for t in tags if isinstance(t, str) and t.startswith('if-assigned:')]
                if any(x not in assigned_in_body for x in cond):
                    continue
                out.append((nm, f, tuple(t for t in tags if not (isinstance(t, str) and t.startswith('if-assigned:')))))
            return out
        it_state = None
        if kind == 'for':
            it_state = B.for_setup(self, st, env)          # evaluates the iterable once; sets env['$k<ord>']
            kname = '$k%d' % ordinal
            env[kname] = 0
            env['$it%d' % ordinal] = it_state
        if getattr(spec, 'on_entry', None):
            spec.on_entry(self, env)
        # which locals does the sidecar invariant mention?  A local that is carried from one iteration to the next
        # (read before it is written) but not mentioned is a flag the sidecar does not know (a refactoring may have
        # introduced it): the first iteration is then executed as it is (peeled), and from the second iteration on
        # the local is taken to keep its value -- as an obligation of its own ('auto').
        env.reads.clear()
        first = clauses()
        mentioned = set(env.reads)
        carried = []
        if kind == 'while':
            for nm in sorted(assigned_in_body):
                if nm in env and not nm.startswith('$') and nm not in mentioned and nm not in spec.locals_kind \
                        and isinstance(env[nm], (bool, SBool)) and _read_before_write(st, nm) \
                        and (lname, nm) not in self.w.disabled_auto:
                    carried.append(nm)
        if carried:
            self.w.dropped.add('loop %s: first iteration peeled, locals %s taken as stable from the second iteration on '
                               '(obligations tagged auto)' % (lname, ', '.join(carried)))
            cond = self.truth(self.eval(st.test))
            if not c.branch(cond, 'while%d-first' % ordinal):
                if getattr(spec, 'on_exit', None):
                    spec.on_exit(self, env)
                return
            try:
                try:
                    self.exec_block(st.body)
                except ContinueSignal:
                    pass
            except BreakSignal:
                if getattr(spec, 'on_exit', None):
                    spec.on_exit(self, env)
                return
            first = clauses()
        # 1. invariant on entry (after the peeled iteration, if any)
        for nm, f, tg in first:
            c.prove('%s:inv-init/%s' % (lname, nm), f, tags=tg)
        # 2. havoc
        assigned = set(assigned_in_body) - set(carried)
        stable0 = {nm: env[nm] for nm in carried}
        # with a peeled first pass, integer ghost counters the loop may change are taken as never falling below what
        # the first pass left (again as obligations of their own)
        floor0 = {}
        if carried:
            for gname in getattr(spec, 'ghost_modifies', []) or []:
                if gname in c.ghost and z3.is_int(c.ghost[gname]) and (lname, gname) not in self.w.disabled_auto_ghosts:
                    floor0[gname] = c.ghost[gname]
        if kind == 'for':
            assigned |= _target_names(st.target)
            assigned.add('$k%d' % ordinal)
        mods = spec.modifies(self, env) if spec.modifies else []
        mods = list(mods) + [('*', f) for f in (getattr(spec, 'heap_fields_modified', []) or [])]
        if getattr(self.w, 'extra_mods', None) and path.startswith('hsm.HsmEventProcessor.'):
            # loops of the core call state functions; spy-decorated ones write the instrumentation fields
            mods += [m for m in self.w.extra_mods(self, env) if m[0] is not None]
        for nm in sorted(assigned):
            if nm in env:
                env[nm] = self.havoc_value(nm, env[nm], spec)
            elif nm in spec.locals_kind:
                env[nm] = self.fresh_of_kind(nm, spec.locals_kind[nm])
        pre_heap = dict(c.heap)
        for ref, field in mods:
            if isinstance(ref, str):
                continue
            r = ref.e if isinstance(ref, SRef) else ref
            c.heap[field] = z3.Store(c.harr(field), r, c.fresh('hv_' + field.replace('$', ''), field_sort(field)))
        for fld in getattr(spec, 'heap_fields_modified', []) or []:
            # a whole field may change at data-dependent objects: the invariant says what is preserved
            c.heap[fld] = c.fresh('hv_all_' + fld.replace('$', ''), c.harr(fld).sort())
        for g in getattr(spec, 'ghost_modifies', []) or []:
            if g in c.ghost:
                c.ghost[g] = c.fresh('g_' + g, c.ghost[g].sort())
        if kind == 'for':
            B.for_havoc(self, st, env, ordinal, it_state)
        for nm, f, tg in clauses():
            c.assume(f)
        for gname, v0_ in floor0.items():
            c.assume(c.ghost[gname] >= v0_)
        if spec.after_havoc:
            spec.after_havoc(self, env)
        v0 = spec.variant(self, env) if spec.variant else None
        # 3. guard
        if kind == 'while':
            cond = self.truth(self.eval(st.test))
            if not c.branch(cond, 'while%d' % ordinal):
                if getattr(spec, 'on_exit', None):
                    spec.on_exit(self, env)
                return                                  # exit by guard from an arbitrary iteration
        else:
            if not B.for_next(self, st, env, ordinal, it_state):
                if getattr(spec, 'on_exit', None):
                    spec.on_exit(self, env)
                return
        # 4. one arbitrary iteration
        saved_log = c.write_log
        c.write_log = []
        saved_fresh = len(c.live_refs)
        c.pyghost[('ghost_head', lname)] = (dict(c.ghost), set(getattr(spec, 'ghost_modifies', []) or []))
        try:
            try:
                self.exec_block(st.body)
            except ContinueSignal:
                pass
        except BreakSignal:
            self.check_loop_frame(lname, mods, saved_log, saved_fresh)
            if getattr(spec, 'on_exit', None):
                spec.on_exit(self, env)
            return
        except (ReturnSignal, Raised):
            self.check_loop_frame(lname, mods, saved_log, saved_fresh)
            raise
        self.check_loop_frame(lname, mods, saved_log, saved_fresh)
        if spec.body_end:
            spec.body_end(self, env)
        for nm, f, tg in clauses():
            c.prove('%s:inv-preserved/%s' % (lname, nm), f, tags=tg)
        for gname, v0_ in floor0.items():
            c.prove('%s:inv-preserved/auto:%s-never-falls-below-what-the-first-pass-left' % (lname, gname),
                    c.ghost[gname] >= v0_, tags=('auto',))
        for nm in carried:
            c.prove('%s:inv-preserved/auto:%s-keeps-its-value-after-the-first-pass' % (lname, nm),
                    self.c.to_bool(self.equal(env[nm], stable0[nm])), tags=('auto',))
        if v0 is not None:
            v1 = spec.variant(self, env)
            if isinstance(v0, tuple):          # (condition, expression): a variant claimed only under the condition
                c.prove('%s:variant/decreases' % lname, z3.Implies(v0[0], z3.And(v0[1] >= 0, v1[1] < v0[1])),
                        tags=('termination',))
            else:
                c.prove('%s:variant/decreases' % lname, z3.And(v0 >= 0, v1 < v0), tags=('termination',))
        raise PathEnd()

    def check_loop_frame(self, lname, mods, saved_log, saved_fresh):
        c = self.c
        head, allowed = c.pyghost.get(('ghost_head', lname), ({}, set()))
        for gname, v0 in head.items():
            if gname in allowed or gname not in c.ghost:
                continue
            if not c.ghost[gname].eq(v0):
                c.prove('%s:frame/ghost-%s' % (lname, gname), c.ghost[gname] == v0, assume_after=False)
        log = c.write_log
        c.write_log = saved_log
        if saved_log is not None:
            saved_log.extend(log)
        fresh = c.live_refs[saved_fresh:]
        self.check_frame(lname, mods, log, fresh)

    def check_frame(self, lname, mods, log, fresh):
        c = self.c
        seen = set()
        for field, ref in log:
            key = (field, ref.sexpr())
            if key in seen:
                continue
            seen.add(key)
            if any(ref.eq(fr) for fr in fresh):
                continue
            if any(isinstance(r, str) and f == field for r, f in mods):
                continue
            allowed = [(r.e if isinstance(r, SRef) else r) for r, f in mods if f == field]
            if any(ref.eq(a) for a in allowed):
                continue
            goal = z3.Or([ref == a for a in allowed] + [ref == fr for fr in fresh]) if (allowed or fresh) \
                else z3.BoolVal(False)
            c.prove('%s:frame/%s' % (lname, field), goal, assume_after=False)

    def havoc_value(self, nm, old, spec):
        c = self.c
        if nm in spec.locals_kind:
            return self.fresh_of_kind(nm, spec.locals_kind[nm])
        if isinstance(old, bool) or isinstance(old, SBool):
            return SBool(c.fresh(nm, z3.BoolSort()))
        if isinstance(old, int) or isinstance(old, SInt):
            return SInt(c.fresh(nm, z3.IntSort()))
        if isinstance(old, SRef):
            return SRef(c.fresh(nm, Ref), old.pytype)
        if old is None:
            return SRef(c.fresh(nm, Ref), None)
        if isinstance(old, str):
            return SRef(c.fresh(nm, Ref), 'str')
        raise Unsupported('cannot havoc local %s = %r' % (nm, old))

    def fresh_of_kind(self, nm, kind):
        c = self.c
        k, pt = kind if isinstance(kind, tuple) else (kind, None)
        if k == 'int':
            return SInt(c.fresh(nm, z3.IntSort()))
        if k == 'bool':
            return SBool(c.fresh(nm, z3.BoolSort()))
        return SRef(c.fresh(nm, Ref), pt)

    # ================================================================ expressions
    def eval(self, e):
        m = getattr(self, 'ev_' + type(e).__name__, None)
        if m is None:
            raise Unsupported('expression %s at line %d' % (type(e).__name__, getattr(e, 'lineno', 0)))
        return m(e)

    def ev_Constant(self, e):
        return e.value

    def ev_Name(self, e):
        if e.id == 'True':
            return True
        if e.id == 'False':
            return False
        if e.id == 'None':
            return None
        try:
            return self.c.lookup(e.id)
        except Unsupported:
            v = self.assigned_function_value(e.id)
            if v is None:
                raise
            return v

    def assigned_function_value(self, name):
        """`name = factory(<constants>)` at module level or in the class body of the running method, where factory is
        a function of the module (a decorator factory, typically): evaluated by running the factory's real body."""
        fr = self.c.frames[-1]
        f = fr.func
        if not isinstance(f, SFunc):
            # decorators are evaluated while a class/module is being set up: look through every module
            mods = list(self.src.module_assigns)
        else:
            mods = [f.info.module] + [m for m in self.src.module_assigns if m != f.info.module]
        cands = []
        for m in mods:
            v = self.src.module_assigns[m].get(name)
            if v is not None:
                cands.append(v)
        for ci in self.src.classes.values():
            v = ci.attrs.get(name)
            if v is not None:
                cands.append(v)
        for v in cands:
            if isinstance(v, ast.Call) and isinstance(v.func, ast.Name) and not v.keywords \
                    and all(isinstance(a, ast.Constant) for a in v.args):
                key = ('assigned_function', name, ast.dump(v))
                if key in self.c.pyghost:
                    return self.c.pyghost[key]
                try:
                    fac = self.c.lookup(v.func.id)
                except Unsupported:
                    continue
                if isinstance(fac, SFunc):
                    out = self.call_func(fac, [a.value for a in v.args], {})
                    self.c.pyghost[key] = out
                    return out
        return None

    def ev_Tuple(self, e):
        return tuple(self.eval(x) for x in e.elts)

    def ev_List(self, e):
        return B.new_list(self, [self.eval(x) for x in e.elts])

    def ev_Dict(self, e):
        d = B.new_dict(self)
        for k, v in zip(e.keys, e.values):
            if k is None:
                raise Unsupported('dict unpacking in a literal')
            B.setitem(self, d, self.eval(k), self.eval(v))
        return d

    def ev_IfExp(self, e):
        cond = self.truth(self.eval(e.test))
        if self.c.branch(cond, 'ifexp@%d' % e.lineno):
            return self.eval(e.body)
        return self.eval(e.orelse)

    def ev_BoolOp(self, e):
        # short-circuit with path splitting (values, not just truth, are returned)
        is_and = isinstance(e.op, ast.And)
        v = None
        for i, x in enumerate(e.values):
            v = self.eval(x)
            if i == len(e.values) - 1:
                return v
            t = self.truth(v)
            taken = self.c.branch(t, 'boolop@%d' % e.lineno)
            if is_and and not taken:
                return v if not is_sym(v) else False
            if (not is_and) and taken:
                return v if not is_sym(v) else True
        return v

    def ev_UnaryOp(self, e):
        v = self.eval(e.operand)
        if isinstance(e.op, ast.Not):
            t = self.truth(v)
            if isinstance(t, bool):
                return not t
            return SBool(z3.Not(t))
        if isinstance(e.op, ast.USub):
            if isinstance(v, int):
                return -v
            return SInt(-self.c.to_int(v))
        raise Unsupported('unary op')

    def ev_BinOp(self, e):
        return self.binop(type(e.op), self.eval(e.left), self.eval(e.right))

    def binop(self, op, a, b):
        c = self.c
        if op in (ast.BitAnd, ast.BitOr):
            if isinstance(a, bool) and isinstance(b, bool):
                return (a and b) if op is ast.BitAnd else (a or b)
            if isinstance(a, (bool, SBool)) and isinstance(b, (bool, SBool)):
                f = z3.And if op is ast.BitAnd else z3.Or
                return SBool(f(c.to_bool(a), c.to_bool(b)))
            raise Unsupported('bit op on non-bools')
        if op in (ast.Add, ast.Sub):
            if isinstance(a, str) and isinstance(b, str) and op is ast.Add:
                return a + b
            if isinstance(a, (str,)) or isinstance(b, (str,)) or (isinstance(a, SRef) and a.pytype == 'str'):
                return B.str_concat(self, a, b)
            if isinstance(a, int) and isinstance(b, int) and not isinstance(a, bool):
                return a + b if op is ast.Add else a - b
            ea, eb = c.to_int(a), c.to_int(b)
            return SInt(ea + eb if op is ast.Add else ea - eb)
        raise Unsupported('binary op %s' % op.__name__)

    def ev_Compare(self, e):
        left = self.eval(e.left)
        res = None
        for op, rx in zip(e.ops, e.comparators):
            right = self.eval(rx)
            r = self.compare(type(op), left, right)
            res = r if res is None else self._and(res, r)
            left = right
        return res

    def _and(self, a, b):
        if isinstance(a, bool) and isinstance(b, bool):
            return a and b
        return SBool(z3.And(self.c.to_bool(a), self.c.to_bool(b)))

    def compare(self, op, a, b):
        c = self.c
        neg = op in (ast.NotEq, ast.IsNot, ast.NotIn)
        if op in (ast.Eq, ast.NotEq):
            r = self.equal(a, b)
        elif op in (ast.Is, ast.IsNot):
            r = self.identical(a, b)
        elif op in (ast.In, ast.NotIn):
            r = B.contains(self, b, a)
        else:
            if isinstance(a, int) and isinstance(b, int):
                r = {ast.Lt: a < b, ast.LtE: a <= b, ast.Gt: a > b, ast.GtE: a >= b}[op]
            else:
                if a is None or b is None:
                    raise Raised('TypeError')
                ea, eb = c.to_int(a), c.to_int(b)
                r = SBool({ast.Lt: ea < eb, ast.LtE: ea <= eb, ast.Gt: ea > eb, ast.GtE: ea >= eb}[op])
        if neg:
            return (not r) if isinstance(r, bool) else SBool(z3.Not(r.e))
        return r

    def identical(self, a, b):
        c = self.c
        if not is_sym(a) and not is_sym(b):
            if isinstance(a, (SFunc, SClass)) or isinstance(b, (SFunc, SClass)):
                if isinstance(a, SFunc) and isinstance(b, SFunc):
                    return a.info is b.info and a.closure == b.closure
                if isinstance(a, SClass) and isinstance(b, SClass):
                    return a.name == b.name
                return False
            if isinstance(a, bool) or isinstance(b, bool):
                return a is b
            if isinstance(a, int) and isinstance(b, int):
                if a != b:
                    return False
                if -5 <= a <= 256:
                    return True    # CPython caches the small ints: equal small ints are one object
                return SBool(c.fresh('same_int_object', z3.BoolSort()))     # equal big ints: maybe, maybe not
            if a is None or b is None:
                return a is b
            if isinstance(a, str) and isinstance(b, str):
                return a == b      # identical literals are interned
            return a is b
        if isinstance(a, (SInt, SBool)) or isinstance(b, (SInt, SBool)):
            if a is None or b is None or isinstance(a, (str, SRef)) or isinstance(b, (str, SRef)):
                return False
            if isinstance(a, (bool, SBool)) and isinstance(b, (bool, SBool)):
                return SBool(c.to_bool(a) == c.to_bool(b))
            if isinstance(a, (bool, SBool)) or isinstance(b, (bool, SBool)):
                return False       # `x is True` with x an int
            # identity of int objects: implies equality; follows from equality only for the cached small ints
            ea, eb = c.to_int(a), c.to_int(b)
            ident = c.fresh('same_int_object', z3.BoolSort())
            c.assume(z3.Implies(ident, ea == eb))
            c.assume(z3.Implies(z3.And(ea == eb, ea >= -5, ea <= 256), ident))
            return SBool(ident)
        # NOTE (stated assumption): state functions are compared as objects.  `chart.top` is a bound method, so two
        # mentions of it are == but not `is`; the core's one identity scan (trans_, topology f) then falls through to
        # topology g, which compares with == and reaches the same result after one ignored EXIT sent to top.  That path
        # is not modelled; identity comparisons of handlers in the query functions are ruled out syntactically (C22).
        return SBool(c.to_ref(a) == c.to_ref(b))

    def equal(self, a, b):
        c = self.c
        if isinstance(a, tuple) and len(a) == 2 and a[0] == 'typeof':
            return B.type_is(self, a[1], b)
        if isinstance(b, tuple) and len(b) == 2 and b[0] == 'typeof':
            return B.type_is(self, b[1], a)
        if not is_sym(a) and not is_sym(b):
            if isinstance(a, (SFunc, SClass)) or isinstance(b, (SFunc, SClass)):
                return self.identical(a, b)
            return a == b
        if isinstance(a, (SInt, SBool, int)) and isinstance(b, (SInt, SBool, int)):
            if isinstance(a, (bool, SBool)) and isinstance(b, (bool, SBool)):
                return SBool(c.to_bool(a) == c.to_bool(b))
            return SBool(c.to_int(a) == c.to_int(b))
        if isinstance(a, (SInt, SBool, int)) or isinstance(b, (SInt, SBool, int)):
            o = b if isinstance(a, (SInt, SBool, int)) else a
            if o is None or isinstance(o, str) or (isinstance(o, SRef) and o.pytype in ('str', 'state', 'fn')):
                return False
            if isinstance(o, SRef) and o.pytype in (None, 'status'):
                # a boxed value compared with an int
                i = a if isinstance(a, (SInt, SBool, int)) else b
                return SBool(z3.And(o.e == box(unbox(o.e)), unbox(o.e) == c.to_int(i)))
            raise Unsupported('== between %r and %r' % (a, b))
        pa = a.pytype if isinstance(a, SRef) else ('str' if isinstance(a, str) else None)
        pb = b.pytype if isinstance(b, SRef) else ('str' if isinstance(b, str) else None)
        ra, rb = c.to_ref(a), c.to_ref(b)
        if a is None or b is None:
            return SBool(ra == rb)
        if pa in VALUE_EQ or pb in VALUE_EQ:
            return SBool(z3.Or(ra == rb, z3.And(ra != NONE, rb != NONE, sval(ra) == sval(rb))))
        if pa in IDENTITY_EQ and pb in IDENTITY_EQ and not (pa is None and pb is None):
            return SBool(ra == rb)
        if pa == 'FabricEvent' or pb == 'FabricEvent':
            return SBool(c.hget(ra, 'priority') == c.hget(rb, 'priority'))
        if pa in ('deque', 'list') or pb in ('deque', 'list'):
            return SBool(B.val_eq(ra, rb))
        if self.identity_eq_type(pa) and self.identity_eq_type(pb):
            return SBool(ra == rb)
        # tuples / namedtuples / dict subclasses (Event is an OrderedDict) compare by content: the same object is
        # equal to itself, two distinct objects may or may not be equal (uninterpreted, so nothing is provable from it)
        return SBool(z3.Or(ra == rb, z3.And(ra != NONE, rb != NONE, B.val_eq(ra, rb))))

    def identity_eq_type(self, pt):
        """Does == on this static type fall back to object identity (no __eq__ anywhere in its MRO)?"""
        if pt in IDENTITY_EQ and pt is not None:
            return True
        if pt in self.src.classes:
            for cn in self.src.mro(pt):
                ci = self.src.classes.get(cn)
                if ci is None:
                    return False        # a base class outside miros (OrderedDict, dict, tuple, ...)
                if '__eq__' in ci.methods:
                    return False
                for b in ci.bases:
                    if b not in self.src.classes and b != 'object':
                        return False
            return True
        return False

    def truth(self, v):
        if isinstance(v, bool):
            return v
        if v is None:
            return False
        if isinstance(v, int):
            return v != 0
        if isinstance(v, str):
            return len(v) > 0
        if isinstance(v, (SFunc, SClass, SModule)):
            return True
        if isinstance(v, tuple):
            return len(v) > 0
        return self.c.to_bool(v)

    def ev_Attribute(self, e):
        obj = self.eval(e.value)
        return self.get_attr(obj, e.attr, e)

    def get_attr(self, obj, attr, node=None):
        c = self.c
        if isinstance(obj, SModule):
            return B.module_attr(self, obj, attr)
        if isinstance(obj, SClass):
            return self.class_attr(obj, attr)
        if isinstance(obj, SFunc):
            if attr == '__name__':
                return SRef(name_of(self.w.funcref(obj)), 'str')
            if attr == '__closure__':
                return SRef(B.fn_closure(self.w.funcref(obj)), None)
            if attr == '__code__':
                return SRef(B.fn_code(self.w.funcref(obj)), 'code')
            raise Unsupported('function attribute %s' % attr)
        if isinstance(obj, SSuper):
            fi = self.src.find_method(obj.obj.pytype, attr, after=obj.after)
            if fi is None:
                raise Unsupported('super().%s unresolved' % attr)
            return self.w_method(fi).bind(obj.obj)
        if isinstance(obj, SRef):
            pt = obj.pytype
            if attr == '__dict__' and (pt in self.src.classes or pt == 'object' or pt == 'instance'):
                return SRef(c.hget(obj, '$dict'), 'dict')
            if pt in self.src.classes and pt != 'Attribute':
                if attr == '__class__':
                    k = SClass(pt)
                    k.of_instance = True          # type(self): possibly a subclass of the class the source names
                    return k
                mangled = attr
                fi = self.src.find_method(pt, mangled)
                if fi is not None:
                    if attr == 'top':
                        return SRef(B.TOP, 'state')
                    fn = self.w_method(fi)
                    return fn if getattr(fn, 'staticmethod', False) else fn.bind(obj)
                cav, _ = self.src.find_class_attr(pt, attr)
                if cav is not None:
                    return self.class_attr(SClass(pt), attr)
                if attr not in self.src.init_attrs(pt) and self.src.find_method(pt, '__getattr__') is not None \
                        and attr not in self.w.dynamic_attrs.get(pt, ()) and not attr.startswith('$') \
                        and (obj.e.sexpr(), attr) not in getattr(c, 'world_set_attrs', ()):
                    # attribute lookup failed the normal way: Python falls back to __getattr__(name)
                    fn = self.w_method(self.src.find_method(pt, '__getattr__')).bind(obj)
                    return self.call_func(fn, [attr], {})
                self.check_defined(obj, attr)
                self.check_guard(obj, attr, 'read')
                if attr in self.src.namedtuples:
                    return SClass('namedtuple:' + attr)      # self.X = namedtuple(...) made in __init__
                return c.read(obj, attr)
            if pt in ('state', 'fn', 'rawstate'):
                if attr == '__name__':
                    return SRef(name_of(obj.e), 'str')
                if attr == '__closure__':
                    return SRef(B.fn_closure(obj.e), None)
                if attr == '__code__':
                    return SRef(B.fn_code(obj.e), 'code')
            if pt and pt.startswith('nt:'):
                fields = self.src.namedtuples[pt[3:]][1]
                if attr not in fields:
                    c.fail('defined/%s.%s' % (pt[3:], attr))
                return c.read(obj, attr)
            if B.base_type(pt) in B.BUILTIN_TYPES:
                return B.builtin_attr(self, obj, attr)
            if pt == 'Attribute' or pt is None:
                return c.read(obj, attr)
            return c.read(obj, attr)
        if obj is None:
            raise Raised('AttributeError')
        raise Unsupported('attribute %s of %r' % (attr, obj))

    def check_defined(self, obj, attr):
        c = self.c
        pt = obj.pytype
        if attr in self.src.init_attrs(pt):
            return
        if attr in self.w.dynamic_attrs.get(pt, ()) or attr in self.w.dynamic_attrs.get('*', ()):
            return
        if (obj.e.sexpr(), attr) in getattr(c, 'world_set_attrs', ()):
            return
        c.fail('%s:defined/%s.%s' % (self.where(), pt, attr), tags=('defined',))

    def where(self):
        fr = self.c.frames[-1]
        f = fr.func
        return f.info.path.split('.', 1)[1] if isinstance(f, SFunc) else str(f)

    def class_attr(self, cls, attr):
        name = cls.name
        if name.startswith('singleton:'):
            name = name.split(':', 1)[1]
        if getattr(cls, 'of_instance', False) and (name, attr) in getattr(self.w, 'subclass_consts', {}):
            # a constant that a subclass may override, read through the instance's own class
            return self.w.subclass_consts[(name, attr)]
        if name in self.src.classes:
            fi = self.src.find_method(name, attr)
            if fi is not None:
                return self.w_method(fi)
            for cn in self.src.mro(name):
                ci = self.src.classes.get(cn)
                if ci and attr in ci.nested_classes:
                    return SClass(attr)
            v, owner = self.src.find_class_attr(name, attr)
            if v is not None:
                if isinstance(v, (ast.List, ast.Dict, ast.Set)):
                    # a mutable class attribute: ONE object shared by every instance and every call
                    return self.global_object('%s.%s' % (owner, attr), 'list' if isinstance(v, ast.List) else 'dict')
                try:
                    return ast.literal_eval(v)
                except Exception:
                    pass
                if isinstance(v, ast.Call) and isinstance(v.func, ast.Attribute) and v.func.attr == 'count' \
                        and isinstance(v.func.value, ast.Name) and v.func.value.id == 'itertools' and not v.args:
                    return SRef(self.w.strobj('<itertools.count %s.%s>' % (owner, attr)), 'counter')
                raise Unsupported('class attribute %s.%s is not a literal' % (name, attr))
        raise Unsupported('class attribute %s.%s' % (cls.name, attr))

    def global_object(self, name, pytype):
        """An object created at import time (mutable class attribute, mutable default argument): shared between all
        instances and calls, so its contents are arbitrary here and any user code (handlers) may change them."""
        c = self.c
        lt = self.w.local_types.get(('global', name))
        r = SRef(self.w.strobj('<shared %s>' % name), lt or pytype)
        regs = c.pyghost.setdefault('globals', {})
        if name not in regs:
            regs[name] = r
            if B.base_type(r.pytype) in ('list', 'deque'):
                c.assume(c.hget(r, '$len') >= 0)
                if B.base_type(r.pytype) == 'deque':
                    c.assume(z3.And(c.hget(r, '$maxlen') >= 1, c.hget(r, '$len') <= c.hget(r, '$maxlen')))
        return r

    def havoc_globals(self):
        c = self.c
        for name, r in c.pyghost.get('globals', {}).items():
            if B.base_type(r.pytype) in ('list', 'deque'):
                c.heap['$items'] = z3.Store(c.harr('$items'), r.e, c.fresh('shared_items', B.IntArr))
                n = c.fresh('shared_len', z3.IntSort())
                c.heap['$len'] = z3.Store(c.harr('$len'), r.e, n)
                c.assume(n >= 0)

    def w_method(self, fi):
        """The function object stored in the class dict: decorators applied (real wrapper source)."""
        key = fi.path
        fn = self.w.decorated.get(key)
        if fn is None:
            raw = SFunc(fi, [], None, fi.cls)
            raw.public_path = 'raw:' + fi.path
            ci = self.src.classes[fi.cls]
            # class-level decorators are functions defined earlier in the class body or at module level
            fr = Frame(SFunc(fi, [], None, fi.cls), dict((n, SFunc(m, [], None, fi.cls))
                                                         for n, m in ci.methods.items()), fi.cls, 'classbody')
            self.c.frames.append(fr)
            try:
                fn = self.apply_decorators(fi.node, raw)
            finally:
                self.c.frames.pop()
            fn.public_path = fi.path
            self.w.decorated[key] = fn
        return fn

    def ev_Subscript(self, e):
        obj = self.eval(e.value)
        if isinstance(e.slice, ast.Slice):
            lo = self.eval(e.slice.lower) if e.slice.lower is not None else None
            hi = self.eval(e.slice.upper) if e.slice.upper is not None else None
            return B.getslice(self, obj, lo, hi)
        idx = self.eval(e.slice)
        return B.getitem(self, obj, idx)

    def ev_ListComp(self, e):
        return B.listcomp(self, e)

    def ev_Lambda(self, e):
        # only map(lambda x: id(x), seq) is modelled; the builtin `map` inspects the node, anything else rejects it
        return ('lambda', e)

    def ev_GeneratorExp(self, e):
        # only any(<x is y> for x in seq) is modelled; the builtin inspects the node
        return ('genexp', e)

    def ev_Starred(self, e):
        raise Unsupported('starred expression')

    # ---------------------------------------------------------------- calls
    def ev_Call(self, e):
        fv, args, kwargs = self.eval_callee_and_args(e)
        return self.call_value(fv, args, kwargs, e)

    def eval_callee_and_args(self, e):
        f = e.func
        if isinstance(f, ast.Name) and f.id == 'super' :
            raise Unsupported('bare super')
        if isinstance(f, ast.Attribute) and isinstance(f.value, ast.Call) and isinstance(f.value.func, ast.Name) \
                and f.value.func.id == 'super':
            fr = self.c.frames[-1]
            selfv = fr.env.get('self')
            fi = self.src.find_method(selfv.pytype, f.attr, after=fr.defcls)
            if fi is None:
                if f.attr == '__init__':
                    fv = SBuiltin('noop')
                else:
                    raise Unsupported('super().%s unresolved' % f.attr)
            else:
                fv = self.w_method(fi).bind(selfv)
        elif isinstance(f, ast.Attribute):
            obj = self.eval(f.value)
            fv = self.method_of(obj, f.attr, e)
        else:
            fv = self.eval(f)
        args = []
        for a in e.args:
            if isinstance(a, ast.Starred):
                v = self.eval(a.value)
                if isinstance(v, tuple):
                    args.extend(v)
                else:
                    raise Unsupported('*args of non-tuple')
            else:
                args.append(self.eval(a))
        kwargs = {}
        for k in e.keywords:
            if k.arg is None:
                v = self.eval(k.value)
                if isinstance(v, dict):
                    kwargs.update(v)
                else:
                    raise Unsupported('**kwargs of non-dict')
            else:
                kwargs[k.arg] = self.eval(k.value)
        return fv, args, kwargs

    def method_of(self, obj, attr, node):
        if isinstance(obj, SRef):
            pt = obj.pytype
            if pt in self.src.classes:
                name = attr
                fr = self.c.frames[-1]
                if attr.startswith('__') and not attr.endswith('__') and fr.defcls:
                    name = attr          # FuncInfo keeps the unmangled source name
                fi = self.src.find_method(pt, name)
                if fi is not None:
                    fn = self.w_method(fi)
                    return fn if getattr(fn, 'staticmethod', False) else fn.bind(obj)
                if attr in ('values', 'keys', 'items') and B.is_odict(self, obj):
                    return SBuiltin('odict.' + attr, obj)
                # a data attribute holding a callable
                return self.get_attr(obj, attr, node)
            if B.base_type(pt) in B.BUILTIN_TYPES or (pt and pt.startswith('nt:')):
                return SBuiltin(B.base_type(pt) + '.' + attr, obj)
            if pt == 'str':
                return SBuiltin('str.' + attr, obj)
            if pt == 'subq':
                return SBuiltin('subq.' + attr, obj)
            if pt == 'Lock':
                return SBuiltin('Lock.' + attr, obj)
            return self.get_attr(obj, attr, node)
        if isinstance(obj, str):
            return SBuiltin('str.' + attr, obj)
        return self.get_attr(obj, attr, node)

    def call_value(self, fv, args, kwargs, node=None):
        if isinstance(fv, SFunc):
            return self.call_func(fv, args, kwargs)
        if isinstance(fv, SBuiltin):
            return B.call_builtin(self, fv, args, kwargs, node)
        if isinstance(fv, SClass):
            return B.construct(self, fv, args, kwargs, node)
        if isinstance(fv, SRef):
            if fv.pytype == 'rawstate':
                hook = self.w.hooks.get('call_rawstate')
                if hook is None:
                    raise Unsupported('call of an undecorated state function without a model')
                return hook(self, fv, args, kwargs)
            if fv.pytype == 'state':
                hook = self.w.hooks.get('call_state')
                if hook is None:
                    raise Unsupported('call through a state-function value without a handler contract')
                return hook(self, fv, args, kwargs)
            f = self.w.func_of_ref(fv.e)
            if f is not None:
                return self.call_func(f, args, kwargs)
            hook = self.w.hooks.get('call_fn')
            if hook is None:
                raise Unsupported('call through an unknown function value %r' % (fv,))
            return hook(self, fv, args, kwargs)
        raise Unsupported('call of %r' % (fv,))

    def call_func(self, fn, args, kwargs, inline=False, want_yield=False):
        """Contract if the sidecar has one for this function (and we are not verifying it), else inline."""
        if fn.bound is not None:
            args = [fn.bound] + list(args)
        if not inline:
            con = self.w.contracts.get(fn.key)
            if con is not None and not getattr(con, 'verifying', False):
                return con.apply(self, fn, args, kwargs)
        if self.depth >= self.w.inline_depth:
            raise Unsupported('inlining depth exceeded at %s' % fn.info.path)
        env = self.bind_params(fn, args, kwargs)
        fr = Frame(fn, env, fn.defcls, fn.info.path)
        self.c.frames.append(fr)
        self.depth += 1
        try:
            self.exec_block(fn.info.node.body)
            return None
        except ReturnSignal as r:
            return r.value
        finally:
            self.depth -= 1
            self.c.frames.pop()

    def bind_params(self, fn, args, kwargs):
        a = fn.info.node.args
        env = {}
        params = [p.arg for p in a.posonlyargs + a.args]
        defaults = a.defaults
        n = len(params)
        args = list(args)
        for i, p in enumerate(params):
            if i < len(args):
                env[p] = args[i]
            elif p in kwargs:
                env[p] = kwargs.pop(p)
            else:
                di = i - (n - len(defaults))
                if di < 0:
                    raise Raised('TypeError')       # missing argument
                env[p] = self.const_default(defaults[di], fn)
        extra = args[n:]
        if a.vararg:
            env[a.vararg.arg] = tuple(extra)
        elif extra:
            raise Raised('TypeError')
        for p, d in zip(a.kwonlyargs, a.kw_defaults):
            if p.arg in kwargs:
                env[p.arg] = kwargs.pop(p.arg)
            else:
                env[p.arg] = self.const_default(d, fn)
        if a.kwarg:
            env[a.kwarg.arg] = dict(kwargs)
        elif kwargs:
            raise Raised('TypeError')
        for k, v in list(env.items()):
            lt = self.w.local_types.get((fn.info.path, k))
            if lt and isinstance(v, SRef):
                env[k] = SRef(v.e, lt)
        return env

    def const_default(self, d, fn):
        try:
            return ast.literal_eval(d)
        except Exception:
            pass
        if isinstance(d, ast.Name) and fn.info.cls:
            v, _ = self.src.find_class_attr(fn.info.cls, d.id)
            if v is not None:
                return ast.literal_eval(v)
        if isinstance(d, (ast.Call, ast.List, ast.Dict)):
            # a default evaluated once at definition time: one object shared by all calls
            kind = 'list'
            if isinstance(d, ast.Dict):
                kind = 'dict'
            if isinstance(d, ast.Call) and isinstance(d.func, ast.Name):
                kind = {'deque': 'deque', 'list': 'list', 'dict': 'dict'}.get(d.func.id)
                if kind is None:
                    raise Unsupported('non-literal default %s(...)' % d.func.id)
            return self.global_object('default of %s' % fn.info.path, kind)
        raise Unsupported('non-literal default')


def _as_load(t):
    t2 = ast.copy_location(type(t)(**{k: getattr(t, k) for k in t._fields}), t)
    t2.ctx = ast.Load()
    return t2


def _assigned_names(body):
    names = set()

    def walk(stmts):
        for st in stmts:
            if isinstance(st, ast.FunctionDef):
                names.add(st.name)
                continue
            for n in ast.walk(st):
                if isinstance(n, ast.FunctionDef):
                    continue
                if isinstance(n, ast.Name) and isinstance(n.ctx, ast.Store):
                    names.add(n.id)
                elif isinstance(n, ast.ExceptHandler) and n.name:
                    names.add(n.name)
    walk(body)
    return names


def _read_before_write(loop, name):
    """May `name` be read in an iteration before that iteration writes it?  (loop test first, then the body in
    source order; a write inside a conditional does not count as a write for what follows it)"""
    def reads(node):
        return any(isinstance(n, ast.Name) and n.id == name and isinstance(n.ctx, ast.Load) for n in ast.walk(node))

    def writes_unconditionally(st):
        if isinstance(st, (ast.Assign, ast.AugAssign, ast.AnnAssign)):
            tg = st.targets if isinstance(st, ast.Assign) else [st.target]
            return any(isinstance(n, ast.Name) and n.id == name for t in tg for n in ast.walk(t))
        return False

    if isinstance(loop, ast.While) and reads(loop.test):
        return True
    for st in loop.body:
        if isinstance(st, ast.AugAssign) and reads(st.target):
            return True
        if isinstance(st, (ast.Assign, ast.AugAssign, ast.AnnAssign)):
            if st.value is not None and reads(st.value):
                return True
            if writes_unconditionally(st):
                return False
            continue
        if reads(st):
            return True
    return False


def _target_names(t):
    return {n.id for n in ast.walk(t) if isinstance(n, ast.Name)}


def _check_yield_last(fnode):
    """The modelled generators yield exactly once, as the last action on their path."""
    def tail(stmts):
        if not stmts:
            return
        last = stmts[-1]
        if isinstance(last, ast.If):
            tail(last.body)
            tail(last.orelse)
        for st in stmts[:-1]:
            for n in ast.walk(st):
                if isinstance(n, ast.Yield):
                    # a yield followed by more statements: allowed only if it is the tail of its own branch
                    if not (isinstance(st, ast.If)):
                        raise Unsupported('yield followed by code in %s' % fnode.name)
    tail(fnode.body)
