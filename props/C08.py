"""C08 - fabric delivers by priority, and equal priorities in publish order."""
from . import fabric_targets as FT
from .registry import OPLEVEL

LEVEL = 'proof'
TAGS = ('C08',)
TRUSTED = ['queue.PriorityQueue.get returns SOME element that is minimal w.r.t. __lt__ (binary heap: nothing is '
           'promised among incomparable elements)', 'itertools.count / next() yields strictly increasing numbers']
ASSUMPTIONS = [OPLEVEL, 'two publishers racing for consecutive sequence numbers: their relative publish order is not '
               'defined by the property either']
EXPLANATION = ('FabricEvent.__init__ and __lt__ of the real source are executed on two symbolic publications a (earlier) '
               'and b (later): the comparator must be total on distinct publications and must agree with the '
               'lexicographic order on (priority, publish order).  With that, the honest heap contract returns the '
               '(priority, order)-least waiting publication, however many are waiting; the delivery loop (C06) appends '
               'in get order.')
MIN_OBLIGATIONS = 4


def build(src, tier):
    w = FT.world_for(src, tier)
    return [(w, [FT.t_fabric_event_order(), FT.t_publish(), FT.t_runner_iteration('fifo'), FT.t_runner_iteration('lifo')])]


def extra(src, tier, seed):
    """Frame obligation on the publication counter: nothing but FabricEvent's own class body binds it, so the numbers
    handed out by next() increase for the life of the process (a reset would reorder waiting publications)."""
    import ast
    ci = src.classes.get('FabricEvent')
    counters = [a for a, v in (ci.attrs.items() if ci else []) if isinstance(v, ast.Call) and isinstance(v.func, ast.Attribute)
                and v.func.attr == 'count']
    out = []
    for cname in counters:
        offenders = []
        for path, fi in src.funcs.items():
            for n in ast.walk(fi.node):
                if isinstance(n, ast.Attribute) and n.attr == cname and isinstance(n.ctx, (ast.Store, ast.Del)):
                    offenders.append('%s line %d' % (path, n.lineno))
                if isinstance(n, ast.Call) and isinstance(n.func, ast.Name) and n.func.id in ('setattr', 'delattr') \
                        and len(n.args) >= 2 and isinstance(n.args[1], ast.Constant) and n.args[1].value == cname:
                    offenders.append('%s line %d' % (path, n.lineno))
        out.append({'name': 'FabricEvent:frame/publication-counter-%s-is-never-rebound' % cname,
                    'status': 'discharged' if not offenders else 'refuted', 'backend': 'ast-frame-scan', 'seconds': 0.0,
                    'detail': 'rebound in: ' + ', '.join(offenders) if offenders else 'no store to .%s in any function' % cname})
    # the heap list inside the two PriorityQueues: delivery order is what heappush/heappop make of it, so nothing may
    # touch it directly except to empty it (a slice assignment, a remove or a sort leaves a list that is no heap)
    offenders = []
    for path, fi in src.funcs.items():
        if not path.startswith('activeobject.ActiveFabricSource'):
            continue
        parents = {}
        for n in ast.walk(fi.node):
            for ch in ast.iter_child_nodes(n):
                parents[ch] = n
        for n in ast.walk(fi.node):
            if isinstance(n, ast.Attribute) and n.attr == 'queue' and not (isinstance(n.value, ast.Name) and n.value.id == 'self'):
                up = parents.get(n)
                ok = isinstance(up, ast.Attribute) and up.attr == 'clear' and isinstance(parents.get(up), ast.Call)
                if not ok:
                    offenders.append('%s line %d' % (path, n.lineno))
    out.append({'name': 'PriorityQueue:frame/heap-list-only-emptied-never-edited', 'backend': 'ast-frame-scan', 'seconds': 0.0,
                'status': 'discharged' if not offenders else 'refuted',
                'detail': ('edited in: ' + ', '.join(offenders)) if offenders else 'the only use of <queue>.queue is .clear()'})
    if not counters:
        out.append({'name': 'FabricEvent:frame/publication-counter-exists', 'status': 'discharged', 'backend': 'ast-frame-scan',
                    'seconds': 0.0, 'detail': 'no itertools.count class attribute (tie-break, if any, is checked by FabricEvent:order)'})
    return out
