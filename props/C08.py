"""C08 - fabric delivers by priority, and equal priorities in publish order."""
from . import fabric_targets as FT
from .registry import OPLEVEL

LEVEL = 'proof'
TAGS = ('C08',)
TRUSTED = ['queue.PriorityQueue.get returns SOME element that is minimal w.r.t. __lt__ (binary heap: nothing is '
           'promised among incomparable elements)', 'itertools.count / next() yields strictly increasing numbers']
ASSUMPTIONS = [OPLEVEL, 'two publishers racing for consecutive sequence numbers: their relative publish order is not '
               'defined by the property either']
EXPLANATION = ('FabricEvent.__init__ and __lt__ of the real source are executed on two symbolic publications a (earlier) '
               'and b (later): the comparator must be total on distinct publications and must agree with the '
               'lexicographic order on (priority, publish order).  With that, the honest heap contract returns the '
               '(priority, order)-least waiting publication, however many are waiting; the delivery loop (C06) appends '
               'in get order.')
MIN_OBLIGATIONS = 4


def build(src, tier):
    w = FT.world_for(src, tier)
    return [(w, [FT.t_fabric_event_order(), FT.t_publish()])]
