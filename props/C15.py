"""C15 - defer holds events back until recall, oldest first."""
from . import queue_targets as Q
from .C16 import t_chart_init

LEVEL = 'proof'
TAGS = ('C15',)
TRUSTED = ['collections.deque contract (DESIGN 5.4)', 'LockingDeque.append contract (proved under C16)',
           'Event.__init__ contract (proved under C25)']
ASSUMPTIONS = [
    'posts/defers/recalls made by handlers during a step are separate operations of the history',
    'user live-output callbacks do not touch the chart',
]
EXPLANATION = ('defer/recall of the real source (with their spy wrappers) are executed symbolically for every queue '
               'content, flag combination and both hosts; post_fifo/post_lifo/next_rtc are shown not to write the '
               'deferred queue, so a deferred event can only reach dispatch through recall.')
MIN_OBLIGATIONS = 20


def build(src, tier):
    w = Q.world_for(src, tier)
    ts = []
    for host in Q.HOSTS:
        ts += [Q.t_defer(host), Q.t_recall(host), Q.t_post(host, 'fifo', ('C15',)), Q.t_post(host, 'lifo', ('C15',)),
               Q.t_next_rtc(host)]
    ts.append(t_chart_init('HsmWithQueues'))
    # starting the chart leaves the deferred events where they are
    from . import instr_targets as I
    return [(w, ts), (I.instr_world(src, tier), [I.t_start_body('HsmWithQueues')]),
            (I.instr_world(src, tier), [I.t_start_body('ActiveObject')])]
