"""C31 - a rejected timed post never fires."""
from . import timer_targets as TT

LEVEL = 'proof'
TAGS = ('C31',)
TRUSTED = ['threading.Thread contract: a thread that was never started runs nothing', 'deque contract']
ASSUMPTIONS = ['the residual race between a (correctly ordered) capacity test and a concurrent caller is a schedule '
               'question and not covered']
EXPLANATION = ('On the path where the active object already tracks QUEUE_SIZE sources, post_fifo/post_lifo with a period '
               'must raise ActiveObjectOutOfPostedEventResources with no timer thread started (the capacity test has to '
               'dominate thread.start(): a started thread posts at once when deferred is False), the tracked list '
               'unchanged and no tracked run event touched.')
MIN_OBLIGATIONS = 6


def build(src, tier):
    w = TT.world_for(src, tier)
    return [(w, [TT.t_timed_post('fifo'), TT.t_timed_post('lifo')])]
