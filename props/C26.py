"""C26 - Event.dumps / Event.loads round-trip name and payload."""
import z3

from pyvc.sym import SInt, SBool, SRef, SFunc, SClass, Ref, StrV, NONE, sval
from pyvc.verify import Target, method, run_body, framed
from pyvc import builtins as B
from contracts import base_world
from contracts.event import sig_num

LEVEL = 'proof'
TAGS = None
TRUSTED = ['json contract: loads(dumps(v)) is a value equal to v for JSON-representable v with string keys (validated '
           'natively on generated JSON values by the replayer)', 'Event.__init__ contract (proved under C25)',
           'dict literal / subscript contracts']
ASSUMPTIONS = ['payload is JSON-representable (None, booleans, finite numbers, strings, lists, string-keyed dicts)']
EXPLANATION = ('dumps and loads of the real source are executed with json as an assumed contract: the two key strings must '
               'agree between dumps and loads, the payload must be passed through in both directions (None stays None), '
               'the name takes the str branch of Event.__init__ and gets the number this process binds to it.')
MIN_OBLIGATIONS = 5
EV = 'event.Event.'


def t_roundtrip():
    def run(it):
        c = it.c
        e = c.fresh_ref('event', 'Event')
        name = c.fresh_ref('signal_name', 'str', distinct=False)
        c.assume(z3.And(name.e != NONE, B.is_str(name.e)))
        c.hset(e, 'signal_name', name.e)
        c.hset(e, 'signal', c.fresh('number_in_the_sending_process', z3.IntSort()))
        payload = c.fresh('payload', Ref)
        c.hset(e, 'payload', payload)
        fi = it.src.find_method('Event', 'dumps')
        out1 = framed(it, 'dumps:frame', [], lambda: run_body(it, it.w_method(fi), [e]))
        c.prove('dumps:post/returns-normally', out1.raised is None)
        if out1.raised is not None:
            return
        fj = it.src.find_method('Event', 'loads')
        out2 = run_body(it, it.w_method(fj), [out1.value])
        c.prove('loads:post/returns-normally', out2.raised is None)
        if out2.raised is not None:
            return
        r = out2.value
        c.prove('roundtrip:post/same-signal-name', z3.And(c.hget(r, 'signal_name') != NONE,
                                                          sval(c.hget(r, 'signal_name')) == sval(name.e)))
        c.prove('roundtrip:post/equal-payload', c.hget(r, 'payload') == B.jcopy(payload))
        c.prove('roundtrip:post/number-is-the-one-this-process-binds-to-the-name',
                c.hget(r, 'signal') == sig_num(sval(name.e)))
        c.prove('roundtrip:post/a-new-event-object', r.e != e.e)
        c.cover('roundtrip:cover')
    return Target('Event.loads(Event.dumps(e))', run, [EV + 'dumps', EV + 'loads'])


def build(src, tier):
    w = base_world(src)
    return [(w, [t_roundtrip()])]
