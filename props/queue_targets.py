"""Targets shared by C14, C15, C16 (and the sequential core of C04): the queue operations of queued charts."""
import z3

from pyvc.sym import SInt, SBool, SRef, Ref, NONE, LoopSpec, IntArr
from pyvc.verify import Target, FnContract, method, run_body, framed
from pyvc import builtins as B
from contracts import base_world
from contracts.common import (make_chart, make_locking_deque, view, is_fifo_put, is_lifo_put, is_tail, same_seq,
                              symbolic_event, ACTIVE_HOSTS, class_const)
from contracts.queues import ghost_seq_init

HOSTS = ('HsmWithQueues', 'ActiveObject')


def flags(it, self):
    """instrumented / live_spy / live_trace / spied_on are arbitrary; callbacks are user functions."""
    c = it.c
    for f in ('instrumented', 'live_spy', 'live_trace', 'spied_on'):
        c.hset(self, f, c.fresh(f, z3.BoolSort()))
    for cb in ('live_spy', 'live_trace'):
        r = c.fresh_ref(cb + '_callback', 'fn')
        c.hset(self, cb + '_callback', r.e)
        c.pyghost[('cbname', c.hget(self, cb + '_callback').sexpr())] = cb
        c.pyghost[('cbname', r.e.sexpr())] = cb
    c.hset(self, 'name', c.fresh_ref('name', 'str').e)
    c.hset(self, 'last_live_trace_datetime', c.fresh_ref('lltd', 'datetime', distinct=False).e)


def qref(it, self):
    """The deque that holds the pending events (inside the LockingDeque for active objects)."""
    c = it.c
    q = c.read(self, 'queue')
    if q.pytype == 'LockingDeque':
        return c.read(q, 'deque')
    return q


def tokens(it, self):
    c = it.c
    q = c.read(self, 'queue')
    return c.hget(c.read(q, 'locking_queue'), 'qsize')


def spy_mods(it, self):
    """Instrumentation fields every queue operation may write."""
    c = it.c
    rtc, full = c.read(self, 'rtc'), c.read(self, 'full')
    out = []
    for holder, f in ((rtc, 'spy'), (rtc, 'tuples'), (full, 'spy'), (full, 'trace')):
        d = c.read(holder, f)
        out += [(d, '$items'), (d, '$len')]
    # bookkeeping of the live-trace printer (which record was printed last); instrumentation state only
    out += [(self, f) for f in sorted(it.src.init_attrs(self.pytype)) if f.startswith('last_live_trace_')]
    return out


def queue_mods(it, self):
    c = it.c
    q = c.read(self, 'queue')
    d = qref(it, self)
    out = [(d, '$items'), (d, '$len')]
    if q.pytype == 'LockingDeque':
        lq = c.read(q, 'locking_queue')
        out += [(lq, 'qsize'), (lq, 'unfinished')]
    return out


def defer_mods(it, self):
    d = it.c.read(self, 'defer_queue')
    return [(d, '$items'), (d, '$len')]


# ------------------------------------------------------------------ queue-level view of dispatch
def dispatch_abstract(it, fn, args, kwargs):
    """dispatch(e) as the queue operations see it: one run-to-completion step on e.  What handlers do to the
    queue during the step (posts, defers, recalls) are separate operations of the history; here only the call,
    its argument and the queue contents at call time are recorded, and the queue is havocked afterwards."""
    c = it.c
    self = args[0]
    e = args[1] if len(args) > 1 else kwargs['e']
    c.pyghost.setdefault('dispatch_calls', []).append((c.to_ref(e), dict(c.heap)))
    d = qref(it, self)
    n = c.fresh('q_len_after_step', z3.IntSort())
    c.assume(z3.And(n >= 0, n <= c.hget(d, '$maxlen')))
    c.hset(d, '$items', c.fresh('q_items_after_step', IntArr))
    c.hset(d, '$len', n)
    dq = c.read(self, 'defer_queue')
    n2 = c.fresh('d_len_after_step', z3.IntSort())
    c.assume(z3.And(n2 >= 0, n2 <= c.hget(dq, '$maxlen')))
    c.hset(dq, '$items', c.fresh('d_items_after_step', IntArr))
    c.hset(dq, '$len', n2)
    if c.read(self, 'queue').pytype == 'LockingDeque':
        lq = c.read(c.read(self, 'queue'), 'locking_queue')
        t = c.fresh('tokens_after_step', z3.IntSort())
        c.assume(z3.And(t >= 0, t <= c.hget(lq, 'maxsize')))
        c.hset(lq, 'qsize', t)
        u0 = c.hget(lq, 'unfinished')
        u1 = c.fresh('unf_after_step', z3.IntSort())
        c.assume(u1 >= u0)              # posts made by handlers only add unfinished tokens
        c.hset(lq, 'unfinished', u1)
    # the step may also append to the instrumentation logs
    for holder, f in (('rtc', 'spy'), ('rtc', 'tuples'), ('full', 'spy'), ('full', 'trace')):
        dd = c.read(c.read(self, holder), f)
        nn = c.fresh(f + '_len_after_step', z3.IntSort())
        c.assume(z3.And(nn >= 0, nn <= c.hget(dd, '$maxlen')))
        c.hset(dd, '$items', c.fresh(f + '_items_after_step', IntArr))
        c.hset(dd, '$len', nn)
    return None


def next_rtc_abstract(it, fn, args, kwargs):
    """Call-site contract of next_rtc (proved by the next_rtc target): pops and dispatches the head if any."""
    c = it.c
    self = args[0]
    d = qref(it, self)
    n = c.hget(d, '$len')
    if c.branch(n > 0, 'next_rtc-has-event'):
        head = z3.Select(c.hget(d, '$items'), 0)
        dispatch_abstract(it, None, [self, SRef(head, 'Event')], {})
        return True
    return False


def world_for(src, tier):
    w = base_world(src)
    # the token queue inside a LockingDeque is filled by every posting thread and emptied by the consumer
    w.shared_put_owners = ('LockingDeque.',)
    for host in ('HsmWithQueues',):
        w.contracts['hsm.%s.dispatch' % host] = FnContract('hsm.%s.dispatch' % host, dispatch_abstract)
    w.contracts['hsm.HsmWithQueues.next_rtc'] = FnContract('hsm.HsmWithQueues.next_rtc', next_rtc_abstract)

    def cc_mods(it, env):
        self = env['self']
        return queue_mods(it, self) + defer_mods(it, self) + spy_mods(it, self)
    w.loopspecs[('hsm.HsmWithQueues.complete_circuit', 1)] = LoopSpec(
        lambda it, env: [('queue-len-nonneg', B.seq_len(it, qref(it, env['self'])) >= 0)], cc_mods, None,
        'complete-circuit')
    return w


# ------------------------------------------------------------------ targets
def t_post(host, kind, tags):
    mname = 'post_fifo' if kind == 'fifo' else 'post_lifo'
    pred = is_fifo_put if kind == 'fifo' else is_lifo_put

    def run(it):
        c = it.c
        self = make_chart(it, host)
        flags(it, self)
        e = symbolic_event(it)
        d = qref(it, self)
        Q0, D0 = view(it, d), view(it, c.read(self, 'defer_queue'))
        mods = queue_mods(it, self) + spy_mods(it, self)
        out = framed(it, '%s:frame' % mname, mods, lambda: run_body(it, method(it, self, mname), [e]))
        c.prove('%s:post/returns-normally' % mname, out.raised is None, tags=tags)
        if out.raised is not None:
            return
        Q1, D1 = view(it, d), view(it, c.read(self, 'defer_queue'))
        pos = Q1.at(Q1.len - 1) if kind == 'fifo' else Q1.at(0)
        c.prove('%s:post/new-event-at-%s' % (mname, 'back' if kind == 'fifo' else 'front'),
                z3.And(Q1.len >= 1, pos == e.e), tags=('C14', 'C16', 'C04', 'C09'))
        c.prove('%s:post/within-capacity' % mname, z3.And(Q1.len <= Q1.maxlen, Q1.maxlen == Q0.maxlen),
                tags=('C16',))
        if host in ACTIVE_HOSTS:
            # overflow: which pending event is displaced is not specified by the property
            c.prove('%s:post/exact-when-room' % mname, z3.Implies(Q0.len < Q0.maxlen, pred(Q0, Q1, e.e)),
                    tags=('C14', 'C16', 'C04', 'C09'))
            c.prove('%s:post/token-per-event' % mname, tokens(it, self) == Q1.len, tags=('C16', 'C04'))
        else:
            c.prove('%s:post/deque-%s-put' % (mname, kind), pred(Q0, Q1, e.e), tags=('C14', 'C16'))
        c.prove('%s:post/deferred-untouched' % mname, same_seq(D0, D1), tags=('C15',))
        c.prove('%s:post/no-dispatch' % mname, len(c.pyghost.get('dispatch_calls', [])) == 0, tags=('C14', 'C15'))
        c.cover('%s:cover/post-state' % mname)
    return Target('%s@%s' % (mname, host), run,
                  ['hsm.HsmWithQueues.%s' % mname, 'hsm.append_fifo_to_spy._append_fifo_to_spy' if kind == 'fifo'
                   else 'hsm.HsmWithQueues.append_lifo_to_spy._append_lifo_to_spy'] +
                  (['activeobject.ActiveObject.%s' % mname] if host in ACTIVE_HOSTS else []))


def t_next_rtc(host):
    def run(it):
        c = it.c
        self = make_chart(it, host)
        flags(it, self)
        d = qref(it, self)
        Q0, D0 = view(it, d), view(it, c.read(self, 'defer_queue'))
        mods = queue_mods(it, self) + spy_mods(it, self) + defer_mods(it, self)
        out = framed(it, 'next_rtc:frame', mods, lambda: run_body(it, method(it, self, 'next_rtc'), []))
        c.prove('next_rtc:post/returns-normally', out.raised is None)
        if out.raised is not None:
            return
        calls = c.pyghost.get('dispatch_calls', [])
        if c.branch(Q0.len > 0, 'had-event'):
            c.prove('next_rtc:post/exactly-one-dispatch', len(calls) == 1, tags=('C14', 'C04'))
            if len(calls) == 1:
                ev, heap = calls[0]
                c.prove('next_rtc:post/dispatches-the-head', ev == Q0.at(0), tags=('C14', 'C04'))
                Qc = view(it, d, heap)
                c.prove('next_rtc:post/queue-popped-before-dispatch', is_tail(Q0, Qc), tags=('C14', 'C04'))
                Dc = view(it, c.read(self, 'defer_queue'), heap)
                c.prove('next_rtc:post/deferred-untouched-before-dispatch', same_seq(D0, Dc), tags=('C15',))
            c.prove('next_rtc:post/reports-action', it.c.to_bool(out.value) if not isinstance(out.value, bool)
                    else out.value, tags=('C14',))
        else:
            c.prove('next_rtc:post/no-dispatch-when-empty', len(calls) == 0, tags=('C14', 'C04'))
            c.prove('next_rtc:post/reports-no-action',
                    z3.Not(it.c.to_bool(out.value)) if not isinstance(out.value, bool) else (not out.value),
                    tags=('C14',))
            Q1, D1 = view(it, d), view(it, c.read(self, 'defer_queue'))
            c.prove('next_rtc:post/queue-unchanged-when-empty', same_seq(Q0, Q1), tags=('C14',))
            c.prove('next_rtc:post/deferred-untouched', same_seq(D0, D1), tags=('C15',))
        c.cover('next_rtc:cover/post-state')
    return Target('next_rtc@%s' % host, run,
                  ['hsm.HsmWithQueues.next_rtc',
                   'hsm.HsmWithQueues.append_queue_reflection_to_spy._append_queue_reflection_to_spy',
                   'hsm.HsmWithQueues.print_trace_after_rtc_if_live._print_trace_if_live',
                   'hsm.HsmWithQueues.print_spy_after_rtc_if_live._print_spy_if_live',
                   'hsm.HsmWithQueues.queue_reflection', 'hsm.HsmWithQueues.trace_tuple_to_formatted_string'])


def t_complete_circuit(host):
    def run(it):
        c = it.c
        self = make_chart(it, host)
        flags(it, self)
        out = run_body(it, method(it, self, 'complete_circuit'), [])
        c.prove('complete_circuit:post/returns-normally', out.raised is None)
        if out.raised is not None:
            return
        c.prove('complete_circuit:post/queue-empty-on-return', B.seq_len(it, qref(it, self)) == 0, tags=('C14',))
        c.cover('complete_circuit:cover/post-state')
    return Target('complete_circuit@%s' % host, run, ['hsm.HsmWithQueues.complete_circuit'])


def t_defer(host):
    def run(it):
        c = it.c
        self = make_chart(it, host)
        flags(it, self)
        e = symbolic_event(it)
        d = qref(it, self)
        Q0, D0 = view(it, d), view(it, c.read(self, 'defer_queue'))
        mods = defer_mods(it, self) + spy_mods(it, self)
        out = framed(it, 'defer:frame', mods, lambda: run_body(it, method(it, self, 'defer'), [e]))
        c.prove('defer:post/returns-normally', out.raised is None)
        if out.raised is not None:
            return
        Q1, D1 = view(it, d), view(it, c.read(self, 'defer_queue'))
        c.prove('defer:post/deferred-fifo-put', is_fifo_put(D0, D1, e.e), tags=('C15',))
        c.prove('defer:post/queue-untouched', same_seq(Q0, Q1), tags=('C15',))
        c.prove('defer:post/no-dispatch', len(c.pyghost.get('dispatch_calls', [])) == 0, tags=('C15',))
        c.cover('defer:cover/post-state')
    return Target('defer@%s' % host, run, ['hsm.HsmWithQueues.defer',
                                           'hsm.HsmWithQueues.append_defer_to_spy._append_defer_to_spy'])


def t_recall(host):
    def run(it):
        c = it.c
        self = make_chart(it, host)
        flags(it, self)
        d = qref(it, self)
        Q0, D0 = view(it, d), view(it, c.read(self, 'defer_queue'))
        mods = defer_mods(it, self) + spy_mods(it, self) + queue_mods(it, self)
        out = framed(it, 'recall:frame', mods, lambda: run_body(it, method(it, self, 'recall'), []))
        c.prove('recall:post/returns-normally', out.raised is None)
        if out.raised is not None:
            return
        Q1, D1 = view(it, d), view(it, c.read(self, 'defer_queue'))
        if c.branch(D0.len > 0, 'something-deferred'):
            c.prove('recall:post/returns-oldest', c.to_ref(out.value) == D0.at(0), tags=('C15',))
            c.prove('recall:post/deferred-tail', is_tail(D0, D1), tags=('C15',))
            if host in ACTIVE_HOSTS:
                c.prove('recall:post/posted-at-back', z3.And(Q1.len >= 1, Q1.at(Q1.len - 1) == D0.at(0)), tags=('C15',))
                c.prove('recall:post/posted-exact-when-room',
                        z3.Implies(Q0.len < Q0.maxlen, is_fifo_put(Q0, Q1, D0.at(0))), tags=('C15',))
            else:
                c.prove('recall:post/posted-fifo', is_fifo_put(Q0, Q1, D0.at(0)), tags=('C15',))
        else:
            c.prove('recall:post/none-when-empty', c.to_ref(out.value) == NONE, tags=('C15',))
            c.prove('recall:post/deferred-unchanged', same_seq(D0, D1), tags=('C15',))
            c.prove('recall:post/queue-unchanged', same_seq(Q0, Q1), tags=('C15',))
        c.prove('recall:post/no-dispatch', len(c.pyghost.get('dispatch_calls', [])) == 0, tags=('C15',))
        c.cover('recall:cover/post-state')
    return Target('recall@%s' % host, run, ['hsm.HsmWithQueues.recall',
                                            'hsm.HsmWithQueues.append_recall_to_spy._append_recall_to_spy'])
