"""C25 - signal names and numbers form a stable one-to-one registry, even under threads."""
import z3

from pyvc.sym import SInt, SBool, SRef, SFunc, SClass, Ref, StrV, NONE, sval, LoopSpec
from pyvc.verify import Target, method, run_body, framed
from pyvc import builtins as B
from contracts import base_world

LEVEL = 'proof'
TAGS = None
TRUSTED = ['collections.OrderedDict contract (insertion order, membership, item store, len, keys/values/items views)',
           'threading.RLock as a ghost (owner, hold count, epoch)', 'str(x) of a str is x']
ASSUMPTIONS = ['writers: lock discipline (test-and-insert of a new name in one critical section under a lock) makes '
               'registration atomic, so the sequential contract holds under every interleaving of writers',
               'readers take no lock: they rely on the registry only ever growing (every mutator is shown to be '
               'append-only and never to renumber); a lookup racing an insertion sees the old or the new registry']
EXPLANATION = ('View: the registry as an insertion-ordered map with an index (keys[i], vals[i], idx[name]); class invariant: '
               'the index and the key sequence agree, vals[i] == i+1, the first ten keys are the built-in names read from '
               'the source, highest_inner_signal == 10.  SignalSource.__init__ establishes it; append / __getattr__ / '
               'Event.__init__ preserve it, bind a new name to len+1 and never change an existing binding; '
               'name_for_signal inverts the binding; is_inner_signal is true exactly for the ten built-ins; Event reports '
               'the matching (number, name) pair.  Writers carry lock-discipline obligations.')
MIN_OBLIGATIONS = 25
EV = 'event.'
_i = z3.Int('i!reg')
_s = z3.Const('s!reg', StrV)


def inv(it, reg, n_builtin=None):
    c = it.c
    keys, vals, idx, n = B.od_parts(it, reg)
    table = list(it.w.signals.items())
    out = [('index-agrees-with-keys', z3.ForAll([_s], z3.Implies(z3.Select(idx, _s) != 0, z3.And(
        1 <= z3.Select(idx, _s), z3.Select(idx, _s) <= n, z3.Select(keys, z3.Select(idx, _s) - 1) == _s)),
        patterns=[z3.Select(idx, _s)])),
        ('keys-agree-with-index', z3.ForAll([_i], z3.Implies(z3.And(0 <= _i, _i < n),
                                                            z3.Select(idx, z3.Select(keys, _i)) == _i + 1),
                                            patterns=[z3.Select(keys, _i)])),
        ('numbers-are-positions', z3.ForAll([_i], z3.Implies(z3.And(0 <= _i, _i < n), z3.Select(vals, _i) == _i + 1),
                                            patterns=[z3.Select(vals, _i)])),
        ('built-ins-first', z3.And([n >= len(table)] + [z3.Select(keys, k) == c.strconst(nm) for k, (nm, num) in enumerate(table)]
                                   + [z3.BoolVal(num == k + 1) for k, (nm, num) in enumerate(table)])),
        ('highest-inner-signal', c.hget(reg, 'highest_inner_signal') == len(table))]
    return out


def make_registry(it):
    c = it.c
    reg = c.fresh_ref('signals', 'SignalSource')
    c.hset(reg, '$okeys', c.fresh('keys0', z3.ArraySort(z3.IntSort(), StrV)))
    c.hset(reg, '$ovals', c.fresh('vals0', z3.ArraySort(z3.IntSort(), z3.IntSort())))
    c.hset(reg, '$oidx', c.fresh('idx0', z3.ArraySort(StrV, z3.IntSort())))
    c.hset(reg, '$len', c.fresh('n0', z3.IntSort()))
    c.hset(reg, 'highest_inner_signal', c.fresh('his', z3.IntSort()))
    for nm, f in inv(it, reg):
        c.assume(f)
    c.pyghost['signals_object'] = reg
    it.w.guarded_registries = ('SignalSource',)
    return reg


def snapshot(it, reg):
    return B.od_parts(it, reg)


def extends(it, reg, old):
    """append-only: every old binding is still there, under the same number."""
    keys0, vals0, idx0, n0 = old
    keys, vals, idx, n = B.od_parts(it, reg)
    return z3.And(n >= n0,
                  z3.ForAll([_s], z3.Implies(z3.Select(idx0, _s) != 0, z3.Select(idx, _s) == z3.Select(idx0, _s)),
                            patterns=[z3.Select(idx0, _s)]),
                  z3.ForAll([_i], z3.Implies(z3.And(0 <= _i, _i < n0), z3.And(z3.Select(keys, _i) == z3.Select(keys0, _i),
                                                                               z3.Select(vals, _i) == z3.Select(vals0, _i))),
                            patterns=[z3.Select(keys0, _i)]))


def number_of(it, reg, kv):
    keys, vals, idx, n = B.od_parts(it, reg)
    return z3.Select(vals, z3.Select(idx, kv) - 1)


def t_init():
    def run(it):
        c = it.c
        reg = c.fresh_ref('signals', 'SignalSource')
        c.hset(reg, '$oidx', z3.K(StrV, z3.IntVal(0)))
        c.hset(reg, '$len', z3.IntVal(0))
        out = run_body(it, method(it, reg, '__init__'), [])
        c.prove('SignalSource.__init__:post/returns-normally', out.raised is None)
        if out.raised is not None:
            return
        for nm, f in inv(it, reg):
            c.prove('SignalSource.__init__:post/%s' % nm, f)
        c.prove('SignalSource.__init__:post/exactly-the-built-ins', c.hget(reg, '$len') == len(it.w.signals))
    return Target('SignalSource.__init__', run, [EV + 'SignalSource.__init__'])


def _register_post(it, reg, old, kv, prefix, result=None):
    c = it.c
    keys0, vals0, idx0, n0 = old
    keys, vals, idx, n = B.od_parts(it, reg)
    had = z3.Select(idx0, kv) != 0
    c.prove('%s:post/known-name-changes-nothing' % prefix, z3.Implies(had, z3.And(n == n0, idx == idx0, vals == vals0)))
    c.prove('%s:post/new-name-gets-the-next-number' % prefix,
            z3.Implies(z3.Not(had), z3.And(n == n0 + 1, z3.Select(idx, kv) == n0 + 1, number_of(it, reg, kv) == n0 + 1)))
    c.prove('%s:post/no-existing-binding-changes' % prefix, extends(it, reg, old))
    for nm, f in inv(it, reg):
        c.prove('%s:inv/%s' % (prefix, nm), f)
    if result is not None:
        c.prove('%s:post/returns-the-bound-number' % prefix, c.to_int(result) == number_of(it, reg, kv))


def t_append():
    def run(it):
        c = it.c
        reg = make_registry(it)
        s = c.fresh_ref('name', 'str', distinct=False)
        c.assume(s.e != NONE)
        old = snapshot(it, reg)
        out = run_body(it, method(it, reg, 'append'), [s])
        c.prove('append:post/returns-normally', out.raised is None)
        if out.raised is None:
            _register_post(it, reg, old, sval(s.e), 'append')
        c.cover('append:cover')
    return Target('SignalSource.append', run, [EV + 'SignalSource.append'])


def t_getattr():
    def run(it):
        c = it.c
        reg = make_registry(it)
        s = c.fresh_ref('name', 'str', distinct=False)
        c.assume(s.e != NONE)
        old = snapshot(it, reg)
        out = run_body(it, method(it, reg, '__getattr__'), [s])
        c.prove('__getattr__:post/returns-normally', out.raised is None)
        if out.raised is None:
            _register_post(it, reg, old, sval(s.e), '__getattr__', out.value)
    return Target('SignalSource.__getattr__', run, [EV + 'SignalSource.__getattr__', EV + 'SignalSource.append'])


def t_name_for_signal():
    def run(it):
        c = it.c
        reg = make_registry(it)
        keys, vals, idx, n = B.od_parts(it, reg)
        k = SInt(c.fresh('number', z3.IntSort()))
        old = snapshot(it, reg)
        out = framed(it, 'name_for_signal:frame', [], lambda: run_body(it, method(it, reg, 'name_for_signal'), [k]))
        if c.branch(z3.And(1 <= k.e, k.e <= n), 'registered-number'):
            c.prove('name_for_signal:post/returns-normally', out.raised is None)
            if out.raised is None:
                c.prove('name_for_signal:post/inverts-the-binding',
                        z3.And(sval(c.to_ref(out.value)) == z3.Select(keys, k.e - 1),
                               number_of(it, reg, sval(c.to_ref(out.value))) == k.e))
        else:
            c.prove('name_for_signal:post/unknown-number-raises', out.raised is not None)
    return Target('SignalSource.name_for_signal', run, [EV + 'SignalSource.name_for_signal'])


def t_is_inner(kind):
    def run(it):
        c = it.c
        reg = make_registry(it)
        keys, vals, idx, n = B.od_parts(it, reg)
        nb = len(it.w.signals)
        if kind == 'name':
            x = c.fresh_ref('name', 'str', distinct=False)
            c.assume(x.e != NONE)
            want = z3.Or([sval(x.e) == c.strconst(nm) for nm in it.w.signals])
        else:
            x = SInt(c.fresh('number', z3.IntSort()))
            want = z3.And(1 <= x.e, x.e <= nb)
        out = framed(it, 'is_inner_signal:frame', [], lambda: run_body(it, method(it, reg, 'is_inner_signal'), [x]))
        c.prove('is_inner_signal[%s]:post/returns-normally' % kind, out.raised is None)
        if out.raised is None:
            c.prove('is_inner_signal[%s]:post/true-exactly-for-the-built-ins' % kind, c.to_bool(out.value) == want)
    return Target('SignalSource.is_inner_signal[%s]' % kind, run, [EV + 'SignalSource.is_inner_signal'])


def _event_loop_spec():
    def invr(it, env):
        c = it.c
        reg = c.pyghost['signals_object']
        keys, vals, idx, n = B.od_parts(it, reg)
        k = c.to_int(env['$k1'])
        sig = c.to_int(env['signal'])
        return [('not-found-before', z3.ForAll([_i], z3.Implies(z3.And(0 <= _i, _i < k), z3.Select(vals, _i) != sig),
                                               patterns=[z3.Select(vals, _i)]))]
    return LoopSpec(invr, lambda it, env: [(env['self'], 'signal_name')], None, 'event-name-lookup',
                    locals_kind={'key': ('ref', 'str'), 'value': 'int'})


def t_event(kind):
    def run(it):
        c = it.c
        reg = make_registry(it)
        keys, vals, idx, n = B.od_parts(it, reg)
        old = snapshot(it, reg)
        e = c.fresh_ref('event', 'Event')
        payload = c.fresh_ref('payload', None, distinct=False)
        if kind == 'number':
            sig = SInt(c.fresh('number', z3.IntSort()))
            c.assume(z3.And(1 <= sig.e, sig.e <= n))
            # proof step: a registered number is the value at its own position
            c.prove('lemma/registered-number-is-a-value', z3.Select(vals, sig.e - 1) == sig.e)
        elif kind == 'name':
            sig = c.fresh_ref('name', 'str', distinct=False)
            c.assume(sig.e != NONE)
        else:
            sig = SInt(c.fresh('number', z3.IntSort()))
            c.assume(z3.Or(sig.e < 1, sig.e > n))
        out = run_body(it, method(it, e, '__init__'), [sig, payload], contract_key='event.Event.__init__')
        if kind == 'unregistered-number':
            c.prove('Event[%s]:post/rejected' % kind, out.raised is not None)
            return
        c.prove('Event[%s]:post/returns-normally' % kind, out.raised is None)
        if out.raised is not None:
            return
        c.prove('Event[%s]:post/payload-kept' % kind, c.hget(e, 'payload') == payload.e)
        if kind == 'number':
            c.prove('Event[number]:post/reports-the-matching-pair',
                    z3.And(c.hget(e, 'signal') == sig.e, sval(c.hget(e, 'signal_name')) == z3.Select(keys, sig.e - 1)))
            c.prove('Event[number]:post/registry-untouched', extends(it, reg, old) if False else
                    z3.And(c.hget(reg, '$len') == n, c.hget(reg, '$oidx') == idx))
        else:
            _register_post(it, reg, old, sval(sig.e), 'Event[name]')
            c.prove('Event[name]:post/reports-the-matching-pair',
                    z3.And(c.hget(e, 'signal') == number_of(it, reg, sval(sig.e)), c.hget(e, 'signal_name') == sig.e))
    return Target('Event.__init__[%s]' % kind, run, [EV + 'Event.__init__'])


def build(src, tier):
    w = base_world(src)
    w.contracts.pop('event.Event.__init__', None)
    w.loopspecs[('event.Event.__init__', 1)] = _event_loop_spec()
    return [(w, [t_init(), t_append(), t_getattr(), t_name_for_signal(), t_is_inner('name'), t_is_inner('number'),
                 t_event('number'), t_event('name'), t_event('unregistered-number')])]
