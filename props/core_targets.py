"""Targets for the core event processor (C01, C02, C03, C22, C23, C24)."""
import z3

from pyvc.sym import SInt, SBool, SRef, Ref, NONE, name_of
from pyvc.verify import Target, method, run_body, framed
from pyvc import builtins as B
from pyvc.builtins import TOP
from contracts import base_world
from contracts import hsm_core as H
from contracts import tree as T
from contracts.tree import parent, depth, anc, is_state, encloses, strictly_encloses, is_lca
from contracts.common import make_chart, symbolic_event

CORE = 'hsm.HsmEventProcessor.'


def world_for(src, tier, weak=False, spied=False):
    w = base_world(src)
    H.install(w, weak=weak, spied=spied)
    return w


def spied_chart(it, host):
    """Inv_idle for a chart whose states all carry @spy_on, hosted on an instrumented processor."""
    c = it.c
    self, cur = H.chart_pre(it, host)
    c.hset(self, 'instrumented', c.fresh('instrumented', z3.BoolSort()))
    c.hset(self, 'state_name', name_of(cur))
    c.hset(self, 'state_fn', c.fresh('state_fn0', Ref))
    rtc = c.read(self, 'rtc')
    for f in ('spy', 'tuples'):
        d = c.read(rtc, f)
        c.assume(B.seq_len(it, d) < c.hget(d, '$maxlen') - 100)
    return self, cur


def t_query_spied(which, host='InstrumentedHsmEventProcessor'):
    """is_in / child_state on a chart with spy-decorated states: the answer and -- the frame half of C22 -- the
    names the chart reports about itself are those of the current state afterwards."""
    def run(it):
        c, g = it.c, it.c.ghost
        self, cur = spied_chart(it, host)
        H.mon_init(c, cur, NONE, H.SEARCH)
        c.pyghost['cur0'] = cur
        X = c.fresh_ref('X', 'state', distinct=False)
        c.assume(X.e != NONE)
        out = run_body(it, method(it, self, which), [X])
        if which == 'is_in':
            c.prove('is_in[spied]:post/returns-normally', out.raised is None, tags=('C22',))
        if out.raised is None or out.raised == 'AssertionError':
            c.prove('%s[spied]:post/state_name-still-names-the-current-state' % which,
                    c.hget(self, 'state_name') == name_of(cur), tags=('C22', 'C23'))
            c.prove('%s[spied]:post/state_fn-still-is-the-current-state' % which,
                    z3.Or(c.hget(self, 'state_fn') == cur, c.hget(self, 'state_fn') == I_raw_of(cur)), tags=('C22', 'C23'))
            c.prove('%s[spied]:post/chart-unchanged' % which,
                    z3.And(H.state_fun(it, self) == cur, H.temp_fun(it, self) == cur), tags=('C22', 'idle'))
        if which == 'is_in' and out.raised is None:
            c.prove('is_in[spied]:post/true-iff-current-or-enclosing', c.to_bool(out.value) == encloses(X.e, cur),
                    tags=('C22',))
        c.cover('%s[spied]:cover' % which)
    return Target('%s@%s[spied]' % (which, host), run, [CORE + which, 'hsm.spy_on._spy_on'])


def I_raw_of(x):
    from .instr_targets import raw_of
    return raw_of(x)


def t_tree_lemmas():
    def run(it):
        for ob in T.lemma_obligations():
            ob.sig = ()
            it.c.obligations.append(ob)
    return Target('tree-theory', run, [])


def t_start_at(host='HsmEventProcessor'):
    def run(it):
        c, g = it.c, it.c.ghost
        self = make_chart(it, host, with_queues=False)
        S = c.fresh_ref('S', 'state', distinct=False)
        c.assume(z3.And(is_state(S.e), S.e != TOP))
        H.mon_init(c, TOP, S.e, H.ENTERING)
        c.pyghost['state_fun0'] = TOP
        c.pyghost['start_state'] = S.e
        st, tm = H.state_of(it, self), H.temp_of(it, self)
        mods = [(st, 'fun'), (tm, 'fun'), (self, 'state_name'), (self, 'state_fn')]
        out = framed(it, 'start_at:frame', mods, lambda: run_body(it, method(it, self, 'start_at'), [S]))
        c.prove('start_at:post/returns-normally', out.raised is None, tags=('C03', 'C24'))
        if out.raised is not None:
            return
        cur = H.state_fun(it, self)
        c.prove('start_at:post/rests-in-last-init-target', z3.And(g['g_cur'] == g['g_goal'], cur == g['g_cur']),
                tags=('C03',))
        c.prove('start_at:post/last-init-declined', z3.And(g['g_n_in'] >= 1, z3.Not(g['g_last_in_tran'])), tags=('C03',))
        c.prove('start_at:post/nothing-exited', g['g_n_ex'] == 0, tags=('C03',))
        c.prove('start_at:post/one-entry-per-level', g['g_n_en'] == depth(cur), tags=('C03',))
        c.prove('start_at:post/start-state-on-the-path', encloses(S.e, cur), tags=('C03',))
        c.prove('start_at:post/temp-settled', H.temp_fun(it, self) == cur, tags=('C03', 'C23', 'idle'))
        c.prove('start_at:post/state_name', c.hget(self, 'state_name') == name_of(cur), tags=('C23',))
        c.prove('start_at:post/state_fn', c.hget(self, 'state_fn') == cur, tags=('C23',))
        c.cover('start_at:cover/post-state')
    return Target('start_at@%s' % host, run, [CORE + 'start_at', CORE + 'init', CORE + 'top'])


def t_trans_():
    """The real trans_ body against its contract, for every tree, every source S and target T."""
    def run(it):
        c, g = it.c, it.c.ghost
        self = make_chart(it, 'HsmEventProcessor', with_queues=False)
        S, T = c.fresh('S', Ref), c.fresh('T', Ref)
        tp = B.new_list(it, [SRef(T, 'state'), None, SRef(S, 'state')], 'state')
        c.hset(tp, '$items', z3.Store(B.seq_items(it, tp), 1, c.fresh('slot1', Ref)))
        H.mon_init(c, S, T, H.SEARCH)
        g['g_phase'] = c.fresh('phase0', z3.IntSort())
        g['g_n_ex'] = c.fresh('n_ex0', z3.IntSort())
        g['g_S'], g['g_T'] = S, T
        c.pyghost['S'], c.pyghost['T'], c.pyghost['n_ex0'] = S, T, g['g_n_ex']
        for nm, f in H.trans_pre(it, self, tp, 2):
            c.assume(f)
        c.hset(H.temp_of(it, self), 'fun', c.fresh('tf0', Ref))
        st0 = H.state_fun(it, self)
        mods = [(tp, '$items'), (tp, '$len'), (H.temp_of(it, self), 'fun')]
        out = framed(it, 'trans_:frame', mods, lambda: run_body(it, method(it, self, 'trans_'), [tp, 2]))
        c.prove('trans_:post/returns-normally', out.raised is None, tags=('C01', 'C24'))
        if out.raised is not None:
            return
        ip = c.to_int(out.value)
        for nm, f in H.trans_post(it, self, tp, S, T, c.pyghost['n_ex0'], ip):
            c.prove('trans_:post/%s' % nm, f, tags=('C01',))
        c.cover('trans_:cover/post-state')
    return Target('trans_', run, [CORE + 'trans_', CORE + 'top'])


def t_dispatch(host='HsmEventProcessor'):
    """dispatch(e) for every tree, current state, reaction of every state on the active path, init chain."""
    def run(it):
        c, g = it.c, it.c.ghost
        self, cur = H.chart_pre(it, host)
        e = symbolic_event(it)
        H.mon_init(c, cur, NONE, H.SEARCH, offer_next=cur)
        g['g_L'] = NONE
        c.pyghost['cur0'] = cur
        st, tm, ev = H.state_of(it, self), H.temp_of(it, self), c.read(self, 'event')
        mods = [(st, 'fun'), (tm, 'fun'), (ev, 'ignored'), (self, 'state_name'), (self, 'state_fn')]
        out = framed(it, 'dispatch:frame', mods, lambda: run_body(it, method(it, self, 'dispatch'), [e]))
        c.prove('dispatch:post/returns-normally', out.raised is None, tags=('C01', 'C02', 'C24'))
        if out.raised is not None:
            return
        new = H.state_fun(it, self)
        tran = g['g_answer'] == 1
        c.prove('dispatch:post/answered', z3.And(g['g_answer'] >= 1, g['g_expect_empty'] == NONE), tags=('C02',))
        # (i) a transition
        c.prove('dispatch:post/turns-at-lca', z3.Implies(tran, z3.And(g['g_turned'], is_lca(g['g_turn'], g['g_S'], g['g_T']))),
                tags=('C01',))
        c.prove('dispatch:post/rests-in-last-init-target',
                z3.Implies(tran, z3.And(g['g_cur'] == g['g_goal'], new == g['g_cur'], g['g_n_in'] >= 1,
                                        z3.Not(g['g_last_in_tran']))), tags=('C01',))
        # (ii) handled / ignored / other: nothing happens
        c.prove('dispatch:post/no-action-unless-transition',
                z3.Implies(z3.Not(tran), z3.And(g['g_n_ex'] == 0, g['g_n_en'] == 0, g['g_n_in'] == 0, new == cur)),
                tags=('C02',))
        c.prove('dispatch:post/ignored-flag', c.hget(ev, 'ignored') == (g['g_answer'] == 3), tags=('C02', 'C20'))
        c.prove('dispatch:post/temp-settled', z3.And(H.temp_fun(it, self) == new, is_state(new)),
                tags=('C01', 'C02', 'C23', 'idle'))
        c.prove('dispatch:post/state_name', c.hget(self, 'state_name') == name_of(new), tags=('C23',))
        c.prove('dispatch:post/state_fn', c.hget(self, 'state_fn') == new, tags=('C23',))
        c.cover('dispatch:cover/post-state')
    return Target('dispatch@%s' % host, run, [CORE + 'dispatch', CORE + 'trans', CORE + 'top'])


def t_top():
    """top of both classes against its row of the handler contract: IGNORED, no effect (client events)."""
    def run(it):
        c = it.c
        for host in ('HsmEventProcessor', 'HsmWithQueues'):
            self = make_chart(it, host, with_queues=False)
            e = symbolic_event(it)
            tf0 = H.temp_fun(it, self)
            out = framed(it, 'top:frame', [], lambda: run_body(it, method(it, self, 'top'), [self, e]))
            c.prove('%s.top:post/ignored-and-no-effect' % host,
                    z3.And(out.raised is None, c.to_int(out.value) == it.w.statuses['IGNORED'],
                           H.temp_fun(it, self) == tf0) if out.raised is None else False, tags=('C02',))
    return Target('top', run, [CORE + 'top'])


def _mon_snapshot(c):
    return dict((k, c.ghost[k]) for k in H.MON_VARS)


def _mon_unchanged(c, snap):
    return z3.And([c.ghost[k] == v for k, v in snap.items()])


def t_is_in(host='HsmEventProcessor'):
    def run(it):
        c, g = it.c, it.c.ghost
        self, cur = H.chart_pre(it, host)
        H.mon_init(c, cur, NONE, H.SEARCH)
        c.pyghost['cur0'] = cur
        X = c.fresh_ref('X', 'state', distinct=False)
        c.assume(X.e != NONE)
        snap = _mon_snapshot(c)
        c.harr('state_name'); c.harr('state_fn')
        c.pyghost['heap0'] = dict(c.heap)
        out = framed(it, 'is_in:frame', [(H.temp_of(it, self), 'fun'), (self, 'state_name'), (self, 'state_fn')],
                     lambda: run_body(it, method(it, self, 'is_in'), [X]))
        c.prove('is_in:post/returns-normally', out.raised is None, tags=('C22',))
        if out.raised is not None:
            return
        res = c.to_bool(out.value)
        c.prove('is_in:post/true-iff-current-or-enclosing', res == encloses(X.e, cur), tags=('C22',))
        c.prove('is_in:post/chart-unchanged', z3.And(H.state_fun(it, self) == cur, H.temp_fun(it, self) == cur),
                tags=('C22', 'idle'))
        c.prove('is_in:post/no-action-no-offer', _mon_unchanged(c, snap), tags=('C22',))
        for f, v in (('state_name', name_of(cur)), ('state_fn', cur)):
            c.prove('is_in:post/%s-names-the-current-state-if-touched' % f,
                    z3.Or(c.hget(self, f) == v, c.hget(self, f) == z3.Select(c.pyghost['heap0'][f], self.e)
                          if f in c.pyghost.get('heap0', {}) else z3.BoolVal(False)), tags=('C22', 'C23'))
        c.cover('is_in:cover')
    return Target('is_in@%s' % host, run, [CORE + 'is_in'])


def t_child_state(host='HsmEventProcessor'):
    def run(it):
        c, g = it.c, it.c.ghost
        self, cur = H.chart_pre(it, host)
        H.mon_init(c, cur, NONE, H.SEARCH)
        c.pyghost['cur0'] = cur
        P = c.fresh_ref('P', 'state', distinct=False)
        c.assume(P.e != NONE)
        snap = _mon_snapshot(c)
        out = framed(it, 'child_state:frame', [(H.temp_of(it, self), 'fun'), (self, 'state_name'), (self, 'state_fn')],
                     lambda: run_body(it, method(it, self, 'child_state'), [P]))
        if out.raised is None:
            c.prove('child_state:post/returns-only-when-enclosing', encloses(P.e, cur), tags=('C22',))
            c.prove('child_state:post/child-on-path-to-current',
                    c.to_ref(out.value) == z3.If(P.e == cur, cur, anc(cur, depth(P.e) + 1)), tags=('C22',))
        else:
            c.prove('child_state:post/fails-with-AssertionError', out.raised == 'AssertionError', tags=('C22',))
            c.prove('child_state:post/fails-only-when-not-enclosing', z3.Not(encloses(P.e, cur)), tags=('C22',))
        c.prove('child_state:post/chart-unchanged', z3.And(H.state_fun(it, self) == cur, H.temp_fun(it, self) == cur),
                tags=('C22', 'idle'))
        c.prove('child_state:post/no-action-no-offer', _mon_unchanged(c, snap), tags=('C22',))
        c.cover('child_state:cover')
    return Target('child_state@%s' % host, run, [CORE + 'child_state'])


# ------------------------------------------------------------------ C24: weakened handler contract
def t_start_at_weak():
    def run(it):
        c, g = it.c, it.c.ghost
        self = make_chart(it, 'HsmEventProcessor', with_queues=False)
        S = c.fresh_ref('S', 'state', distinct=False)
        c.assume(z3.And(is_state(S.e), S.e != TOP))
        H.mon_init(c, TOP, S.e, H.ENTERING)
        c.pyghost['state_fun0'] = TOP
        c.pyghost['start_state'] = S.e
        out = run_body(it, method(it, self, 'start_at'), [S])
        if out.raised is None:
            c.prove('start_at[malformed]:post/returns-only-if-every-initial-transition-went-inside',
                    z3.Not(g['g_bad']), tags=('C24',))
            c.prove('start_at[malformed]:post/rests-in-last-init-target',
                    z3.And(g['g_cur'] == g['g_goal'], H.state_fun(it, self) == g['g_cur'], z3.Not(g['g_last_in_tran'])),
                    tags=('C24',))
        else:
            c.prove('start_at[malformed]:post/fails-with-HsmTopologyException', out.raised == 'HsmTopologyException',
                    tags=('C24',))
            c.prove('start_at[malformed]:post/fails-only-for-a-malformed-chart', g['g_bad'], tags=('C24',))
        c.cover('start_at[malformed]:cover')
    return Target('start_at[weak contract]', run, [CORE + 'start_at', CORE + 'init'])


def t_trans_weak():
    """The real trans_ body when states on the way into the target may give no status (None) to the super search:
    it terminates, raises HsmTopologyException as soon as such a state is consulted -- before any exit or entry that the
    monitor would reject -- and otherwise meets the strict contract.  The active configuration is free of such
    states (start_at and the drill-down in dispatch refuse to enter one: repeat-parent detection)."""
    def run(it):
        c, g = it.c, it.c.ghost
        self = make_chart(it, 'HsmEventProcessor', with_queues=False)
        S, T = c.fresh('S', Ref), c.fresh('T', Ref)
        tp = B.new_list(it, [SRef(T, 'state'), None, SRef(S, 'state')], 'state')
        c.hset(tp, '$items', z3.Store(B.seq_items(it, tp), 1, c.fresh('slot1', Ref)))
        H.mon_init(c, S, T, H.SEARCH)
        g['g_phase'] = c.fresh('phase0', z3.IntSort())
        g['g_n_ex'] = c.fresh('n_ex0', z3.IntSort())
        g['g_S'], g['g_T'] = S, T
        g['g_bad'] = z3.BoolVal(False)
        c.pyghost['S'], c.pyghost['T'], c.pyghost['n_ex0'] = S, T, g['g_n_ex']
        for nm, f in H.trans_pre(it, self, tp, 2):
            c.assume(f)
        a = z3.Const('a!act', Ref)
        c.assume(z3.ForAll([a], z3.Implies(z3.And(is_state(a), encloses(a, S)), z3.Not(H.faulty(a))),
                           patterns=[H.faulty(a)]))
        # the cursor is wherever the exits in dispatch left it (a state that gives no status does not move it)
        c.hset(H.temp_of(it, self), 'fun', c.fresh('tf0', Ref))
        mods = [(tp, '$items'), (tp, '$len'), (H.temp_of(it, self), 'fun')]
        out = framed(it, 'trans_[faulty]:frame', mods, lambda: run_body(it, method(it, self, 'trans_'), [tp, 2]))
        if out.raised is not None:
            c.prove('trans_[faulty]:post/fails-with-HsmTopologyException', out.raised == 'HsmTopologyException',
                    tags=('C24',))
            c.prove('trans_[faulty]:post/fails-only-after-a-state-gave-no-status', g['g_bad'], tags=('C24',))
            c.prove('trans_[faulty]:post/nothing-entered-before-the-failure',
                    z3.And(g['g_n_en'] == 0, g['g_n_in'] == 0), tags=('C24',))
            c.cover('trans_[faulty]:cover/raises')
            return
        c.prove('trans_[faulty]:post/returns-only-if-every-state-answered-the-super-search', z3.Not(g['g_bad']),
                tags=('C24',))
        ip = c.to_int(out.value)
        for nm, f in H.trans_post(it, self, tp, S, T, c.pyghost['n_ex0'], ip):
            c.prove('trans_[faulty]:post/%s' % nm, f, tags=('C24',))
        c.cover('trans_[faulty]:cover/post-state')
    return Target('trans_[weak contract]', run, [CORE + 'trans_', CORE + 'top'])


def t_dispatch_weak():
    def run(it):
        c, g = it.c, it.c.ghost
        self, cur = H.chart_pre(it, 'HsmEventProcessor')
        e = symbolic_event(it)
        H.mon_init(c, cur, NONE, H.SEARCH, offer_next=cur)
        g['g_L'] = NONE
        c.pyghost['cur0'] = cur
        if getattr(it.w, 'faulty_super', False):
            # no active state is one that gives no status to the super search (start_at and the entry paths refuse
            # to enter such a state)
            a = z3.Const('a!act', Ref)
            c.assume(z3.ForAll([a], z3.Implies(z3.And(is_state(a), encloses(a, cur)), z3.Not(H.faulty(a))),
                               patterns=[H.faulty(a)]))
        out = run_body(it, method(it, self, 'dispatch'), [e])
        none = bool(c.pyghost.get('returned_none'))
        if out.raised is None:
            c.prove('dispatch[malformed]:post/returns-only-if-nothing-was-malformed',
                    z3.And(z3.Not(g['g_bad']), z3.BoolVal(not none)), tags=('C24',))
            c.prove('dispatch[malformed]:post/rests-in-last-init-target',
                    z3.Implies(g['g_answer'] == 1, z3.And(g['g_cur'] == g['g_goal'], H.state_fun(it, self) == g['g_cur'])),
                    tags=('C24',))
        else:
            c.prove('dispatch[malformed]:post/fails-with-HsmTopologyException', out.raised == 'HsmTopologyException',
                    tags=('C24',))
            c.prove('dispatch[malformed]:post/fails-only-for-a-malformed-chart', z3.Or(g['g_bad'], z3.BoolVal(none)),
                    tags=('C24',))
        c.cover('dispatch[malformed]:cover')
    return Target('dispatch[weak contract]', run, [CORE + 'dispatch', CORE + 'trans_'])
