"""C03 - start_at enters the enclosing states outside-in and follows initial transitions."""
from . import core_targets as K

LEVEL = 'proof'
TAGS = ('C03', 'tree', 'wf')
TRUSTED = ['abstract handler contract = definition of a well-formed chart (DESIGN 5.2)',
           'induction over depth as proof principle for the tree lemmas (each lemma is a discharged obligation)',
           'list contract (append, index, store)', 'Event.__init__ contract (proved under C25)']
ASSUMPTIONS = ['state functions obey the handler contract (that is the input domain of the property)']
EXPLANATION = ('start_at and init of the real source are executed symbolically over an uninterpreted finite tree '
               '(parent/depth/anc); every handler call is checked against the UML monitor (an entry must be the child '
               'of the current configuration on the way to the goal, an init only at the goal, no exit at all); three '
               'loop invariants with variants cover every depth and every chain of initial transitions.')
MIN_OBLIGATIONS = 40


def build(src, tier):
    w = K.world_for(src, tier)
    return [(w, [K.t_tree_lemmas(), K.t_start_at()])]
