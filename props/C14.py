"""C14 - queued charts dispatch posted events in deque order, one per step."""
from . import queue_targets as Q
from .C16 import t_chart_init

LEVEL = 'proof'
TAGS = ('C14',)
TRUSTED = ['collections.deque contract (DESIGN 5.4)', 'LockingDeque contracts (proved under C16)',
           'Event.__init__ contract (proved under C25)']
ASSUMPTIONS = [
    'posts made by handlers during a step are separate operations of the history; what next_rtc owes them is that '
    'the queue is already popped when dispatch is called (proved)',
    'termination of complete_circuit is not claimed (a handler may post forever)',
    'user live-output callbacks do not touch the chart',
]
EXPLANATION = ('post_fifo, post_lifo, next_rtc and complete_circuit of the real source, with all their decorators '
               'inlined, are verified against the operations of a double-ended queue for every queue content, every '
               'flag combination and both hosts.  Each operation refines the corresponding deque operation, so the '
               'dispatch order equals that of a deque driven by the same operations (composition of the contracts).')
MIN_OBLIGATIONS = 30


def build(src, tier):
    w = Q.world_for(src, tier)
    ts = []
    for host in Q.HOSTS:
        ts += [Q.t_post(host, 'fifo', ('C14',)), Q.t_post(host, 'lifo', ('C14',)), Q.t_next_rtc(host),
               Q.t_complete_circuit(host)]
    ts.append(t_chart_init('HsmWithQueues'))
    # starting the chart leaves the events posted before start_at where they are
    from . import instr_targets as I
    return [(w, ts), (I.instr_world(src, tier), [I.t_start_body('HsmWithQueues')]),
            (I.instr_world(src, tier), [I.t_start_body('ActiveObject')])]
