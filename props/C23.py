"""C23 - state_name and state_fn always describe the current state."""
from . import instr_targets as I

LEVEL = 'proof'
TAGS = ('C23', 'idle')
TRUSTED = I.COMMON_TRUSTED
ASSUMPTIONS = []
EXPLANATION = 'Post-conditions of start_at and dispatch on every host: the plain processor (core targets over the tree theory), the instrumented stacks around the core contract (the last write of state_name in the whole decorated call names the current state, although reflection calls on spy-decorated states write it too), _spy_on itself, is_in/child_state on spy-decorated charts, and current_state().'
MIN_OBLIGATIONS = 10


def build(src, tier):
    out = I.family(src, tier)
    from . import core_targets as K
    w = K.world_for(src, tier)
    ws = K.world_for(src, tier, spied=True)
    out += [(w, [K.t_tree_lemmas(), K.t_start_at(), K.t_dispatch(), K.t_trans_()]), (ws, [K.t_query_spied('is_in'), K.t_query_spied('child_state')])]
    return out
