"""C11 - cancelling a timed source stops exactly that source, for good."""
from . import timer_targets as TT

LEVEL = 'proof'
TAGS = ('C11',)
TRUSTED = ['deque contract (index -1, pop, rotate(1))', 'threading.Event is a boolean', 'uuid4 values are unique']
ASSUMPTIONS = ['the window between the timer thread\'s flag test and its post is a schedule question: a cancel '
               'returning inside that window is followed by one more post (not covered)',
               'every tracked source has its own run event (established where sources are tracked, C10)']
EXPLANATION = ('cancel_event / cancel_events of the real source with a loop invariant over the examine-last/rotate idiom '
               '(index maps src/pos: after j iterations the deque is K ++ P0[0..n-j), K the non-matching examined entries '
               'in order).  Matching is by VALUE: the id / name handed in is any object equal to the stored one, not '
               'necessarily the same object.')
MIN_OBLIGATIONS = 20


def build(src, tier):
    w = TT.world_for(src, tier)
    # cancellation can only reach sources that are tracked: what __post_event owes (tags C11) is checked here too
    # ... and that stay tracked: the container holds as many records as the admission test of __post_event lets in
    from . import queue_targets as Q
    from .C16 import t_ao_init_subclass
    return [(Q.world_for(src, tier), [t_ao_init_subclass()]), (w, [TT.t_cancel_events(), TT.t_cancel_event(), TT.t_timed_post('fifo'), TT.t_timed_post('lifo'),
                 TT.t_timed_post('fifo', may_cancel=True), TT.t_timed_post('lifo', may_cancel=True)])]
