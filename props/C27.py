"""C27 - thread-safe attributes lose no updates and never fail under concurrency."""
from . import tsa_targets as T

LEVEL = 'proof'
TAGS = ('C27', 'lock')
TRUSTED = ['threading.RLock as a ghost (owner, hold count, critical-section epoch); mutual exclusion is the lock\'s job',
           'statement shapes of Python: read = __get__; assignment = __set__; augmented assignment = __get__, compute, '
           '__set__ on one source line', 'classification of source lines (regular-language obligations, decided under C28)']
ASSUMPTIONS = ['lock-discipline argument: if every access to the guarded fields (_value, _is_atomic) holds the lock, every '
               'statement shape is one critical section and every shape ends with hold count 0, then each statement is '
               'atomic, so the final value is that of some serial order, no RuntimeError, no deadlock (one lock)']
EXPLANATION = ('Ownership obligations on ThreadSafeAttribute: _value and _is_atomic are declared guarded_by(_lock); every '
               'read and write in __get__/__set__ must hold the lock, release only by the owner, hold count 0 at the end of '
               'each statement shape, read-modify-write in a single critical section.  The calling thread may find the '
               'shared flag in any state (another thread may be mid-operation).')
MIN_OBLIGATIONS = 10


def build(src, tier):
    return [(T.world_for(src, tier), [T.t_get(), T.t_set_plain(), T.t_augassign()])]
