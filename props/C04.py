"""C04 - an active object dispatches every posted event exactly once, in queue order (operation level)."""
from . import ao_targets as A
from . import queue_targets as Q
from .C16 import t_ld_put, t_ld_clear, t_ao_init_subclass
from .registry import OPLEVEL

LEVEL = 'proof'
TAGS = ('C04',)
TRUSTED = ['queue.Queue / deque contracts', 'LockingDeque contracts (proved under C16)',
           'threading.Thread runs target(*args) in one thread']
ASSUMPTIONS = [OPLEVEL, 'the three statements of LockingDeque.append and the consumer\'s wait/len/popleft interleave '
               'without a lock: whether the repair loop restores tokens == len under every such schedule is not decided '
               'here (see C05 under not_applicable)']
EXPLANATION = ('System invariant I_AO over whole operations: tokens == |queue| when idle and at most one live consumer '
               'thread per object.  Proved: (a) post_fifo/post_lifo of an active object add one event at the right end '
               'and keep one token per event; (b) one wake-up of run_event takes one token and calls next_rtc at most '
               'once, exactly when an event waits, the fabric runs and the head is not the stop marker; (c) next_rtc '
               'pops exactly the head before dispatching it; (d) __start creates a consumer thread only when none is '
               'alive and binds it to this object\'s flag and queue.  Hence every event leaves the queue only through a '
               'popleft followed by its dispatch, in queue order, and steps never overlap.')
MIN_OBLIGATIONS = 20


def build(src, tier):
    w = A.world_for(src, tier)
    w2 = Q.world_for(src, tier)
    return [(w, [A.t_run_event_iteration(), A.t_ao_start()]),
            (w2, [Q.t_post('ActiveObject', 'fifo', ('C04',)), Q.t_post('ActiveObject', 'lifo', ('C04',)),
                  Q.t_next_rtc('ActiveObject'), t_ld_put('fifo'), t_ld_put('lifo'), t_ld_clear(), t_ao_init_subclass()])]
