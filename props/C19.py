"""C19 - the spy log records exactly the state invocations the processor made."""
from . import instr_targets as I

LEVEL = 'proof'
TAGS = ('C19',)
TRUSTED = I.COMMON_TRUSTED
ASSUMPTIONS = ['a single step longer than the 250-line step buffer loses its oldest lines before they reach the full log (stated by the property as truncation)']
EXPLANATION = "_spy_on verified for every host and event kind: one invocation line first, the user code's own markers in between, a HOOK line exactly when a client event was handled internally, one tuple describing the invocation, nothing when not instrumented.  The core (dispatch, trans_, init, is_in, child_state) never writes a log (frame obligations of C01-C03, C22).  Step framing: the step log is cleared before the step and the full spy is extended by exactly the step log; START is the first line of the start step."
MIN_OBLIGATIONS = 10


def build(src, tier):
    out = I.family(src, tier)
    # the core never writes a log itself: its frame obligations are part of this property
    from . import core_targets as K
    w = K.world_for(src, tier)
    out += [(w, [K.t_start_at(), K.t_dispatch(), K.t_trans_(), K.t_is_in(), K.t_child_state()])]
    # the documented markers of a step: posts, deferrals, recalls, scribbles
    from contracts import base_world
    from contracts import queues as Q
    wm = base_world(src)
    Q.install(wm)
    out += [(wm, I.marker_targets() + [I.t_clear('clear_spy')])]
    # which invocations are logged as internal ones is decided by SignalSource.is_inner_signal: its contract (true
    # exactly for the built-in signals, whatever their names look like) is part of this property too
    from . import C25
    wr = base_world(src)
    out += [(wr, [C25.t_is_inner('name'), C25.t_is_inner('number')])]
    return out
