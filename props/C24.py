"""C24 - impossible initial transitions raise instead of hanging."""
from . import core_targets as K

LEVEL = 'proof'
TAGS = ('C24', 'C01', 'C03', 'termination', 'tree', 'wf')
TRUSTED = ['the WEAKENED handler contract: an initial transition may name any state of the chart (not nested, or the state '
           'itself), an offer may return None, and a state may answer the super search with None leaving the cursor where it '
           'was; everything else as in DESIGN 5.2',
           'the chart is finite (some bound DMAX on depth exists)', 'tree lemmas (discharged obligations)']
ASSUMPTIONS = ['exactly the malformations of the property are admitted; other violations of the handler contract are not',
               'no state of the active configuration gives no status (None) to the super search: pre-condition of '
               'dispatch[weak] and trans_[weak].  Every ENTRY call made by start_at / dispatch carries the obligation '
               '"the entered state answers the super search" (proved); that the active configuration consists of top and '
               'of states that were entered and not exited is the (unmechanised) induction over the history']
EXPLANATION = ('start_at/init and dispatch are verified a second time under the weakened contract, with their own loop '
               'invariants: (1) termination -- every loop has a variant, the outer init loops use DMAX - depth; (2) the '
               'monitor obligations still hold at every entry/exit/init call, i.e. no wrong state is entered before the '
               'failure; (3) a normal return implies that no initial transition went outside (or nowhere) and no handler '
               'returned None; (4) the only exception is HsmTopologyException.')
MIN_OBLIGATIONS = 60


def build(src, tier):
    w = K.world_for(src, tier, weak=True)
    w.faulty_super = True
    w2 = K.world_for(src, tier, weak=True)
    w2.faulty_super = True
    return [(w, [K.t_tree_lemmas(), K.t_start_at_weak(), K.t_dispatch_weak()]), (w2, [K.t_trans_weak()])]
