"""C13 - fabric start/stop/restart keeps exactly one delivery thread per kind."""
from . import fabric_targets as FT
from .registry import OPLEVEL

LEVEL = 'proof'
TAGS = ('C13',)
TRUSTED = ['threading.Thread/Event contracts (DESIGN 5.6): start sets alive; join returns after the target loop exits',
           'fair scheduling (a woken delivery thread whose flag is clear reaches its loop test)']
ASSUMPTIONS = [OPLEVEL, 'start/stop/clear/is_alive run as whole operations (no two callers inside start() at once)']
EXPLANATION = ('Inv_fab (per kind: the ghost count of live delivery threads equals "handle is a live thread", and a live '
               'thread is bound to the fabric\'s current queue and registry objects) is shown to be preserved by start, '
               'stop and clear for every combination of missing / dead / live handles; is_alive is verified against it.')
MIN_OBLIGATIONS = 20


def build(src, tier):
    w = FT.world_for(src, tier)
    return [(w, [FT.t_start(), FT.t_is_alive(), FT.t_stop(), FT.t_clear(), FT.t_runner_exit('fifo'),
                 FT.t_runner_exit('lifo'), FT.t_runner_iteration('fifo'), FT.t_runner_iteration('lifo')])]
