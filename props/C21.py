"""C21 - live spy/trace output emits every line once, in order, whatever the clock says."""
from . import instr_targets as I
import z3
from pyvc.sym import SRef, Ref
from pyvc.verify import Target, method, run_body

LEVEL = 'proof'
TAGS = ('C21',)
TRUSTED = I.COMMON_TRUSTED
ASSUMPTIONS = ['live flags are not toggled between steps', 'the writer thread of an active object takes the items of its line queue in order and calls fn(content) for each (queue.Queue is FIFO; the five-line thread function is not under contract); InstrumenationWriterClass.__init__ and _print are']
EXPLANATION = 'The four live-output wrappers of the real source are verified around an abstract step that appends at most one trace record whose timestamp is an arbitrary clock reading (possibly equal to any earlier one) and any number of spy lines: the trace callback runs exactly once iff a record was appended, the spy callback once per line of the step, in order (loop invariant over the callback log).'
MIN_OBLIGATIONS = 10


W = 'activeobject.InstrumenationWriterClass.'


def t_writer_init():
    """The queue between an active object's thread and the writer thread takes every line: it has no bound, so no
    line is refused and the chart's thread never waits for the console."""
    def run(it):
        c = it.c
        wr = c.fresh_ref('writer', 'InstrumenationWriterClass')
        out = run_body(it, method(it, wr, '__init__'), [])
        c.prove('writer.__init__:post/returns-normally', out.raised is None, tags=('C21',))
        if out.raised is not None:
            return
        q = c.read(wr, '_queue')
        c.prove('writer.__init__:post/the-line-queue-is-an-empty-queue-without-a-bound',
                z3.And(c.hget(q, 'maxsize') <= 0, c.hget(q, 'qsize') == 0), tags=('C21',))
    return Target('InstrumenationWriterClass.__init__', run, [W + '__init__'])


def t_writer_print():
    """_print(fn, content) hands exactly one item (fn, content) to the line queue established by __init__ and returns."""
    def run(it):
        c = it.c
        wr = c.fresh_ref('writer', 'InstrumenationWriterClass')
        q = c.read(wr, '_queue')
        c.assume(z3.And(c.hget(q, 'maxsize') <= 0, c.hget(q, 'qsize') >= 0))        # what __init__ establishes
        n0 = c.hget(q, 'qsize')
        fn = SRef(c.fresh('callback', Ref), 'fn')
        line = SRef(c.fresh('line', Ref), 'str')
        puts = []
        it.w.hooks['queue.put'] = lambda it_, obj, args: puts.append((obj, args))
        try:
            out = run_body(it, method(it, wr, '_print'), [], {'fn': fn, 'content': line})
        finally:
            it.w.hooks.pop('queue.put', None)
        c.prove('writer._print:post/returns-normally', out.raised is None, tags=('C21',))
        c.prove('writer._print:post/one-item-handed-to-the-line-queue',
                z3.And(z3.BoolVal(len(puts) == 1), c.hget(c.read(wr, '_queue'), 'qsize') == n0 + 1,
                       c.read(wr, '_queue').e == q.e), tags=('C21',))
        if len(puts) == 1:
            obj, args = puts[0]
            item = args[0]
            c.prove('writer._print:post/the-item-carries-this-callback-and-this-line',
                    z3.And(obj.e == q.e, c.to_ref(c.read(item, 'fn')) == fn.e, c.to_ref(c.read(item, 'content')) == line.e),
                    tags=('C21',))
        c.cover('writer._print:cover')
    return Target('InstrumenationWriterClass._print', run, [W + '_print'])


def build(src, tier):
    out = I.family(src, tier)
    from contracts import base_world
    out.append((base_world(src), [t_writer_init(), t_writer_print()]))
    return out
