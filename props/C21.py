"""C21 - live spy/trace output emits every line once, in order, whatever the clock says."""
from . import instr_targets as I

LEVEL = 'proof'
TAGS = ('C21',)
TRUSTED = I.COMMON_TRUSTED
ASSUMPTIONS = ['live flags are not toggled between steps', 'ActiveObject routes callbacks through a FIFO writer thread (queue.Queue contract) -- not re-proved here']
EXPLANATION = 'The four live-output wrappers of the real source are verified around an abstract step that appends at most one trace record whose timestamp is an arbitrary clock reading (possibly equal to any earlier one) and any number of spy lines: the trace callback runs exactly once iff a record was appended, the spy callback once per line of the step, in order (loop invariant over the callback log).'
MIN_OBLIGATIONS = 10


def build(src, tier):
    out = I.family(src, tier)
    return out
