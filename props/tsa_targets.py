"""Targets for thread-safe attributes (C27, C28 symbolic part, C29)."""
import z3

from pyvc.sym import SInt, SBool, SRef, SFunc, SClass, Ref, StrV, NONE, sval
from pyvc.verify import Target, FnContract, method, run_body
from pyvc import builtins as B
from contracts import base_world

TSA = 'thread_safe_attributes.ThreadSafeAttribute.'
nonatomic = z3.Function('line_is_classified_non_atomic', StrV, z3.BoolSort())
reqlock = z3.Function('line_requests_the_lock', StrV, z3.BoolSort())


def world_for(src, tier):
    w = base_world(src)
    # the two classifiers are regular-language questions: decided exactly by the automata back end (C28);
    # here they are uninterpreted predicates of the statement's source line
    w.contracts[TSA + 'is_not_atomic'] = FnContract('is_not_atomic', lambda it, fn, a, k: SBool(nonatomic(sval(it.c.to_ref(a[1])))))
    w.contracts[TSA + 'request_for_lock'] = FnContract('request_for_lock', lambda it, fn, a, k: SBool(reqlock(sval(it.c.to_ref(a[1])))))
    w.guarded[('ThreadSafeAttribute', '_is_atomic')] = '_lock'
    w.guarded[('ThreadSafeAttribute', '_value')] = '_lock'
    w.pytype_overrides[('ThreadSafeAttribute', '_lock')] = 'RLock'

    def dict_access(it, obj, how):
        # the stored value lives in the instance's __dict__ and is guarded by the attribute lock
        c = it.c
        lock = c.pyghost.get('value_lock')
        if lock is None or getattr(it, 'guard_off', False):
            return
        if not any(obj.e.eq(d) for d in c.pyghost.get('instance_dicts', [])):
            return
        if how == 'read':
            # a plain read is one atomic dict access and may happen anywhere; the read half of an augmented assignment
            # must happen inside the critical section it keeps open (checked by the statement-shape targets)
            c.pyghost['value_read_with_lock_held'] = c.hget(lock, 'held') > 0
            return
        c.prove('%s:guarded/%s-of-the-stored-value-holds-_lock' % (it.where(), how), c.hget(lock, 'held') > 0,
                tags=('lock',), assume_after=False)
    w.hooks['dict_access'] = dict_access
    w.pytype_overrides[('nt:FrameData', 'lines')] = 'list<str>'
    return w


def make_attr(it, in_progress='any'):
    """A descriptor as MetaThreadSafeAttributes installs it; the calling thread holds no lock.  Another thread may be
    in the middle of a non-atomic operation (then _is_atomic reads False) -- the flag is shared by all threads."""
    c = it.c
    d = c.fresh_ref('descriptor', 'ThreadSafeAttribute')
    lock = c.fresh_ref('lock', 'RLock')
    c.hset(d, '_lock', lock.e)
    c.hset(lock, 'held', z3.IntVal(0))
    c.hset(lock, 'epoch', c.fresh('epoch0', z3.IntSort()))
    c.hset(d, '_is_atomic', c.fresh('flag_seen_without_lock', z3.BoolSort()))
    c.hset(d, '_initial_value', it.w.intobj(0))
    c.hset(d, '_value', c.fresh('value0', Ref))
    if '_key' in it.src.init_attrs('ThreadSafeAttribute'):
        k = c.fresh_ref('key', 'str')
        c.hset(d, '_key', k.e)

    # monitor invariant of the attribute lock: when nobody holds it, no operation is in progress (_is_atomic is True)
    def on_enter(it_, from_outside):
        cc = it_.c
        cc.hset(d, '_is_atomic', z3.If(from_outside, z3.BoolVal(True), cc.hget(d, '_is_atomic')))

    def invariant(it_):
        return it_.c.hget(d, '_is_atomic')
    c.pyghost[('monitor', lock.e.sexpr())] = (on_enter, invariant)
    c.pyghost['value_lock'] = lock
    return d, lock


def instance(it, name):
    c = it.c
    i = c.fresh_ref(name, 'instance')
    dct = c.fresh_ref(name + '_dict', 'dict')
    c.hset(i, '$dict', dct.e)
    c.pyghost.setdefault('instance_dicts', []).append(dct.e)
    return i


def stmt(it, name='line'):
    c = it.c
    ln = c.fresh_ref(name, 'str')
    c.pyghost['stmt_line'] = ln
    return ln


def locked_consistent(it, d, lock):
    """Once the calling thread holds the lock nobody else is mid-operation: the flag it then reads is True unless
    it set it False itself."""
    pass


def t_get():
    def run(it):
        c = it.c
        d, lock = make_attr(it)
        i = instance(it, 'i')
        ln = stmt(it)
        # when this thread acquires the lock no other thread is inside an operation, so the flag it finds is True
        out = run_body(it, method(it, d, '__get__'), [i, SClass('object')])
        c.prove('__get__:post/returns-normally', out.raised is None, tags=('C27', 'C28'))
        if out.raised is not None:
            return
        c.prove('__get__:post/keeps-the-lock-exactly-for-lines-classified-non-atomic',
                c.hget(lock, 'held') == z3.If(nonatomic(sval(ln.e)), 1, 0), tags=('C28', 'C27'))
        c.prove('__get__:post/flag-tells-whether-an-operation-is-in-progress',
                c.hget(d, '_is_atomic') == z3.Not(nonatomic(sval(ln.e))), tags=('C27', 'C28'))
        c.cover('__get__:cover')
    return Target('ThreadSafeAttribute.__get__', run, [TSA + '__get__'])


def t_set_plain():
    """obj.attr = v  from a thread that holds nothing, whatever another thread is doing."""
    def run(it):
        c = it.c
        d, lock = make_attr(it)
        i = instance(it, 'i')
        stmt(it)
        v = c.fresh_ref('v', None, distinct=False)
        out = run_body(it, method(it, d, '__set__'), [i, v])
        c.prove('__set__:plain/returns-normally', out.raised is None, tags=('C27', 'C28'))
        if out.raised is not None:
            return
        c.prove('__set__:plain/lock-released', c.hget(lock, 'held') == 0, tags=('C27', 'C28'))
        c.cover('__set__:plain/cover')
    return Target('ThreadSafeAttribute.__set__[plain]', run, [TSA + '__set__'])


def t_augassign():
    """obj.attr op= x : __get__, compute, __set__ on the same source line, classified non-atomic (C28)."""
    def run(it):
        c = it.c
        d, lock = make_attr(it)
        i = instance(it, 'i')
        ln = stmt(it)
        c.assume(nonatomic(sval(ln.e)))
        # the thread enters with the lock free: nobody is mid-operation at the moment it gets the lock
        out1 = run_body(it, method(it, d, '__get__'), [i, SClass('object')])
        c.prove('augassign:lock/the-old-value-is-read-inside-the-critical-section-that-stays-open',
                c.pyghost.get('value_read_with_lock_held', z3.BoolVal(False)), tags=('C27',))
        ep1 = c.hget(lock, 'epoch')
        v = c.fresh_ref('computed', None, distinct=False)
        out2 = run_body(it, method(it, d, '__set__'), [i, v])
        ok = out1.raised is None and out2.raised is None
        c.prove('augassign:post/returns-normally', ok, tags=('C27', 'C28'))
        if not ok:
            return
        c.prove('augassign:post/read-and-write-in-one-critical-section', c.hget(lock, 'epoch') == ep1, tags=('C27',))
        c.prove('augassign:post/lock-released', c.hget(lock, 'held') == 0, tags=('C27', 'C28'))
        c.prove('augassign:post/flag-reset', c.hget(d, '_is_atomic'), tags=('C27',))
        c.cover('augassign:cover')
    return Target('ThreadSafeAttribute[obj.attr op= x]', run, [TSA + '__get__', TSA + '__set__'])


def t_augassign_rhs_read():
    """obj.attr op= other.attr : __get__ (target), __get__ (right-hand side, same attribute name, possibly another
    instance), compute, __set__ -- all on ONE source line, so the classifier gives both reads the same answer."""
    def run(it):
        c = it.c
        d, lock = make_attr(it)
        a = instance(it, 'a')
        same = c.choose(2, 'rhs-is-the-same-instance') == 0
        b = a if same else instance(it, 'b')
        ln = stmt(it)
        c.assume(nonatomic(sval(ln.e)))
        key = None
        out1 = run_body(it, method(it, d, '__get__'), [a, SClass('object')])
        out2 = run_body(it, method(it, d, '__get__'), [b, SClass('object')])
        b_before = c.to_ref(out2.value) if out2.raised is None and not isinstance(out2.value, tuple) else None
        v = c.fresh_ref('computed', None, distinct=False)
        out3 = run_body(it, method(it, d, '__set__'), [a, v])
        ok = out1.raised is None and out2.raised is None and out3.raised is None
        c.prove('augassign-rhs-read:post/returns-normally', ok, tags=('C27', 'C28'))
        if not ok:
            return
        c.prove('augassign-rhs-read:post/lock-released', c.hget(lock, 'held') == 0, tags=('C27', 'C28'))
        c.prove('augassign-rhs-read:post/flag-reset', c.hget(d, '_is_atomic'), tags=('C27',))
        # C29: the result lands on the target instance, the other instance keeps its value
        ln2 = stmt(it)
        c.assume(z3.And(z3.Not(nonatomic(sval(ln2.e))), z3.Not(reqlock(sval(ln2.e)))))
        ra = run_body(it, method(it, d, '__get__'), [a, SClass('object')])
        c.prove('augassign-rhs-read:post/target-instance-reads-the-result',
                c.to_ref(ra.value) == v.e if ra.raised is None and not isinstance(ra.value, tuple) else False, tags=('C29',))
        if not same and b_before is not None:
            rb = run_body(it, method(it, d, '__get__'), [b, SClass('object')])
            c.prove('augassign-rhs-read:post/other-instance-keeps-its-value',
                    c.to_ref(rb.value) == b_before if rb.raised is None and not isinstance(rb.value, tuple) else False,
                    tags=('C29',))
        c.cover('augassign-rhs-read:cover')
    return Target('ThreadSafeAttribute[obj.attr op= other.attr]', run, [TSA + '__get__', TSA + '__set__'])


def t_lock_request():
    """_, _lock = obj.attr : the documented way to obtain the lock object."""
    def run(it):
        c = it.c
        d, lock = make_attr(it)
        i = instance(it, 'i')
        ln = stmt(it)
        c.assume(z3.And(reqlock(sval(ln.e)), z3.Not(nonatomic(sval(ln.e)))))
        out = run_body(it, method(it, d, '__get__'), [i, SClass('object')])
        c.prove('lock-request:post/returns-value-and-lock',
                z3.BoolVal(isinstance(out.value, tuple) and len(out.value) == 2 and
                           c.to_ref(out.value[1]).eq(lock.e)) if out.raised is None else False, tags=('C28',))
        c.prove('lock-request:post/lock-not-kept', c.hget(lock, 'held') == 0, tags=('C28',))
    return Target('ThreadSafeAttribute[_, _lock = obj.attr]', run, [TSA + '__get__'])


def t_per_instance():
    """C29: two instances sharing the class-level descriptor hold independent values; a new instance reads 0."""
    def run(it):
        c = it.c
        d, lock = make_attr(it)
        a, b = instance(it, 'a'), instance(it, 'b')
        ln = stmt(it)
        c.assume(z3.And(z3.Not(nonatomic(sval(ln.e))), z3.Not(reqlock(sval(ln.e)))))
        c.assume(c.hget(d, '_is_atomic'))
        it.guard_off = True
        fresh_b = c.choose(2, 'b-never-assigned') == 0
        if fresh_b and '_key' in it.src.init_attrs('ThreadSafeAttribute'):
            c.hset(c.hget(b, '$dict'), '$has', z3.K(StrV, z3.BoolVal(False)))
        elif fresh_b:
            c.hset(d, '_value', c.hget(d, '_initial_value'))
        before = run_body(it, method(it, d, '__get__'), [b, SClass('object')])
        v = c.fresh_ref('v', None, distinct=False)
        c.assume(v.e != NONE)
        s = run_body(it, method(it, d, '__set__'), [a, v])
        after_a = run_body(it, method(it, d, '__get__'), [a, SClass('object')])
        after_b = run_body(it, method(it, d, '__get__'), [b, SClass('object')])
        ok = all(o.raised is None for o in (before, s, after_a, after_b))
        c.prove('instances:post/returns-normally', ok, tags=('C29',))
        if not ok:
            return
        c.prove('instances:post/assigned-instance-reads-its-value', c.to_ref(after_a.value) == v.e, tags=('C29',))
        c.prove('instances:post/other-instance-unaffected', c.to_ref(after_b.value) == c.to_ref(before.value), tags=('C29',))
        if fresh_b:
            c.prove('instances:post/new-instance-reads-zero', c.to_ref(before.value) == it.w.intobj(0), tags=('C29',))
        c.cover('instances:cover')
    return Target('ThreadSafeAttribute[two instances]', run, [TSA + '__get__', TSA + '__set__'])
