"""C06 - the fabric delivers each publication once to every subscriber and to no one else."""
from . import fabric_targets as FT
from .registry import OPLEVEL

LEVEL = 'proof'
TAGS = ('C06',)
TRUSTED = ['queue.PriorityQueue contract: put never blocks, every put item is returned by exactly one get',
           'list / dict contracts (append, index by ==, item store; str-keyed dict)',
           'id() is injective on live objects; == on container objects is reflexive']
ASSUMPTIONS = [OPLEVEL, 'a delivery thread iterating a registry list while subscribe appends to it is not covered',
               'what a subscriber queue does on append is C16\'s business (the call is recorded, not interpreted)']
EXPLANATION = ('subscribe (event or signal number, any queue_type string or None) is verified against the abstract '
               'registry view for every registry content, including distinct queues with equal contents; one '
               'iteration of each delivery thread is verified to append the taken publication exactly once to every '
               'registered queue of that signal name and to nothing else; publish queues one publication per kind; '
               'start/clear preserve the binding of live threads to the current registry objects.')
MIN_OBLIGATIONS = 60


def build(src, tier):
    w = FT.world_for(src, tier)
    ts = [FT.t_subscribe('event', None), FT.t_subscribe('event', 'sym'), FT.t_subscribe('int', 'lifo'),
          FT.t_subscribe('int', 'fifo'), FT.t_publish(), FT.t_runner_iteration('fifo'), FT.t_runner_iteration('lifo'),
          FT.t_start(), FT.t_clear(), FT.t_fabric_subscribed()]
    return [(w, ts)]
