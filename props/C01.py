"""C01 - transitions run exits, entries and initial transitions in UML order."""
from . import core_targets as K

LEVEL = 'proof'
TAGS = ('C01', 'tree', 'wf', 'idle')
TRUSTED = ['abstract handler contract = definition of a well-formed chart (DESIGN 5.2)',
           'induction over depth as proof principle for the tree lemmas (each lemma is a discharged obligation)',
           'list contract (append, index, store)', 'Event.__init__ contract (proved under C25)']
ASSUMPTIONS = ['Inv_idle (temp.fun == state.fun between public calls) is what every operation assumes; its '
               'preservation by start_at, dispatch, is_in and child_state is checked here too (tag idle)',
               'state functions obey the handler contract (that is the input domain of the property)']
EXPLANATION = ('dispatch and trans_ of the real source are executed symbolically over an uninterpreted finite tree; '
               'every handler call is checked against the UML monitor; trans_ is verified against a contract whose '
               'postcondition is the property\'s own definition of the least common ancestor; dispatch is verified '
               'against that contract (modular).')
MIN_OBLIGATIONS = 100


def build(src, tier):
    w = K.world_for(src, tier)
    return [(w, [K.t_tree_lemmas(), K.t_trans_(), K.t_dispatch(), K.t_is_in(), K.t_child_state(), K.t_start_at()])]
