"""C10 - timed posts fire the requested number of times at the requested period."""
from . import timer_targets as TT

LEVEL = 'proof'
TAGS = ('C10',)
TRUSTED = ['time.sleep(p) advances a virtual clock by exactly p (real-time accuracy of sleep is not claimed)',
           'threading.Thread runs target(*args); threading.Event is a boolean', 'uuid4 values are unique']
ASSUMPTIONS = ['nobody else clears this source\'s run event while it runs (absent cancellation or stop)',
               'period and the virtual clock are integers in an arbitrary unit (linear arithmetic on differences only)',
               'interleaving with other timer threads is not modelled']
EXPLANATION = ('post_fifo/post_lifo with a period are executed down to the Thread construction: the thread specification '
               'must carry event, queue kind, count (None -> 0), deferral (None -> True) and period unchanged.  The '
               'nested thread function is then executed on a virtual clock with a loop invariant: first post after p iff '
               'deferred, exactly p between consecutive posts, run flag set exactly while postings remain, hence exactly n '
               'posts for n >= 1 and no exit for n = 0; unbounded in n and p.')
MIN_OBLIGATIONS = 20


def build(src, tier):
    w = TT.world_for(src, tier)
    # a source armed before the chart is started is left alone by start_at
    from . import instr_targets as I
    wi = I.instr_world(src, tier)
    return [(w, [TT.t_timed_post('fifo'), TT.t_timed_post('lifo')]), (wi, [I.t_start_body('ActiveObject')])]
