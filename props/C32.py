"""C32 - stripped() makes trace comparison timestamp-insensitive."""
import ast
import time
import z3

from pyvc.sym import SInt, SBool, SRef, SFunc, SClass, Ref, StrV, NONE, IntArr, LoopSpec, sval
from pyvc.verify import Target, FnContract, method, run_body, framed, module_func
from pyvc import builtins as B
from contracts import base_world

LEVEL = 'proof'
TAGS = None
TRUSTED = ['str.splitlines / str.strip / len as uninterpreted functions on string values (strip(s) has no surrounding '
           'whitespace; a line has no line separator)', 're._parser\'s tree means what re executes (witnesses replayed)',
           'strftime("%Y-%m-%d %H:%M:%S.%f") yields DDDD-DD-DD DD:DD:DD.DDDDDD']
ASSUMPTIONS = ['chart names, signal names and state names contain no line separator and, after stripping, a trace body '
               'does not itself start with something that looks like a bracketed timestamp']
EXPLANATION = ('(1) Symbolic execution of stripped() with strings as opaque values: multi-line path: the result is the list '
               '[iwt(strip l) | l in splitlines(log), strip l != ""] (loop invariant with an index map); single-line path: '
               'the result must be iwt(strip log) -- "a single line is stripped the same way".  item_without_timestamp is '
               'verified against: the remainder after the timestamp prefix if the line matches, the line itself otherwise. '
               '(2) Automata obligations on the regex literal read from the source: every miros trace line '
               '"[timestamp] body" matches; the timestamp prefix language is a prefix code (the split is unique, group(1) '
               'is everything after the first "] "); a line that does not start with a bracketed timestamp does not match. '
               'With (1) and (2): two traces are equal after stripping iff their bodies, in order, are equal.')
MIN_OBLIGATIONS = 12
ST = 'hsm.stripped'
strip_f = z3.Function('strip', StrV, StrV)
is_empty = z3.Function('is_empty_string', StrV, z3.BoolSort())
matches = z3.Function('matches_timestamp_pattern', StrV, z3.BoolSort())
group1 = z3.Function('remainder_after_timestamp', StrV, StrV)
IntInt = z3.ArraySort(z3.IntSort(), z3.IntSort())
_i, _j = z3.Ints('i!s j!s')


def iwt_spec(v):
    return z3.If(matches(v), group1(v), v)


def install(w):
    def splitlines(it, obj, args, kwargs):
        c = it.c
        r = c.fresh_ref('lines', 'list<str>')
        n = c.fresh('n_lines', z3.IntSort())
        c.assume(n >= 0)
        c.hset(r, '$len', n)
        A = c.fresh('line_objs', IntArr)
        c.hset(r, '$items', A)
        c.hset(r, '$maxlen', z3.IntVal(-1))
        c.assume(z3.ForAll([_i], z3.Implies(z3.And(0 <= _i, _i < n), z3.Select(A, _i) != NONE), patterns=[z3.Select(A, _i)]))
        c.pyghost['lines'] = (A, n)
        return r

    def strip(it, obj, args, kwargs):
        c = it.c
        r = c.fresh_ref('stripped', 'str', distinct=False)
        c.assume(z3.And(r.e != NONE, sval(r.e) == strip_f(sval(c.to_ref(obj)))))
        c.assume(strip_f(sval(r.e)) == sval(r.e))        # str.strip is idempotent
        return r

    def slen(it, v):
        c = it.c
        n = c.fresh('strlen', z3.IntSort())
        c.assume(z3.And(n >= 0, (n == 0) == is_empty(sval(v.e))))
        return SInt(n)

    def rematch(it, args):
        c = it.c
        pat, item = args[0], args[1]
        c.pyghost.setdefault('patterns', []).append(pat)
        v = sval(c.to_ref(item))
        if c.branch(matches(v), 'line-matches'):
            m = c.fresh_ref('match', 'match')
            c.pyghost[('match_of', m.e.sexpr())] = v
            return m
        return None

    def group(it, obj, args):
        c = it.c
        if args != [1]:
            from pyvc.sym import Unsupported
            raise Unsupported('match.group%r' % (args,))
        v = c.pyghost[('match_of', obj.e.sexpr())]
        r = c.fresh_ref('group1', 'str', distinct=False)
        c.assume(z3.And(r.e != NONE, sval(r.e) == group1(v)))
        return r
    w.hooks['str.splitlines'] = splitlines
    w.hooks['str.strip'] = strip
    w.hooks['str.len'] = slen
    w.hooks['re.match'] = rematch
    w.hooks['match.group'] = group

    def on_entry(it, env):
        c = it.c
        c.ghost['g_src'] = c.fresh('src', IntInt)
        c.ghost['g_pos'] = c.fresh('pos', IntInt)

    def inv(it, env):
        c, g = it.c, it.c.ghost
        L, n = c.pyghost['lines']
        res = env['stripped_target']
        R = c.fresh('res_items', IntArr)
        c.assumptions.append(R == B.seq_items(it, res))
        m = B.seq_len(it, res)
        k = c.to_int(env['$k1'])
        src, pos = g['g_src'], g['g_pos']
        line = lambda i: strip_f(sval(z3.Select(L, i)))
        return [('count', z3.And(0 <= m, m <= k, k <= n)),
                ('kept-lines', z3.ForAll([_j], z3.Implies(z3.And(0 <= _j, _j < m), z3.And(
                    0 <= z3.Select(src, _j), z3.Select(src, _j) < k, z3.Not(is_empty(line(z3.Select(src, _j)))),
                    sval(z3.Select(R, _j)) == iwt_spec(line(z3.Select(src, _j))), z3.Select(pos, z3.Select(src, _j)) == _j)),
                    patterns=[z3.Select(R, _j)])),
                ('kept-in-order', z3.ForAll([_j], z3.Implies(z3.And(0 <= _j, _j < m - 1),
                                                             z3.Select(src, _j) < z3.Select(src, _j + 1)),
                                            patterns=[z3.Select(src, _j)])),
                ('every-non-blank-line-kept', z3.ForAll([_i], z3.Implies(
                    z3.And(0 <= _i, _i < k, z3.Not(is_empty(line(_i)))),
                    z3.And(0 <= z3.Select(pos, _i), z3.Select(pos, _i) < m, z3.Select(src, z3.Select(pos, _i)) == _i)),
                    patterns=[z3.Select(pos, _i)]))]

    def body_end(it, env):
        c, g = it.c, it.c.ghost
        res = env['stripped_target']
        m = B.seq_len(it, res)
        k = c.to_int(env['$k1'])
        m0 = env['$m_head']
        src, pos = g['g_src'], g['g_pos']
        grew = m == m0 + 1
        src2, pos2 = c.fresh('src', IntInt), c.fresh('pos', IntInt)
        c.assume(src2 == z3.If(grew, z3.Store(src, m0, k - 1), src))
        c.assume(pos2 == z3.If(grew, z3.Store(pos, k - 1, m0), pos))
        g['g_src'], g['g_pos'] = src2, pos2

    def after_havoc(it, env):
        env['$m_head'] = B.seq_len(it, env['stripped_target'])

    def mods(it, env):
        r = env['stripped_target']
        return [(r, '$items'), (r, '$len')]
    s = LoopSpec(inv, mods, None, 'strip-lines', locals_kind={'target_item': ('ref', 'str'),
                                                             'stripped_target_item': ('ref', 'str')})
    s.on_entry, s.body_end, s.after_havoc = on_entry, body_end, after_havoc
    s.ghost_modifies = ['g_src', 'g_pos']
    w.loopspecs[(ST, 1)] = s
    w.local_types[(ST, 'stripped_target')] = 'list<str>'
    w.local_types[(ST, 'targets')] = 'list<str>'


def t_stripped():
    def run(it):
        c, g = it.c, it.c.ghost
        install(it.w)
        log = c.fresh_ref('log', 'str', distinct=False)
        c.assume(log.e != NONE)
        fn = module_func(it, ST)
        fn.contextmanager = True
        from pyvc.interp import YieldSignal
        from pyvc.sym import Frame
        try:
            it.call_func(fn, [log], {}, inline=True, want_yield=True)
            c.prove('stripped:post/yields', z3.BoolVal(False))
            return
        except YieldSignal as y:
            val = y.value
        L, n = c.pyghost.get('lines', (None, None))
        if isinstance(val, SRef) and B.base_type(val.pytype) == 'list':
            R, m = B.seq_items(it, val), B.seq_len(it, val)
            src, pos = g['g_src'], g['g_pos']
            line = lambda i: strip_f(sval(z3.Select(L, i)))
            c.prove('stripped:multi-line/only-for-several-lines', n > 1)
            c.prove('stripped:multi-line/each-kept-line-is-a-stripped-non-blank-line-without-timestamp',
                    z3.ForAll([_j], z3.Implies(z3.And(0 <= _j, _j < m), z3.And(
                        0 <= z3.Select(src, _j), z3.Select(src, _j) < n, z3.Not(is_empty(line(z3.Select(src, _j)))),
                        sval(z3.Select(R, _j)) == iwt_spec(line(z3.Select(src, _j)))))))
            c.prove('stripped:multi-line/lines-keep-their-order',
                    z3.ForAll([_j], z3.Implies(z3.And(0 <= _j, _j < m - 1), z3.Select(src, _j) < z3.Select(src, _j + 1))))
            c.prove('stripped:multi-line/no-non-blank-line-lost',
                    z3.ForAll([_i], z3.Implies(z3.And(0 <= _i, _i < n, z3.Not(is_empty(line(_i)))),
                                               z3.And(0 <= z3.Select(pos, _i), z3.Select(pos, _i) < m,
                                                      z3.Select(src, z3.Select(pos, _i)) == _i))))
            c.cover('stripped:multi-line/cover')
        else:
            c.prove('stripped:single-line/only-for-one-line', n <= 1)
            c.prove('stripped:single-line/stripped-the-same-way',
                    sval(c.to_ref(val)) == iwt_spec(strip_f(sval(log.e))))
            c.cover('stripped:single-line/cover')
    return Target('stripped', run, [ST, ST + '.item_without_timestamp'])


def build(src, tier):
    w = base_world(src)
    return [(w, [t_stripped()])]


def _pattern(src):
    fi = src.funcs[ST + '.item_without_timestamp']
    for n in ast.walk(fi.node):
        if isinstance(n, ast.Call) and isinstance(n.func, ast.Attribute) and n.func.attr == 'match' \
                and isinstance(n.args[0], ast.Constant):
            return n.args[0].value
    raise ValueError('re.match(<literal>, item) not found in item_without_timestamp')


def extra(src, tier, seed):
    from pyvc import regular as R
    out = []

    def ob(name, fn):
        t0 = time.time()
        try:
            ok, w = fn()
            out.append({'name': 'regex/' + name, 'status': 'discharged' if ok else 'refuted', 'backend': 'automata',
                        'seconds': round(time.time() - t0, 3), 'detail': '' if ok else 'witness %r' % (w,)})
        except (R.Unsupported, ValueError) as ex:
            out.append({'name': 'regex/' + name, 'status': 'undecided', 'backend': 'automata', 'seconds': 0, 'detail': repr(ex)})
    try:
        pat = _pattern(src)
    except ValueError as ex:
        return [{'name': 'regex/pattern-readable', 'status': 'undecided', 'backend': 'automata', 'seconds': 0, 'detail': repr(ex)}]
    TS = r'[0-9]{4}-[0-9]{2}-[0-9]{2} [0-9]{2}:[0-9]{2}:[0-9]{2}\.[0-9]{6}'
    BODY = r'\[[^\]\n]*\] e->[^\n]*'                     # [name] e->signal() a->b   (no line separator)
    A = R.compile_pattern(pat, 'match')
    # the prefix the pattern removes: everything of the pattern up to its capturing group
    if '(' not in pat:
        return [{'name': 'regex/has-a-captured-remainder', 'status': 'refuted', 'backend': 'automata', 'seconds': 0,
                 'detail': 'pattern %r has no group' % pat}]
    prefix = pat[:pat.index('(')]
    ob('every-miros-trace-line-matches', lambda: R.included(R.compile_pattern(r'[ ]*\[' + TS + r'\] ' + BODY, 'full'), A))
    ob('timestamp-prefix-is-a-prefix-code',
       lambda: R.disjoint(R.compile_pattern(prefix, 'full'), R.compile_pattern(prefix + r'[\s\S]+', 'full')))
    ob('prefix-ends-at-the-first-closing-bracket',
       lambda: R.included(R.compile_pattern(prefix, 'full'), R.compile_pattern(r'[^\]]*\] ', 'full')))
    ob('a-body-line-without-timestamp-is-left-alone',
       lambda: R.disjoint(R.compile_pattern(BODY, 'full'), R.compile_pattern(r'\[' + TS + r'\][\s\S]*', 'full'))
       if False else R.disjoint(R.compile_pattern(r'\[[A-Za-z_][^\]\n]*\] e->[^\n]*', 'full'), A))
    ob('remainder-is-never-empty', lambda: R.disjoint(R.compile_pattern(prefix, 'full'), A))
    return out
