"""C30 - singletons stay single even when first requested concurrently."""
import ast
import z3

from pyvc.sym import SInt, SBool, SRef, SFunc, SClass, Ref, NONE
from pyvc.verify import Target, method, run_body
from contracts import base_world

LEVEL = 'proof'
TAGS = None
TRUSTED = ['threading.RLock as a ghost (owner, hold count): mutual exclusion of critical sections is the lock\'s job',
           'the wrapped class constructor returns a new object']
ASSUMPTIONS = ['lock discipline argument: if every access to the guarded field happens with the lock held and the '
               'test-and-create lies in one critical section, each call is atomic w.r.t. the cache, so the sequential '
               'contract holds under every interleaving']
EXPLANATION = ('Sequential contract of SingletonDecorator.__call__ (returns the cached instance if any, else a new one '
               'which becomes the cached one; two calls return the same object) plus ownership obligations: the field '
               '`instance` is declared guarded_by(_lock), every read/write must hold the lock, the test and the creation '
               'must lie in one critical section, the lock is released on return.  Declaration obligations: the five '
               'documented singletons are bound to SingletonDecorator(...).')
MIN_OBLIGATIONS = 8
SINGLETONS = {'activeobject': ['FiberThreadEvent', 'InstrumentionWriter', 'ActiveFabric'], 'event': ['Signal', 'ReturnStatus']}


def t_call():
    def run(it):
        c = it.c
        it.w.guarded[('SingletonDecorator', 'instance')] = '_lock'
        self = c.fresh_ref('decorator', 'SingletonDecorator')
        klass = c.fresh_ref('klass', 'class')
        c.hset(self, 'klass', klass.e)
        inst0 = c.fresh('cached0', Ref)
        c.hset(self, 'instance', inst0)
        for o in c.live_refs:
            c.assume(z3.Or(inst0 == NONE, inst0 != o))
        c.live_refs.append(inst0)
        has_lock = '_lock' in it.src.init_attrs('SingletonDecorator')
        if has_lock:
            lock = c.fresh_ref('lock', 'RLock')
            c.hset(self, '_lock', lock.e)
            c.hset(lock, 'held', z3.IntVal(0))
            c.hset(lock, 'epoch', c.fresh('epoch0', z3.IntSort()))
        made = []

        def construct(it_, fv, args, kwargs):
            if fv.pytype == 'class':
                r = it_.c.fresh_ref('new_instance', 'object')
                made.append(r)
                return r
            return None
        it.w.hooks['call_fn'] = construct
        out1 = run_body(it, method(it, self, '__call__'), [])
        c.prove('__call__:post/returns-normally', out1.raised is None)
        if out1.raised is not None:
            return
        r1 = c.to_ref(out1.value)
        c.prove('__call__:post/returns-the-cached-instance-if-any', z3.Implies(inst0 != NONE, r1 == inst0))
        c.prove('__call__:post/creates-at-most-one', z3.BoolVal(len(made) <= 1))
        c.prove('__call__:post/creates-only-when-nothing-cached', z3.Implies(inst0 != NONE, z3.BoolVal(len(made) == 0)))
        c.prove('__call__:post/result-is-cached', z3.And(c.hget(self, 'instance') == r1, r1 != NONE))
        if has_lock:
            c.prove('__call__:post/lock-released', c.hget(c.hget(self, '_lock'), 'held') == 0)
        n1 = len(made)
        out2 = run_body(it, method(it, self, '__call__'), [])
        c.prove('__call__:post/second-request-yields-the-same-object',
                z3.And(c.to_ref(out2.value) == r1, z3.BoolVal(len(made) == n1)) if out2.raised is None else False)
        c.cover('__call__:cover')
    return Target('SingletonDecorator.__call__', run, ['singleton.SingletonDecorator.__call__',
                                                      'singleton.SingletonDecorator.__init__'])


def t_init():
    def run(it):
        c = it.c
        self = c.fresh_ref('decorator', 'SingletonDecorator')
        klass = c.fresh_ref('klass', 'class')
        out = run_body(it, method(it, self, '__init__'), [klass])
        c.prove('__init__:post/nothing-cached-yet', z3.And(out.raised is None, c.hget(self, 'instance') == NONE,
                                                           c.hget(self, 'klass') == klass.e) if out.raised is None else False)
    return Target('SingletonDecorator.__init__', run, ['singleton.SingletonDecorator.__init__'])


def build(src, tier):
    w = base_world(src)
    return [(w, [t_init(), t_call()])]


def extra(src, tier, seed):
    out = []
    for mod, names in SINGLETONS.items():
        for nm in names:
            v = src.module_assigns[mod].get(nm)
            ok = isinstance(v, ast.Call) and isinstance(v.func, ast.Name) and v.func.id == 'SingletonDecorator' \
                and len(v.args) == 1
            out.append({'name': 'declaration/%s.%s-is-a-SingletonDecorator' % (mod, nm),
                        'status': 'discharged' if ok else 'refuted', 'backend': 'ast', 'seconds': 0.0,
                        'detail': ast.dump(v)[:200] if v is not None else 'missing'})
    return out
