"""C20 - the trace has one record per transition and none for other steps."""
from . import instr_targets as I

LEVEL = 'proof'
TAGS = ('C20',)
TRUSTED = I.COMMON_TRUSTED
ASSUMPTIONS = ['handlers answer client events with TRAN, HANDLED, UNHANDLED or SUPER (another status below TRAN would produce a record without a transition)', 'rtc.tuples is empty when start_at begins; a step produces fewer than 250 tuples']
EXPLANATION = "The trace wrapper is verified around the core contract: exactly one record (previous state, signal, new state) iff the step's outcome is a transition, none for handled or ignored events; start_at appends exactly one record top -> start state for spy-decorated charts; is_signal_hooked has a loop invariant (no examined offer hooked so far, signal/timestamp those of an offer)."
MIN_OBLIGATIONS = 10


def build(src, tier):
    out = I.family(src, tier)
    # the trace wrapper decides from event.ignored: that the core sets it exactly for ignored events (and clears a
    # stale value first) is part of this property, not only of C02
    from . import core_targets as K
    w = K.world_for(src, tier)
    out += [(w, [K.t_dispatch()])]
    from contracts import base_world
    from contracts import queues as Q
    wm = base_world(src)
    Q.install(wm)
    # the trace wrapper reads the step's tuples: that the post/defer/recall markers add none of their own is part of
    # the summary it relies on (marker[...]:post/no-tuple)
    out += [(wm, I.marker_targets() + [I.t_clear('clear_trace')])]
    # which invocations are logged as internal ones is decided by SignalSource.is_inner_signal: its contract (true
    # exactly for the built-in signals, whatever their names look like) is part of this property too
    from . import C25
    wr = base_world(src)
    out += [(wr, [C25.t_is_inner('name'), C25.t_is_inner('number')])]

    return out
