"""C17 - factory/template charts and their to_code text behave like hand-written charts."""
import json
import os
import subprocess
import tempfile

from . import template_targets as TT

LEVEL = 'translation_validation'
TAGS = ('C17', 'defined', 'C02')
TRUSTED = ['CPython ast.parse on the emitted text', 'replay/C17.py emitter (registers each row through the real API)']
MIN_OBLIGATIONS = 300
VENV_PY = '/venv/bin/python'
ROOT = os.path.dirname(os.path.dirname(os.path.abspath(__file__)))
_STATS = {}

ASSUMPTIONS = [
    'callbacks are named module-level functions with pairwise distinct __name__ (to_code prints names only); no user '
    'callback is itself called "handled"; a state is not called "top"',
    'every state has a registered parent before it is used (otherwise template and text both raise KeyError)',
    'to_code is validated per emitted text (bounded family of table rows, stated in coverage.rule), for a symbolic '
    'event; it is NOT proved for arbitrary tables',
    'the @spy_on decorator of the emitted text is not executed here (its transparency is C18)',
    'hand-written equivalence is carried by C01-C03: those are proved for every handler that satisfies the handler '
    'contract, and this check proves that the template handler and every emitted text satisfy it with the same '
    'parent and the same callback per signal',
]
EXPLANATION = (
    'Half (a), deductive, unbounded: base_state_method + signal_callback + parent_callback satisfy the handler '
    'table for every registry content and every event kind; register_signal_callback / register_parent update '
    'exactly one entry and keep the registry well-formed; Factory.create/catch/to_method/nest/start_at/to_code '
    'delegate with the state function of the named state (function or name overloads). Half (b), translation '
    'validation, bounded over table rows and unbounded over events: the real to_code is run on every row of the '
    'stated family, each returned text is parsed and verified by the same VC generator against that row.')


def _emit(tier, seed):
    repo = os.environ.get('MIROS_REPO', '/repo')
    env = dict(os.environ, PYTHONPATH=repo + os.pathsep + ROOT)
    with tempfile.NamedTemporaryFile('w', suffix='.json', delete=False) as f:
        json.dump({'tier': tier, 'seed': seed}, f)
        req = f.name
    try:
        p = subprocess.run([VENV_PY, os.path.join(ROOT, 'replay', 'C17.py'), '--emit', req], capture_output=True,
                           text=True, timeout=600, env=env, cwd=ROOT)
    finally:
        os.unlink(req)
    if p.returncode != 0:
        raise RuntimeError('to_code emitter failed: ' + p.stderr[-1500:])
    return json.loads(p.stdout.splitlines()[-1])


def build(src, tier):
    w = TT.world_for(src, tier)
    worlds = [(w, [TT.t_template(k) for k in TT.KINDS] +
               [TT.t_template(k, with_lookup=False) for k in ('ENTRY_SIGNAL', 'user')] +
               [TT.t_register_signal_callback(f) for f in (True, False)] +
               [TT.t_register_parent(f) for f in (True, False)]),
              (TT.world_for(src, tier), TT.factory_targets())]
    seed = int(os.environ.get('VERIF_SEED', '0') or 0)
    items = _emit(tier, seed)
    _STATS.update(rows=len(items), errors=[], texts=0, samples=[])
    seen = {}
    for it in items:
        if it.get('code') is None:
            _STATS['errors'].append(it)
            continue
        # identical (text, row) pairs up to the state's ordinal are validated once
        norm = it['code'].replace(it['state'], 'STATE')
        key = (norm, json.dumps({k: v.replace(it['state'], 'STATE') for k, v in sorted(it['lookup'].items())}), it['parent'])
        if key in seen:
            continue
        seen[key] = it
    flat = []
    for k, it in enumerate(seen.values()):
        it['label'] = 'row%d' % it['id']
        flat.append(TT.t_flat(it))
        if len(_STATS['samples']) < 2 and len(it['lookup']) >= 3:
            _STATS['samples'].append({'row': it['row'], 'lookup': it['lookup'], 'parent': it['parent'], 'text': it['code']})
    _STATS['texts'] = len(flat)
    worlds.append((TT.world_for(src, tier), flat))
    # the emitted text returns a declining callback's UNHANDLED and relies on the processor to ask that state again
    # with EMPTY_SIGNAL and to keep climbing: that half of the equivalence is the offer protocol of dispatch (C02)
    from . import core_targets as K
    worlds.append((K.world_for(src, tier), [K.t_tree_lemmas(), K.t_dispatch()]))
    return worlds


def extra(src, tier, seed):
    """Rows for which the real to_code produced no text at all."""
    out = []
    groups = {}
    for it in _STATS.get('errors', []):
        kind = 'no-callbacks' if not it['row']['order'] and not it['row']['first'] else 'row'
        groups.setdefault((it.get('stage', 'to_code'), kind, it['error'].split(':')[0]), []).append(it)
    for (stage, kind, exc), its in sorted(groups.items()):
        out.append({'name': '%s:defined/%s-%s' % ('to_code' if stage == 'to_code' else 'register_signal_callback', kind, exc), 'status': 'refuted', 'backend': 'native-emitter',
                    'seconds': 0.0, 'detail': 'raises %s for row %s (state %s, parent %s); %d such rows' % (
                        its[0]['error'], json.dumps(its[0]['row']), its[0]['state'], its[0]['parent'], len(its))})
    out.append({'name': 'to_code:defined/every-row-of-the-family-yields-a-text', 'backend': 'native-emitter', 'seconds': 0.0,
                'status': 'discharged' if not _STATS.get('errors') else 'refuted',
                'detail': '%d rows emitted, %d raised' % (_STATS.get('rows', 0), len(_STATS.get('errors', [])))})
    return out


def tv_coverage():
    return {'programs': _STATS.get('texts', 0), 'disagreements_checked': _STATS.get('texts', 0),
            'rows_emitted': _STATS.get('rows', 0), 'rows_raising': len(_STATS.get('errors', [])),
            'rule': 'rows of a callback table as to_code sees them: ENTRY/INIT/EXIT each {unregistered, named callback}, '
                    'with or without the first-registration defaults (-> "handled"); user signals A, B each '
                    '{unregistered, named callback}; parent {top, named state}; registration orders (all permutations '
                    'up to 3 registrations, sampled above; all up to 24 in the thorough tier); to_code called by name or '
                    'by function; plus the rows with no callback at all. `programs` = distinct texts (modulo the state '
                    'ordinal) each verified for a symbolic event; every text is compared with its row (disagreements_checked).',
            'exhaustive': False,
            'tv_samples': _STATS.get('samples', [])}
