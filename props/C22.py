"""C22 - is_in and child_state answer from the active state path and change nothing."""
from . import core_targets as K

LEVEL = 'proof'
TAGS = ('C22', 'tree', 'wf')
TRUSTED = ['abstract handler contract (DESIGN 5.2)', 'tree lemmas (discharged obligations)',
           'Event.__init__ contract (proved under C25)']
ASSUMPTIONS = ['state functions obey the handler contract']
EXPLANATION = ('is_in/child_state of the real source over an uninterpreted tree: the answer is compared with the '
               'spec function encloses(X, current); the frame (only temp.fun, restored) and the absence of any monitor '
               'step or offer show that the chart and its later behaviour are untouched.')
MIN_OBLIGATIONS = 20


def build(src, tier):
    w = K.world_for(src, tier)
    return [(w, [K.t_tree_lemmas(), K.t_is_in(), K.t_child_state()])]
