"""C22 - is_in and child_state answer from the active state path and change nothing."""
from . import core_targets as K

LEVEL = 'proof'
TAGS = ('C22', 'tree', 'wf', 'idle')
TRUSTED = ['abstract handler contract (DESIGN 5.2)', 'tree lemmas (discharged obligations)',
           'Event.__init__ contract (proved under C25)']
ASSUMPTIONS = ['Inv_idle (temp.fun == state.fun between public calls) is what every operation assumes; its '
               'preservation by start_at, dispatch, is_in and child_state is checked here too (tag idle)',
               'state functions obey the handler contract',
               'handlers are compared as objects in the VCs; `chart.top` is a bound method (two mentions are == but not '
               '`is`), so the query functions must not compare handlers by identity: checked on the syntax tree']
EXPLANATION = ('is_in/child_state of the real source over an uninterpreted tree: the answer is compared with the '
               'spec function encloses(X, current); the frame (only temp.fun, restored) and the absence of any monitor '
               'step or offer show that the chart and its later behaviour are untouched.')
MIN_OBLIGATIONS = 20


def build(src, tier):
    ws = K.world_for(src, tier, spied=True)
    spied = (ws, [K.t_query_spied('is_in'), K.t_query_spied('child_state')])
    w = K.world_for(src, tier)
    return [(w, [K.t_tree_lemmas(), K.t_is_in(), K.t_child_state(), K.t_dispatch(), K.t_trans_(), K.t_start_at()]), spied]


def extra(src, tier, seed):
    """The queried state is handed in by the caller; `chart.top` (and any bound-method handler) is a new object on every
    mention, equal but not identical to the one the chart holds: comparing handlers with `is` answers wrongly for them."""
    import ast
    out = []
    for fn in ('is_in', 'child_state'):
        fi = src.funcs.get('hsm.HsmEventProcessor.' + fn)
        bad = []
        if fi is not None:
            for n in ast.walk(fi.node):
                if isinstance(n, ast.Compare):
                    sides = [n.left] + list(n.comparators)
                    for op, a, b in zip(n.ops, sides, sides[1:]):
                        if isinstance(op, (ast.Is, ast.IsNot)) and not any(
                                isinstance(x, ast.Constant) and x.value in (None, True, False) for x in (a, b)):
                            bad.append('line %d: %s' % (n.lineno, ast.unparse(n)))
        out.append({'name': '%s:syntax/handlers-are-compared-by-equality-not-identity' % fn, 'backend': 'ast',
                    'status': 'discharged' if (fi is not None and not bad) else 'refuted', 'seconds': 0.0,
                    'detail': '; '.join(bad) if bad else 'no identity comparison of non-constant values'})
    return out
