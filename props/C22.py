"""C22 - is_in and child_state answer from the active state path and change nothing."""
from . import core_targets as K

LEVEL = 'proof'
TAGS = ('C22', 'tree', 'wf', 'idle')
TRUSTED = ['abstract handler contract (DESIGN 5.2)', 'tree lemmas (discharged obligations)',
           'Event.__init__ contract (proved under C25)']
ASSUMPTIONS = ['Inv_idle (temp.fun == state.fun between public calls) is what every operation assumes; its '
               'preservation by start_at, dispatch, is_in and child_state is checked here too (tag idle)',
               'state functions obey the handler contract']
EXPLANATION = ('is_in/child_state of the real source over an uninterpreted tree: the answer is compared with the '
               'spec function encloses(X, current); the frame (only temp.fun, restored) and the absence of any monitor '
               'step or offer show that the chart and its later behaviour are untouched.')
MIN_OBLIGATIONS = 20


def build(src, tier):
    ws = K.world_for(src, tier, spied=True)
    spied = (ws, [K.t_query_spied('is_in'), K.t_query_spied('child_state')])
    w = K.world_for(src, tier)
    return [(w, [K.t_tree_lemmas(), K.t_is_in(), K.t_child_state(), K.t_dispatch(), K.t_trans_(), K.t_start_at()]), spied]
