"""C12 - stop() ends the active object's thread and its timed sources."""
from . import ao_targets as A
from .registry import OPLEVEL

LEVEL = 'proof'
TAGS = ('C12',)
TRUSTED = ['threading.Thread.join: returns once the target loop has exited (exit of run_event is proved); raises '
           'RuntimeError when a thread joins itself', 'cancel_events contract (proved under C11)',
           'LockingDeque.append contract (proved under C16)', 'fair scheduling']
ASSUMPTIONS = [OPLEVEL, 'a timer thread past its flag test, or a poster, racing stop() is not covered',
               'stop() is called on an object that has been started (self.thread is a Thread)']
EXPLANATION = ('stop() of the real source for a caller in another thread and for a caller inside a handler: run flag clear, '
               'a wake-up token added, thread joined (or RuntimeError swallowed), and a loop invariant over the snapshot '
               'of tracked sources (ghost index map into the snapshot) giving: nothing left tracked, every timed source '
               'stopped, nobody else\'s run event touched.  One iteration of run_event shows that a woken thread whose flag '
               'is clear, or whose fabric is stopped, or that sees the stop marker, leaves its loop without another step.')
MIN_OBLIGATIONS = 15


def build(src, tier):
    w = A.world_for(src, tier)
    # stop() ends a timed source by clearing its run event: that the source then posts nothing more (it re-reads the
    # event after every sleep) is the timer thread's half of this property
    from . import timer_targets as TT
    wt = TT.world_for(src, tier)
    return [(w, [A.t_stop('other'), A.t_stop('self'), A.t_run_event_iteration()]),
            (wt, [TT.t_timed_post('fifo', may_cancel=True), TT.t_timed_post('lifo', may_cancel=True)])]
