"""Targets for template / factory charts (C17, first half): the template handler satisfies the handler table."""
import z3

from pyvc.sym import SInt, SBool, SRef, SFunc, SClass, Ref, StrV, NONE, sval, name_of, box
from pyvc.verify import Target, FnContract, method, run_body, framed
from pyvc import builtins as B
from pyvc.builtins import TOP
from contracts import base_world
from contracts.common import make_chart, symbolic_event
from .queue_targets import flags

KINDS = ('ENTRY_SIGNAL', 'EXIT_SIGNAL', 'INIT_SIGNAL', 'SEARCH_FOR_SUPER_SIGNAL', 'EMPTY_SIGNAL', 'REFLECTION_SIGNAL', 'user')


def world_for(src, tier):
    w = base_world(src)
    w.pytype_overrides[('HsmWithQueues', '_lookup')] = 'dict<dict<fn>>'
    w.pytype_overrides[('HsmWithQueues', '_parents')] = 'dict<state>'
    for h in ('ActiveObject', 'Factory'):
        w.pytype_overrides[(h, '_lookup')] = 'dict<dict<fn>>'
        w.pytype_overrides[(h, '_parents')] = 'dict<state>'
        w.pytype_overrides[(h, 'states')] = 'dict<StateMethodBlueprint>'
    w.pytype_overrides[('StateMethodBlueprint', 'ao')] = 'Factory'
    w.pytype_overrides[('StateMethodBlueprint', 'state_method')] = 'state'
    return w


def tables(it, chart, name_v, with_lookup=True, with_parents=True):
    """LK and PR of the chart as symbolic dicts; returns (lookup dict, inner dict for this state, parents dict).
    `_lookup` / `_parents` come into existence with the first registration, so a chart may have neither."""
    c = it.c
    lk = c.fresh_ref('_lookup', 'dict<dict<fn>>')
    pr = c.fresh_ref('_parents', 'dict<state>')
    c.world_set_attrs = getattr(c, 'world_set_attrs', set())
    if with_lookup:
        c.hset(chart, '_lookup', lk.e)
        c.world_set_attrs.add((chart.e.sexpr(), '_lookup'))
    if with_parents:
        c.hset(chart, '_parents', pr.e)
        c.world_set_attrs.add((chart.e.sexpr(), '_parents'))
    inner = z3.Select(c.hget(lk, '$map'), name_v)
    return lk, inner, pr


def t_template(kind, with_lookup=True):
    def run(it):
        c = it.c
        chart = make_chart(it, 'HsmWithQueues')
        flags(it, chart)
        name = c.fresh_ref('state_name', 'str', distinct=False)
        c.assume(name.e != NONE)
        nv = sval(name.e)
        lk, inner, pr = tables(it, chart, nv, with_lookup=with_lookup)
        if not with_lookup:
            c.assume(z3.Not(z3.Select(c.hget(lk, '$has'), nv)))       # no registration was ever made on this chart
        parent = z3.Select(c.hget(pr, '$map'), nv)
        c.assume(z3.And(z3.Select(c.hget(pr, '$has'), nv), parent != NONE))        # every state has a registered parent
        if kind == 'user':
            e = symbolic_event(it)
        else:
            e = c.fresh_ref('e', 'Event')
            c.hset(e, 'signal', z3.IntVal(it.w.signals[kind]))
            c.hset(e, 'signal_name', it.w.strobj(kind))
        sigkey = sval(box(c.hget(e, 'signal')))
        has_state = z3.Select(c.hget(lk, '$has'), nv)
        has_cb = z3.And(has_state, z3.Select(z3.Select(c.harr('$has'), inner), sigkey))
        cb = z3.Select(z3.Select(c.harr('$map'), inner), sigkey)
        if kind in ('SEARCH_FOR_SUPER_SIGNAL', 'EMPTY_SIGNAL', 'REFLECTION_SIGNAL'):
            c.assume(z3.Not(has_cb))            # nobody registers callbacks for the processor's own probing signals
        c.assume(z3.Implies(has_cb, cb != NONE))
        calls = []
        st = it.w.statuses
        is_method = c.fresh('callback_is_a_bound_method', z3.BoolSort())
        it.w.hooks['ismethod'] = lambda it_, v: SBool(is_method)
        target = c.fresh('transition_target', Ref)
        tf_before = c.hget(c.read(chart, 'temp'), 'fun')

        def callback(it_, fv, args, kwargs):
            cc = it_.c
            calls.append((fv.e, list(args)))
            k = cc.choose(3, 'callback-outcome')
            if k == 0:
                cc.hset(cc.read(chart, 'temp'), 'fun', target)     # chart.trans(target)
                return st['TRAN']
            if k == 1:
                return st['HANDLED']
            return st['UNHANDLED']
        it.w.hooks['call_fn'] = callback
        fi = it.src.funcs.get('hsm.state_method_template.base_state_method')
        if fi is None:
            from pyvc.sym import Unsupported
            raise Unsupported('state_method_template.base_state_method no longer exists')
        fn = SFunc(fi, [{'name': name}], None, None)
        out = framed(it, 'template:frame', [(c.read(chart, 'temp'), 'fun')], lambda: run_body(it, fn, [chart, e]))
        c.prove('template[%s]:post/returns-normally' % kind, out.raised is None, tags=('C17', 'C02'))
        if out.raised is not None:
            return
        res = c.to_int(out.value) if out.value is not None else z3.IntVal(-1)
        tf = c.hget(c.read(chart, 'temp'), 'fun')
        c.prove('template[%s]:callback/registered-callback-runs-exactly-once-nothing-else-runs' % kind,
                z3.If(has_cb, z3.BoolVal(len(calls) == 1), z3.BoolVal(len(calls) == 0)), tags=('C17', 'C02'))
        if len(calls) == 1:
            fv, args = calls[0]
            c.prove('template[%s]:callback/it-is-the-one-registered-for-this-state-and-signal' % kind, fv == cb, tags=('C17', 'C02'))
            okargs = z3.If(is_method, z3.BoolVal(len(args) == 1 and c.to_ref(args[-1]).eq(e.e)),
                           z3.BoolVal(len(args) == 2 and c.to_ref(args[0]).eq(chart.e) and c.to_ref(args[-1]).eq(e.e)))
            c.prove('template[%s]:callback/called-with-chart-and-event' % kind, okargs, tags=('C17', 'C02'))
            path = c.trace[-1] if c.trace else ''
            outcome = [d for d in c.decisions][-1] if c.decisions else 0
        # the handler table of DESIGN 5.2 with parent(s) := PR[name]
        declined = z3.Or(z3.Not(has_cb), z3.BoolVal(len(calls) == 1 and c.pyghost.get('last_cb') == 'unhandled'))
        c.prove('template[%s]:table/names-its-parent-when-nothing-answers' % kind,
                z3.Implies(z3.Not(has_cb), z3.And(res == st['SUPER'], tf == parent)), tags=('C17', 'C02'))
        c.prove('template[%s]:table/never-returns-unhandled-or-none' % kind,
                z3.And(res != st['UNHANDLED'], res >= 1), tags=('C17', 'C02'))
        c.prove('template[%s]:table/super-always-comes-with-the-parent' % kind,
                z3.Implies(res == st['SUPER'], tf == parent), tags=('C17', 'C02'))
        c.prove('template[%s]:table/a-transition-keeps-the-callbacks-target' % kind,
                z3.Implies(res == st['TRAN'], z3.And(has_cb, tf == target)), tags=('C17', 'C02'))
        c.prove('template[%s]:table/handled-leaves-temp-alone' % kind,
                z3.Implies(res == st['HANDLED'], z3.And(has_cb, tf == tf_before)), tags=('C17', 'C02'))
        c.cover('template[%s]:cover' % kind)
    return Target('template[%s]%s' % (kind, '' if with_lookup else '[no-callback-registered-on-the-chart]'), run, ['hsm.state_method_template', 'hsm.state_method_template.base_state_method',
                                               'hsm.HsmWithQueues.signal_callback', 'hsm.HsmWithQueues.parent_callback'])


# ------------------------------------------------------------------------------- registration contracts
def _dict_view(c, d):
    return z3.Select(c.harr('$has'), d), z3.Select(c.harr('$map'), d)


_ikey = z3.Function('int_of_key', StrV, z3.IntSort())


def int_keys_are_injective(c):
    """Python: two int keys are the same dict key iff they are equal numbers."""
    i = z3.Int('i!key')
    c.assume(z3.ForAll([i], _ikey(sval(box(i))) == i, patterns=[sval(box(i))]))


def registry_well_formed(c, lk):
    """RI of _lookup: every row is its own dict object (each is allocated by `{}` at first registration)."""
    has, mp = _dict_view(c, lk)
    a, b = z3.Const('a!ri', StrV), z3.Const('b!ri', StrV)
    return z3.And(
        z3.ForAll([a], z3.Implies(z3.Select(has, a), z3.And(z3.Select(mp, a) != lk, z3.Select(mp, a) != NONE))),
        z3.ForAll([a, b], z3.Implies(z3.And(z3.Select(has, a), z3.Select(has, b), a != b),
                                     z3.Select(mp, a) != z3.Select(mp, b))))


def t_register_signal_callback(first):
    """LK'[n][s] = fn and nothing else changes; on the very first registration of the chart that state (only)
    also receives ENTRY/INIT/EXIT -> a function that returns HANDLED."""
    def run(it):
        c = it.c
        chart = make_chart(it, 'HsmWithQueues')
        flags(it, chart)
        st = c.fresh_ref('state_method', 'state')
        nv = sval(name_of(st.e))
        lk, inner, pr = tables(it, chart, nv, with_lookup=not first)
        sig = c.fresh('signal', z3.IntSort())
        c.assume(sig >= 1)
        fn = c.fresh_ref('callback', 'fn')
        int_keys_are_injective(c)
        if not first:
            c.assume(registry_well_formed(c, lk.e))
        has0, map0 = _dict_view(c, lk.e)
        had_state = z3.Select(has0, nv)
        ihas0, imap0 = _dict_view(c, inner)
        heap0 = dict(c.heap)
        f = method(it, chart, 'register_signal_callback')
        out = run_body(it, f, [st, SInt(sig), fn])
        c.prove('register_signal_callback:post/returns-normally', out.raised is None, tags=('C17', 'C02'))
        if out.raised is not None:
            return
        lk1 = c.read(chart, '_lookup')
        has1, map1 = _dict_view(c, lk1.e)
        inner1 = z3.Select(map1, nv)
        ihas1, imap1 = _dict_view(c, inner1)
        key = sval(box(sig))
        c.prove('register_signal_callback:invariant/every-state-has-its-own-row-object', registry_well_formed(c, lk1.e),
                tags=('C17', 'C02'))
        c.prove('register_signal_callback:post/the-callback-is-registered-for-that-state-and-signal',
                z3.And(z3.Select(has1, nv), z3.Select(ihas1, key), z3.Select(imap1, key) == fn.e), tags=('C17', 'C02'))
        k = z3.Const('k!reg', StrV)
        n2 = z3.Const('n!reg', StrV)
        if not first:
            c.prove('register_signal_callback:frame/the-registry-object-is-kept', lk1.e == lk.e, tags=('C17', 'C02'))
            c.prove('register_signal_callback:frame/other-signals-of-that-state-keep-their-callbacks',
                    z3.Implies(had_state, z3.ForAll([k], z3.Implies(k != key, z3.And(
                        z3.Select(ihas1, k) == z3.Select(ihas0, k),
                        z3.Implies(z3.Select(ihas0, k), z3.Select(imap1, k) == z3.Select(imap0, k)))))), tags=('C17', 'C02'))
            c.prove('register_signal_callback:frame/a-state-registered-for-the-first-time-has-only-this-entry',
                    z3.Implies(z3.Not(had_state), z3.ForAll([k], z3.Implies(k != key, z3.Not(z3.Select(ihas1, k))))),
                    tags=('C17', 'C02'))
            old_inner = z3.Select(map0, n2)
            oh0 = z3.Select(heap0['$has'], old_inner) if '$has' in heap0 else None
            c.prove('register_signal_callback:frame/other-states-keep-their-rows',
                    z3.ForAll([n2], z3.Implies(n2 != nv, z3.And(
                        z3.Select(has1, n2) == z3.Select(has0, n2),
                        z3.Implies(z3.Select(has0, n2), z3.And(
                            z3.Select(map1, n2) == z3.Select(map0, n2),
                            z3.Select(c.harr('$has'), z3.Select(map0, n2)) == z3.Select(heap0['$has'], z3.Select(map0, n2)),
                            z3.Select(c.harr('$map'), z3.Select(map0, n2)) == z3.Select(heap0['$map'], z3.Select(map0, n2))))))),
                    tags=('C17', 'C02'))
        else:
            c.prove('register_signal_callback:first/no-other-state-is-given-a-row',
                    z3.ForAll([n2], z3.Implies(n2 != nv, z3.Not(z3.Select(has1, n2)))), tags=('C17', 'C02'))
            inner_keys = [sval(box(z3.IntVal(it.w.signals[s]))) for s in ('ENTRY_SIGNAL', 'INIT_SIGNAL', 'EXIT_SIGNAL')]
            c.prove('register_signal_callback:first/entry-init-exit-are-blocked-by-default-or-by-the-callback',
                    z3.And([z3.Select(ihas1, kk) for kk in inner_keys]), tags=('C17', 'C02'))
            c.prove('register_signal_callback:first/nothing-else-is-registered',
                    z3.ForAll([k], z3.Implies(z3.And(k != key, *[k != kk for kk in inner_keys]), z3.Not(z3.Select(ihas1, k)))),
                    tags=('C17', 'C02'))
            # the defaults behave as `return HANDLED`: run each of them
            for s, kk in zip(('ENTRY_SIGNAL', 'INIT_SIGNAL', 'EXIT_SIGNAL'), inner_keys):
                if not c.branch(key != kk, 'default-kept-for-' + s):
                    continue
                cands = [(r, f_) for r, f_ in it.w._funcrefs.values()
                         if f_.info.path.startswith('hsm.HsmWithQueues.register_signal_callback.')]
                ok = z3.Or([z3.Select(imap1, kk) == r for r, _ in cands]) if cands else z3.BoolVal(False)
                c.prove('register_signal_callback:first/default-for-%s-is-a-function-defined-here' % s, ok, tags=('C17', 'C02'))
                if len(cands) != 1:
                    continue
                d = cands[0][1]
                e = symbolic_event(it, user=False)
                tf0 = c.hget(c.read(chart, 'temp'), 'fun')
                o2 = run_body(it, d, [chart, e])
                c.prove('register_signal_callback:first/default-for-%s-returns-handled-and-does-nothing' % s,
                        z3.And(z3.BoolVal(o2.raised is None), c.to_int(o2.value) == it.w.statuses['HANDLED'],
                               c.hget(c.read(chart, 'temp'), 'fun') == tf0), tags=('C17', 'C02'))
        c.cover('register_signal_callback:cover')
    return Target('register_signal_callback[%s]' % ('first-registration' if first else 'later-registration'), run,
                  ['hsm.HsmWithQueues.register_signal_callback'])


def t_register_parent(first):
    def run(it):
        c = it.c
        chart = make_chart(it, 'HsmWithQueues')
        flags(it, chart)
        st = c.fresh_ref('state_method', 'state')
        parent = c.fresh_ref('parent_method', 'state', distinct=False)
        nv = sval(name_of(st.e))
        lk, inner, pr = tables(it, chart, nv, with_parents=not first)
        has0, map0 = _dict_view(c, pr.e)
        f = method(it, chart, 'register_parent')
        out = run_body(it, f, [st, parent])
        c.prove('register_parent:post/returns-normally', out.raised is None, tags=('C17', 'C02'))
        if out.raised is not None:
            return
        pr1 = c.read(chart, '_parents')
        has1, map1 = _dict_view(c, pr1.e)
        c.prove('register_parent:post/the-parent-is-recorded-under-the-state-name',
                z3.And(z3.Select(has1, nv), z3.Select(map1, nv) == parent.e), tags=('C17', 'C02'))
        n2 = z3.Const('n!reg', StrV)
        if first:
            c.prove('register_parent:frame/no-other-state-gets-a-parent',
                    z3.ForAll([n2], z3.Implies(n2 != nv, z3.Not(z3.Select(has1, n2)))), tags=('C17', 'C02'))
        else:
            c.prove('register_parent:frame/the-registry-object-is-kept', pr1.e == pr.e, tags=('C17', 'C02'))
            c.prove('register_parent:frame/other-states-keep-their-parent',
                    z3.ForAll([n2], z3.Implies(n2 != nv, z3.And(z3.Select(has1, n2) == z3.Select(has0, n2),
                                                                z3.Select(map1, n2) == z3.Select(map0, n2)))), tags=('C17', 'C02'))
        c.cover('register_parent:cover')
    return Target('register_parent[%s]' % ('first' if first else 'later'), run, ['hsm.HsmWithQueues.register_parent'])


# ------------------------------------------------------------------------------- Factory builder
def _factory(it):
    c = it.c
    chart = make_chart(it, 'Factory')
    flags(it, chart)
    states = c.fresh_ref('states', 'dict<StateMethodBlueprint>')
    c.hset(chart, 'states', states.e)
    # RI of Factory.states: every entry is a blueprint made by create(): it belongs to this factory and its
    # state method carries the name it is filed under
    k = z3.Const('k!st', StrV)
    has, mp = _dict_view(c, states.e)
    bp = z3.Select(mp, k)
    c.assume(z3.ForAll([k], z3.Implies(z3.Select(has, k), z3.And(
        bp != NONE, z3.Select(c.harr('ao'), bp) == chart.e, z3.Select(c.harr('state_method'), bp) != NONE,
        sval(name_of(z3.Select(c.harr('state_method'), bp))) == k))))
    return chart, states


def _record(it, key, log):
    def apply(it_, fn, args, kwargs):
        log.append((list(args), dict(kwargs)))
        return None
    it.w.contracts[key] = FnContract(key, apply)


def t_factory_create():
    def run(it):
        c = it.c
        chart, states = _factory(it)
        name = c.fresh_ref('name', 'str', distinct=False)
        c.assume(name.e != NONE)
        f = method(it, chart, 'create')
        out = run_body(it, f, [], {'state': name})
        c.prove('Factory.create:post/returns-normally', out.raised is None, tags=('C17',))
        if out.raised is not None:
            return
        bp = c.to_ref(out.value)
        has, mp = _dict_view(c, c.read(chart, 'states').e)
        sm = z3.Select(c.harr('state_method'), bp)
        c.prove('Factory.create:post/the-blueprint-is-filed-under-the-name-and-returned',
                z3.And(z3.Select(has, sval(name.e)), z3.Select(mp, sval(name.e)) == bp, bp != NONE), tags=('C17',))
        c.prove('Factory.create:post/blueprint-belongs-to-this-factory-and-its-state-carries-the-name',
                z3.And(z3.Select(c.harr('ao'), bp) == chart.e, sm != NONE, sval(name_of(sm)) == sval(name.e)),
                tags=('C17',))
        c.cover('Factory.create:cover')
    return Target('Factory.create', run, ['activeobject.Factory.create', 'activeobject.Factory.StateMethodBlueprint.__init__',
                                          'hsm.state_method_template'])


def t_blueprint_catch():
    def run(it):
        c = it.c
        chart, states = _factory(it)
        bp = c.fresh_ref('blueprint', 'StateMethodBlueprint')
        sm = c.fresh_ref('state_method', 'state')
        c.hset(bp, 'ao', chart.e)
        c.hset(bp, 'state_method', sm.e)
        c.hset(bp, 'name', name_of(sm.e))
        sig = c.fresh('signal', z3.IntSort())
        h = c.fresh_ref('handler', 'fn')
        log = []
        _record(it, 'hsm.HsmWithQueues.register_signal_callback', log)
        f = method(it, bp, 'catch')
        out = run_body(it, f, [], {'signal': SInt(sig), 'handler': h})
        c.prove('Blueprint.catch:post/returns-normally', out.raised is None, tags=('C17',))
        if out.raised is not None:
            return
        ok = len(log) == 1 and len(log[0][0]) == 4
        c.prove('Blueprint.catch:post/registers-exactly-once', z3.BoolVal(ok), tags=('C17',))
        if ok:
            a = log[0][0]
            c.prove('Blueprint.catch:post/registers-handler-for-its-own-state-and-that-signal-on-its-factory',
                    z3.And(c.to_ref(a[0]) == chart.e, c.to_ref(a[1]) == sm.e, c.to_int(a[2]) == sig, c.to_ref(a[3]) == h.e),
                    tags=('C17',))
        c.prove('Blueprint.catch:post/returns-the-blueprint-for-chaining', c.to_ref(out.value) == bp.e, tags=('C17',))
        o2 = run_body(it, method(it, bp, 'to_method'), [])
        c.prove('Blueprint.to_method:post/returns-the-state-method',
                z3.And(z3.BoolVal(o2.raised is None), c.to_ref(o2.value) == sm.e), tags=('C17',))
    return Target('Blueprint.catch', run, ['activeobject.Factory.StateMethodBlueprint.catch',
                                           'activeobject.Factory.StateMethodBlueprint.to_method'])


def _named_state(it, chart, states, label, by):
    """A state given either as a function or as the name it was created under."""
    c = it.c
    if by == 'none':
        return None, TOP
    if by == 'function':
        st = c.fresh_ref(label, 'state')
        return st, st.e
    nm = c.fresh_ref(label + '_name', 'str', distinct=False)
    c.assume(nm.e != NONE)
    has, mp = _dict_view(c, states.e)
    c.assume(z3.Select(has, sval(nm.e)))                # the name was create()d
    return nm, z3.Select(c.harr('state_method'), z3.Select(mp, sval(nm.e)))


def t_factory_nest(by_state, by_parent):
    def run(it):
        c = it.c
        chart, states = _factory(it)
        a_state, want_state = _named_state(it, chart, states, 'state', by_state)
        a_parent, want_parent = _named_state(it, chart, states, 'parent', by_parent)
        log = []
        _record(it, 'hsm.HsmWithQueues.register_parent', log)
        f = method(it, chart, 'nest')
        out = run_body(it, f, [a_state], {'parent': a_parent})
        c.prove('Factory.nest[%s,%s]:post/returns-normally' % (by_state, by_parent), out.raised is None, tags=('C17',))
        if out.raised is not None:
            return
        ok = len(log) == 1 and len(log[0][0]) == 3
        c.prove('Factory.nest[%s,%s]:post/registers-exactly-one-parent' % (by_state, by_parent), z3.BoolVal(ok), tags=('C17',))
        if ok:
            a = log[0][0]
            c.prove('Factory.nest[%s,%s]:post/registers-the-named-parent-for-the-named-state' % (by_state, by_parent),
                    z3.And(c.to_ref(a[0]) == chart.e, c.to_ref(a[1]) == want_state, c.to_ref(a[2]) == want_parent),
                    tags=('C17',))
        c.prove('Factory.nest[%s,%s]:post/returns-the-factory-for-chaining' % (by_state, by_parent),
                c.to_ref(out.value) == chart.e, tags=('C17',))
    return Target('Factory.nest[%s,%s]' % (by_state, by_parent), run, ['activeobject.Factory.nest'])


def t_factory_delegate(meth, by, base_key):
    """Factory.start_at / Factory.to_code hand the named state's function to the base class."""
    def run(it):
        c = it.c
        chart, states = _factory(it)
        a_state, want = _named_state(it, chart, states, 'state', by)
        log = []
        _record(it, base_key, log)
        f = method(it, chart, meth)
        out = run_body(it, f, [a_state])
        c.prove('Factory.%s[%s]:post/returns-normally' % (meth, by), out.raised is None, tags=('C17',))
        if out.raised is not None:
            return
        ok = len(log) == 1 and len(log[0][0]) == 2
        c.prove('Factory.%s[%s]:post/delegates-exactly-once' % (meth, by), z3.BoolVal(ok), tags=('C17',))
        if ok:
            a = log[0][0]
            c.prove('Factory.%s[%s]:post/with-the-state-method-of-the-named-state' % (meth, by),
                    z3.And(c.to_ref(a[0]) == chart.e, c.to_ref(a[1]) == want), tags=('C17',))
    return Target('Factory.%s[%s]' % (meth, by), run, ['activeobject.Factory.' + meth])


def factory_targets():
    ts = [t_factory_create(), t_blueprint_catch()]
    for bs in ('function', 'name'):
        for bp in ('function', 'name', 'none'):
            ts.append(t_factory_nest(bs, bp))
    for by in ('function', 'name'):
        ts.append(t_factory_delegate('start_at', by, 'activeobject.ActiveObject.start_at'))
        ts.append(t_factory_delegate('to_code', by, 'hsm.HsmWithQueues.to_code'))
    return ts


# ------------------------------------------------------------------------------- to_code: per-text validation
INNER3 = ('ENTRY_SIGNAL', 'INIT_SIGNAL', 'EXIT_SIGNAL')


def t_flat(item):
    """The text that the real to_code returned for one row of a callback table, parsed and run by the VC generator
    for an arbitrary event: it must be a handler for that row (same callback per signal as the template handler,
    same parent)."""
    import ast
    from pyvc.extract import FuncInfo
    from pyvc.sym import Unsupported
    label = 'to_code[%s]' % item['label']

    def run(it):
        c = it.c
        try:
            mod = ast.parse(item['code'])
        except SyntaxError as ex:
            c.prove(label + ':text/is-python', z3.BoolVal(False), tags=('C17',))
            return
        defs = [n for n in mod.body if isinstance(n, ast.FunctionDef)]
        c.prove(label + ':text/defines-one-function-named-after-the-state',
                z3.BoolVal(len(defs) == 1 and len(mod.body) == 1 and defs[0].name == item['state']), tags=('C17',))
        if len(defs) != 1:
            return
        decos = [ast.unparse(d) for d in defs[0].decorator_list]
        c.prove(label + ':text/only-the-spy_on-decorator', z3.BoolVal(decos in ([], ['spy_on'])), tags=('C17',))
        fi = FuncInfo('hsm.<to_code text>.' + defs[0].name, defs[0], 'hsm', None, None)
        chart = make_chart(it, 'HsmWithQueues')
        flags(it, chart)
        e = symbolic_event(it, user=False)
        sig = c.hget(e, 'signal')
        st = it.w.statuses
        # names the text may mention: the registered callbacks and the parent
        env = {}
        cbs = {}
        for sg, nm in sorted(item['lookup'].items()):
            if nm != 'handled':
                r = env.get(nm) or c.fresh_ref(nm, 'fn')
                env[nm] = r
                cbs[sg] = r
        if item['parent'] == 'chart.top':
            parent = TOP
        else:
            pref = c.fresh_ref(item['parent'], 'state')
            env[item['parent']] = pref
            parent = pref.e
        known = {'chart', 'e', 'status', 'return_status', 'signals', 'spy_on'} | set(env)
        unknown = sorted({n.id for n in ast.walk(defs[0]) if isinstance(n, ast.Name) and n.id not in known})
        sig_names = sorted({n.attr for n in ast.walk(defs[0]) if isinstance(n, ast.Attribute)
                            and isinstance(n.value, ast.Name) and n.value.id == 'signals'
                            and n.attr not in item['lookup'] and n.attr not in INNER3})
        c.prove(label + ':text/mentions-only-the-rows-callbacks-parent-and-signals', z3.BoolVal(not unknown and not sig_names),
                tags=('C17',))
        if unknown or sig_names:
            return
        num = {}
        for sg in item['lookup']:
            num[sg] = z3.IntVal(it.w.signals[sg]) if sg in it.w.signals else c.to_int(it.w.user_signal_number(it, sg))
        users = [num[sg] for sg in item['lookup'] if sg not in it.w.signals]
        if len(users) > 1:
            c.assume(z3.Distinct(*users))
        for sg in INNER3:
            num.setdefault(sg, z3.IntVal(it.w.signals[sg]))
        calls = []
        target = c.fresh('transition_target', Ref)
        res_cb = c.fresh('callback_result', z3.IntSort())
        c.assume(res_cb >= 1)
        tf_before = c.hget(c.read(chart, 'temp'), 'fun')

        def callback(it_, fv, args, kwargs):
            cc = it_.c
            calls.append((fv.e, list(args)))
            if cc.choose(2, 'callback-moves-temp'):
                cc.hset(cc.read(chart, 'temp'), 'fun', target)
            return SInt(res_cb)
        it.w.hooks['call_fn'] = callback
        fn = SFunc(fi, [env], None, None)
        out = framed(it, label + ':frame', [(c.read(chart, 'temp'), 'fun')], lambda: run_body(it, fn, [chart, e]))
        c.prove(label + ':post/returns-normally', out.raised is None, tags=('C17',))
        if out.raised is not None:
            return
        res = c.to_int(out.value) if out.value is not None else z3.IntVal(-1)
        tf = c.hget(c.read(chart, 'temp'), 'fun')
        tf_cb = tf_before if not calls else None
        is_cb = z3.Or([sig == num[sg] for sg in cbs]) if cbs else z3.BoolVal(False)
        c.prove(label + ':callback/runs-once-exactly-when-one-is-registered-for-the-signal',
                z3.If(is_cb, z3.BoolVal(len(calls) == 1), z3.BoolVal(len(calls) == 0)), tags=('C17',))
        if len(calls) == 1:
            fv, args = calls[0]
            c.prove(label + ':callback/it-is-the-one-registered-for-the-signal',
                    z3.Or([z3.And(sig == num[sg], fv == r.e) for sg, r in cbs.items()]) if cbs else z3.BoolVal(False),
                    tags=('C17',))
            c.prove(label + ':callback/called-with-chart-and-event',
                    z3.BoolVal(len(args) == 2) if len(args) != 2 else
                    z3.And(c.to_ref(args[0]) == chart.e, c.to_ref(args[1]) == e.e), tags=('C17',))
            c.prove(label + ':callback/its-answer-is-returned', res == res_cb, tags=('C17',))
        else:
            handled = [sg for sg, nm in item['lookup'].items() if nm == 'handled']
            is_handled = z3.Or([sig == num[sg] for sg in handled]) if handled else z3.BoolVal(False)
            is_inner = z3.Or([sig == num[sg] for sg in INNER3])
            c.prove(label + ':table/default-blocks-entry-init-exit',
                    z3.Implies(is_handled, z3.And(res == st['HANDLED'], tf == tf_before)), tags=('C17',))
            c.prove(label + ':table/unregistered-entry-init-exit-are-blocked-or-passed-to-the-parent',
                    z3.Implies(z3.And(is_inner, z3.Not(is_handled), z3.Not(is_cb)),
                               z3.Or(z3.And(res == st['HANDLED'], tf == tf_before),
                                     z3.And(res == st['SUPER'], tf == parent))), tags=('C17',))
            c.prove(label + ':table/anything-else-names-the-parent',
                    z3.Implies(z3.And(z3.Not(is_inner), z3.Not(is_cb)), z3.And(res == st['SUPER'], tf == parent)),
                    tags=('C17',))
        c.cover(label + ':cover')
    return Target(label, run, [])
