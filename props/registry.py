"""Which properties are claimed, at which level, decided by which method (feeds MANIFEST.json)."""

OPLEVEL = ('Sequential contracts + invariants: every whole-operation interleaving is covered, statement-level races '
           'inside lock-free operations are not (DESIGN.md section 7). ')

CLAIMED = {
    'C15': {
        'category': 'proof',
        'text': 'defer/recall and every other queue operation of the real source are verified against deque-level '
                'contracts for all queue contents, flag combinations and both hosts (queued chart, active object); '
                'unbounded in queue length.',
        'note': 'Trusted: pyvc encoder, z3/cvc5, assumed collections.deque contract, LockingDeque contract (proved '
                'in C16), handlers\' own queue calls are separate operations.',
        'technique': 'contract-based deductive verification: ast->VC, z3',
    },
}

NOT_APPLICABLE = {
    'C05': 'liveness under fair scheduling over all statement-level interleavings of lock-free posters and the '
           'consumer: a deductive contract has no schedule quantifier and no fairness notion; deciding it needs '
           'model checking or an Owicki-Gries/rely-guarantee proof with a ranking argument (different family). '
           'The sequential projection (the repair loop terminates when run alone) is an obligation of C16.',
}
