"""Which properties are claimed, at which level, decided by which method (feeds MANIFEST.json)."""

OPLEVEL = ('Sequential contracts + invariants: every whole-operation interleaving is covered, statement-level races '
           'inside lock-free operations are not (DESIGN.md section 7). ')

TECH = 'contract-based deductive verification: real source (ast) -> VCs by pyvc, discharged by z3/cvc5; native replay of counterexamples'
CORE_NOTE = ('Trusted: pyvc encoder, z3/cvc5, the abstract handler contract as the definition of a well-formed chart, '
             'induction over depth for the tree lemmas (each lemma a discharged obligation), list/Event contracts.')
Q_NOTE = ('Trusted: pyvc encoder, z3/cvc5, assumed collections.deque / queue.Queue contracts; handlers\' own queue calls '
          'are separate operations of the history.')

CLAIMED = {
    'C01': {'text': 'dispatch and trans_ are verified, for every finite tree, current state, source, target and chain of '
                    'initial transitions (uninterpreted parent/depth/anc, 10 loop invariants with variants), against the '
                    'UML monitor and a least-common-ancestor postcondition taken from the property text; unbounded.',
            'note': CORE_NOTE, 'technique': TECH},
    'C02': {'text': 'the offer protocol (current state first, each enclosing state in turn, one EMPTY_SIGNAL after a '
                    'declined offer, nothing after an answer) and "no action, same state" for handled/ignored events are '
                    'postconditions of dispatch for every tree and every reaction of every state on the active path.',
            'note': CORE_NOTE, 'technique': TECH},
    'C03': {'text': 'start_at/init verified for every tree, start state and chain of initial transitions against the UML '
                    'monitor (each level entered exactly once, outside-in, nothing exited); three loop invariants, variants.',
            'note': CORE_NOTE, 'technique': TECH},
    'C06': {'text': 'subscribe, publish, one iteration of each delivery thread, start and clear are verified against an '
                    'abstract registry view (identity-based, no duplicates) for all registry contents including distinct '
                    'queues with equal contents.',
            'note': OPLEVEL + 'Trusted: PriorityQueue/list/dict contracts, id() injective.', 'technique': TECH},
    'C08': {'text': 'FabricEvent.__init__/__lt__ are verified to order any two publications lexicographically by '
                    '(priority, publication order); with the honest heap contract of PriorityQueue.get that gives delivery '
                    'in that order however many events wait.',
            'note': OPLEVEL + 'Trusted: PriorityQueue.get returns some __lt__-minimal element; itertools.count increases.',
            'technique': TECH},
    'C09': {'text': 'one iteration of thread_runner_lifo/fifo verified: lifo deliveries must be appendleft, fifo append. '
                    'The lifo obligation fails on the current tree (known finding D8: q.append; repair collides with the '
                    'pinned test test_subscribe_lilo).',
            'note': 'Trusted: PriorityQueue/list/dict contracts.', 'technique': TECH},
    'C13': {'text': 'Inv_fab (ghost count of live delivery threads per kind equals "handle is a live thread"; live threads '
                    'are bound to the fabric\'s current queue and registry) is preserved by start/stop/clear for every '
                    'combination of missing, dead and live handles; is_alive verified against it.',
            'note': OPLEVEL + 'Trusted: Thread/Event contracts, join returns once the target loop exits (loop exit proved), '
                    'fair scheduling.', 'technique': TECH},
    'C04': {'text': 'operation-level system invariant (one wake-up token per pending event when idle, at most one consumer '
                    'thread): posts, one wake-up of run_event, next_rtc and __start are each verified to preserve it and to '
                    'dispatch exactly the head of the queue, once.',
            'note': OPLEVEL + 'Trusted: Queue/deque/Thread contracts, LockingDeque contracts (C16).', 'technique': TECH},
    'C07': {'text': 'subscribe/publish/top/_subscribe/_publish with their spy wrappers verified for instrumented and '
                    'un-instrumented objects, running or not yet started, event or signal-number arguments, every '
                    'queue_type and arbitrary prior registry contents.',
            'note': 'Trusted: ActiveFabric call-site contracts (C06), LockingDeque.appendleft (C16), Event.__init__ (C25); '
                    '"thread running" read once per call.', 'technique': TECH},
    'C10': {'text': 'timed post_fifo/post_lifo executed down to Thread construction (specification carries event, kind, '
                    'count, deferral, period unchanged) and the nested thread function executed on a virtual clock with a '
                    'loop invariant: exactly n posts, first after p iff deferred, exactly p apart; unbounded in n and p.',
            'note': 'Trusted: time.sleep advances a virtual clock by p; Thread runs target(*args); nobody else clears the '
                    'run event (absent cancellation).', 'technique': TECH},
    'C11': {'text': 'cancel_event/cancel_events verified with a loop invariant over the examine-last/rotate idiom (ghost '
                    'index maps): exactly the sources whose id/name EQUALS the argument (any equal object) are stopped and '
                    'dropped, all others stay tracked and running.',
            'note': 'Trusted: deque/Event contracts, uuid4 uniqueness. The timer thread\'s test-then-post window is a '
                    'schedule question and not covered.', 'technique': TECH},
    'C12': {'text': 'stop() verified for callers outside and inside the object\'s thread: flag clear, stop marker posted '
                    'with a wake-up token, join precondition (consumer will wake and see the flag), every tracked source '
                    'stopped and dropped (loop invariant over the snapshot), nobody else\'s run event touched; one '
                    'iteration of run_event shows the woken thread exits.',
            'note': OPLEVEL + 'Trusted: Thread.join/cancel_events(C11)/LockingDeque(C16) contracts, fair scheduling.',
            'technique': TECH},
    'C18': {'text': 'per-wrapper transparency contracts (wrapped callable runs exactly once with the same arguments, result '
                    'unchanged, only instrumentation fields written, no definedness failure) for _spy_on on all hosts and '
                    'event kinds, the dispatch/start_at stacks, the live-output wrappers and ActiveObject.start_at.',
            'note': "Trusted: core contracts as seen by the wrappers (proved by C01-C03/C23; the log summary of a step by composition of the _spy_on contract, C02's offer protocol and the core frame), deque/list contracts, functools.wraps; user code does not touch instrumentation fields.", 'technique': TECH},
    'C19': {'text': '_spy_on verified line by line for every host and event kind; the core is shown never to write a log; '
                    'step framing (cleared before, appended to the full spy after, START first) verified on the wrappers.',
            'note': "Trusted: core contracts as seen by the wrappers (proved by C01-C03/C23; the log summary of a step by composition of the _spy_on contract, C02's offer protocol and the core frame), deque/list contracts, functools.wraps; user code does not touch instrumentation fields.", 'technique': TECH},
    'C20': {'text': 'trace wrapper verified around the core contract: one record exactly for a transition, none for handled '
                    'or ignored events, one top->start record from start_at; loop invariant for is_signal_hooked.',
            'note': "Trusted: core contracts as seen by the wrappers (proved by C01-C03/C23; the log summary of a step by composition of the _spy_on contract, C02's offer protocol and the core frame), deque/list contracts, functools.wraps; user code does not touch instrumentation fields." + ' Handlers answer client events with TRAN/HANDLED/UNHANDLED/SUPER.', 'technique': TECH},
    'C21': {'text': 'the four live-output wrappers verified around an abstract step with arbitrary (possibly repeating) clock '
                    'readings: trace callback exactly once per new record, spy callback once per line in order.',
            'note': "Trusted: core contracts as seen by the wrappers (proved by C01-C03/C23; the log summary of a step by composition of the _spy_on contract, C02's offer protocol and the core frame), deque/list contracts, functools.wraps; user code does not touch instrumentation fields." + ' Of the writer of ActiveObject, __init__ (line queue without a bound) and _print (one item per line) are under contract; its thread function and FIFO order of queue.Queue are assumed.', 'technique': TECH},
    'C17': {'category': 'translation_validation',
            'text': 'two halves. (a) deductive, unbounded: the template handler (base_state_method + signal_callback + '
                    'parent_callback) satisfies the handler table for every registry content and event kind; '
                    'register_signal_callback / register_parent update exactly one entry and keep the registry well formed; '
                    'Factory.create/catch/to_method/nest/start_at/to_code delegate with the named state (both overloads). '
                    'C01-C03 hold for every handler satisfying that table, which carries "behaves like the hand-written '
                    'chart". (b) translation validation, BOUNDED over table rows, unbounded over events: the real to_code is '
                    'run on every row of a stated family, each returned text is parsed and verified by the same VC generator '
                    'against its row. to_code is not proved for arbitrary tables.',
            'note': 'Trusted: pyvc encoder, z3/cvc5, ast.parse, the emitter harness; callbacks are named module-level '
                    'functions with distinct names; @spy_on on the emitted text is C18.',
            'technique': TECH + '; per-instance translation validation of to_code output (bounded family of rows)'},
    'C23': {'text': 'state_name/state_fn post-conditions of start_at and dispatch on every host (plain core over the tree '
                    'theory, instrumented stacks around the core contract), of _spy_on, of the queries on spy-decorated '
                    'charts, and of current_state().',
            'note': "Trusted: core contracts as seen by the wrappers (proved by C01-C03/C23; the log summary of a step by composition of the _spy_on contract, C02's offer protocol and the core frame), deque/list contracts, functools.wraps; user code does not touch instrumentation fields.", 'technique': TECH},
    'C24': {'text': 'start_at/init and dispatch verified a second time under the weakened handler contract (an initial '
                    'transition may name any state, an offer may return None): every loop has a variant (DMAX - depth for the '
                    'outer init loops), the monitor obligations still hold at every call (no wrong state is entered before the '
                    'failure), a normal return implies nothing was malformed, the only exception is HsmTopologyException.',
            'note': CORE_NOTE + ' The chart is finite (a bound on depth exists).', 'technique': TECH},
    'C25': {'text': 'the registry as an insertion-ordered map with an index; class invariant (index and key sequence agree, '
                    'number == position, ten built-ins first) established by __init__ and preserved by append, __getattr__ '
                    'and Event.__init__, which bind a new name to len+1 and never change a binding; name_for_signal inverts '
                    'it; is_inner_signal exact; Event reports the matching pair; writers carry lock-discipline obligations.',
            'note': 'Trusted: OrderedDict contract, RLock ghost. Readers take no lock and rely on the registry only growing '
                    '(every mutator shown append-only).', 'technique': TECH + '; lock-discipline obligations for writers'},
    'C26': {'text': 'dumps/loads executed with json as an assumed contract: keys agree, payload passed through both ways, '
                    'the name takes the str branch of Event.__init__ and gets this process\'s number.',
            'note': 'Trusted: json round-trip contract (validated natively on generated values), Event.__init__ (C25).',
            'technique': TECH},
    'C32': {'text': 'stripped() executed with strings as opaque values (loop invariant with index map: result = stripped '
                    'non-blank lines without timestamp, in order; single line stripped the same way) plus automata '
                    'obligations on the regex literal (every miros trace line matches, prefix code, bodies left alone).',
            'note': 'Trusted: str.splitlines/strip/len as uninterpreted functions; re._parser tree; strftime format.',
            'technique': TECH + '; regular-language obligations by automata'},
    'C27': {'text': 'lock-discipline obligations on ThreadSafeAttribute: _is_atomic and the stored value are guarded by the '
                    'attribute lock, every statement shape (read, assignment, augmented assignment) is one critical section, '
                    'releases only by the owner, hold count 0 at the end, monitor invariant restored on release; where these '
                    'hold every statement is atomic, so the result is that of a serial order under every interleaving.',
            'note': 'Trusted: RLock as ghost (owner, hold count, epoch); statement shapes of Python; classification of source '
                    'lines (decided under C28).', 'technique': TECH + '; lock-discipline (ownership) obligations'},
    'C28': {'text': 'symbolic execution of __get__/__set__ gives the hold count as a function of the line classifier; a grammar '
                    'of ~75 statement forms (regular languages of source lines) is decided against the classifier regex read '
                    'from the real source by product automata, for lines of every length. Two forms (operator text inside a '
                    'comment / string literal) fail on the current tree: known findings.',
            'note': 'Trusted: re._parser tree = what re executes (witnesses replayed natively); single-line statements; '
                    'three sample attribute names.', 'technique': TECH + '; regular-language obligations by automata'},
    'C29': {'text': '__get__/__set__ executed on two symbolic instances sharing the class-level descriptor: assigning one '
                    'never changes what the other reads; a never-assigned instance reads 0.',
            'note': 'Trusted: descriptor protocol; instance.__dict__ as a per-instance str-keyed dict.', 'technique': TECH},
    'C30': {'text': 'sequential contract of SingletonDecorator.__call__ (cached instance or a new one that becomes cached) '
                    'plus ownership obligations: instance guarded_by(_lock), test-and-create in one critical section, lock '
                    'released; the five documented singletons are bound to SingletonDecorator.',
            'note': 'Trusted: RLock as ghost; constructor of the wrapped class returns a new object.',
            'technique': TECH + '; lock-discipline (ownership) obligations'},
    'C31': {'text': 'on the over-capacity path a timed post must raise with no timer thread started, the tracked list '
                    'unchanged and no tracked run event touched.',
            'note': 'Trusted: Thread contract (an unstarted thread runs nothing), deque contract.', 'technique': TECH},
    'C14': {'text': 'post_fifo, post_lifo, next_rtc, complete_circuit with all decorators inlined refine the operations of a '
                    'double-ended queue for every queue content, flag combination and both hosts.',
            'note': Q_NOTE, 'technique': TECH},
    'C15': {'text': 'defer/recall and every other queue operation of the real source are verified against deque-level '
                    'contracts for all queue contents, flag combinations and both hosts; unbounded in queue length.',
            'note': Q_NOTE, 'technique': TECH},
    'C16': {'text': 'representation invariant of LockingDeque and the property\'s sentences as postconditions of '
                    'append/appendleft/pop/popleft/clear/len/qsize for all contents and token counts; every Queue.put site '
                    'carries a never-blocks obligation; repair loops have variants.',
            'note': Q_NOTE + ' Operations are taken as atomic (statement-level races with the consumer out of reach).',
            'technique': TECH},
    'C22': {'text': 'is_in/child_state verified for every tree, current state and argument: the answer equals the spec '
                    'function encloses(X, current); only temp.fun is written and restored; no monitor step, no offer.',
            'note': CORE_NOTE, 'technique': TECH},
}

NOT_APPLICABLE = {
    'C05': 'liveness under fair scheduling over all statement-level interleavings of lock-free posters and the '
           'consumer: a deductive contract has no schedule quantifier and no fairness notion; deciding it needs '
           'model checking or an Owicki-Gries/rely-guarantee proof with a ranking argument (different family). '
           'The sequential projection (the repair loop terminates when run alone) is an obligation of C16.',
}
