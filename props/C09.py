"""C09 - lifo subscriptions put events at the front of an active object's queue."""
from . import fabric_targets as FT

LEVEL = 'proof'
TAGS = ('C09',)
TRUSTED = ['queue.PriorityQueue.get contract', 'list / dict contracts']
ASSUMPTIONS = ['ActiveObject._subscribe passes its own queue and the requested kind to the fabric (proved under C07)']
EXPLANATION = ('One iteration of thread_runner_lifo / thread_runner_fifo of the real source: every delivery made for a '
               'lifo subscription must be an appendleft (what post_lifo does), every fifo delivery an append.')
MIN_OBLIGATIONS = 2


def build(src, tier):
    w = FT.world_for(src, tier)
    return [(w, [FT.t_runner_iteration('fifo'), FT.t_runner_iteration('lifo')])]
