"""C09 - lifo subscriptions put events at the front of an active object's queue."""
from . import fabric_targets as FT
from . import queue_targets as Q

LEVEL = 'proof'
TAGS = ('C09',)
TRUSTED = ['queue.PriorityQueue.get contract', 'list / dict contracts', 'collections.deque / queue.Queue contracts']
ASSUMPTIONS = ['ActiveObject._subscribe passes its own queue and the requested kind to the fabric (proved under C07)']
EXPLANATION = ('One iteration of thread_runner_lifo / thread_runner_fifo of the real source: every delivery made for a '
               'lifo subscription must be an appendleft (what post_lifo does), every fifo delivery an append.  What '
               'these two calls do to the pending events (new event at the front / at the back, the others in order) is '
               'the contract of LockingDeque.appendleft / append, verified here against the real bodies (targets of C16) '
               'and of post_lifo / post_fifo on an active object.')
MIN_OBLIGATIONS = 2


def build(src, tier):
    w = FT.world_for(src, tier)
    from . import C16
    wq = Q.world_for(src, tier)
    return [(w, [FT.t_runner_iteration('fifo'), FT.t_runner_iteration('lifo')]),
            (wq, [C16.t_ld_put('fifo'), C16.t_ld_put('lifo'), Q.t_post('ActiveObject', 'fifo', ('C09',)),
                  Q.t_post('ActiveObject', 'lifo', ('C09',))])]
