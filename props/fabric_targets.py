"""Targets for the active fabric (C06, C08, C09, C13)."""
import z3

from pyvc.sym import SInt, SBool, SRef, SFunc, Ref, StrV, NONE, sval
from pyvc.verify import Target, method, run_body, framed
from pyvc import builtins as B
from contracts import base_world
from contracts import fabric as F
from contracts.common import symbolic_event

AF = 'activeobject.ActiveFabricSource.'
RUNNERS = {'fifo': 'thread_runner_fifo', 'lifo': 'thread_runner_lifo'}


def world_for(src, tier):
    w = base_world(src)
    F.install(w)
    w.pytype_overrides[('FabricEvent', 'event')] = 'Event'
    return w


def runner_ref(it, kind):
    fi = it.src.find_method('ActiveFabricSource', RUNNERS[kind])
    return it.w.funcref(SFunc(fi, [], None, 'ActiveFabricSource'))


def make_fabric(it, threads='any'):
    """A symbolic ActiveFabricSource satisfying Inv_fab: per kind the handle is None or a thread targeting that
    kind's runner, bound to the *current* queue and registry objects; ghost live counts agree with the handles."""
    c, g = it.c, it.c.ghost
    self = c.fresh_ref('fabric', 'ActiveFabricSource')
    flag = c.fresh_ref('fabric_flag', 'ThreadEvent')
    c.hset(self, 'fabric_task_event', flag.e)
    c.hset(flag, 'flag', c.fresh('flag0', z3.BoolSort()))
    c.pyghost['the_flag'] = flag
    for k in ('fifo', 'lifo'):
        q = c.fresh_ref(k + '_pq', 'PriorityQueue')
        c.hset(q, 'qsize', c.fresh(k + '_pq_size', z3.IntSort()))
        c.assume(c.hget(q, 'qsize') >= 0)
        c.hset(self, k + '_fabric_queue', q.e)
        d = c.fresh_ref(k + '_subs', 'dict<list<subq>>')
        c.hset(self, k + '_subscriptions', d.e)
    for k in ('fifo', 'lifo'):
        if threads == 'none':
            c.hset(self, k + '_thread', NONE)
            g['g_live_' + RUNNERS[k]] = z3.IntVal(0)
            continue
        th = c.fresh(k + '_thread0', Ref)
        c.hset(self, k + '_thread', th)
        alive = c.hget(th, 'alive')
        c.assume(z3.Implies(th != NONE, z3.And(
            c.hget(th, 'target') == runner_ref(it, k), c.hget(th, 'started'),
            # binding invariant: a live delivery thread works on the fabric's current queue and registry
            z3.Implies(alive, z3.And(c.hget(th, '$arg0') == flag.e,
                                     c.hget(th, '$arg1') == c.hget(self, k + '_fabric_queue'),
                                     c.hget(th, '$arg2') == c.hget(self, k + '_subscriptions'))))))
        for o in c.live_refs:
            c.assume(z3.Or(th == NONE, th != o))
        c.live_refs.append(th)        # objects allocated later are different from this pre-existing thread
        g['g_live_' + RUNNERS[k]] = z3.If(z3.And(th != NONE, alive), z3.IntVal(1), z3.IntVal(0))
    it.w.hooks['singleton'] = lambda it_, cls, a, kw: flag if cls == 'SourceThreadEvent' else None
    return self


def inv_fab(it, self):
    """Per kind: at most one live delivery thread, and if one is live the handle is it, bound to current objects."""
    c, g = it.c, it.c.ghost
    out = []
    flag = c.pyghost['the_flag']
    for k in ('fifo', 'lifo'):
        th = c.hget(self, k + '_thread')
        alive = z3.And(th != NONE, c.hget(th, 'alive'))
        out.append(('%s/live-count-matches-handle' % k, g['g_live_' + RUNNERS[k]] == z3.If(alive, 1, 0)))
        out.append(('%s/live-thread-bound-to-current-queue-and-registry' % k, z3.Implies(alive, z3.And(
            c.hget(th, 'target') == runner_ref(it, k), c.hget(th, '$arg0') == flag.e,
            c.hget(th, '$arg1') == c.hget(self, k + '_fabric_queue'),
            c.hget(th, '$arg2') == c.hget(self, k + '_subscriptions')))))
    return out


def fabric_fields(it, self):
    c = it.c
    return [(self, f) for f in ('fabric_task_event', 'fifo_thread', 'lifo_thread', 'fifo_fabric_queue',
                                'lifo_fabric_queue', 'fifo_subscriptions', 'lifo_subscriptions')]


# ------------------------------------------------------------------ C13
def t_start():
    def run(it):
        c, g = it.c, it.c.ghost
        self = make_fabric(it)
        flag = c.pyghost['the_flag']
        out = run_body(it, method(it, self, 'start'), [])
        c.prove('start:post/returns-normally', out.raised is None, tags=('C13',))
        if out.raised is not None:
            return
        for k in ('fifo', 'lifo'):
            th = c.hget(self, k + '_thread')
            c.prove('start:post/%s-handle-is-a-live-thread' % k, z3.And(th != NONE, c.hget(th, 'alive')), tags=('C13',))
            c.prove('start:post/exactly-one-%s-delivery-thread' % k, g['g_live_' + RUNNERS[k]] == 1, tags=('C13',))
        c.prove('start:post/run-flag-set', c.hget(flag, 'flag'), tags=('C13',))
        for nm, f in inv_fab(it, self):
            c.prove('start:inv/%s' % nm, f, tags=('C13', 'C06'))
        c.cover('start:cover')
    return Target('fabric.start', run, [AF + 'start', AF + 'start.initiate_thread'])


def t_is_alive():
    def run(it):
        c = it.c
        self = make_fabric(it)
        out = framed(it, 'is_alive:frame', [], lambda: run_body(it, method(it, self, 'is_alive'), []))
        c.prove('is_alive:post/returns-normally', out.raised is None, tags=('C13',))
        if out.raised is not None:
            return
        both = z3.And([z3.And(c.hget(self, k + '_thread') != NONE, c.hget(c.hget(self, k + '_thread'), 'alive'))
                       for k in ('fifo', 'lifo')])
        c.prove('is_alive:post/reports-both-delivery-threads', c.to_bool(out.value) == both, tags=('C13',))
    return Target('fabric.is_alive', run, [AF + 'is_alive'])


def t_stop():
    def run(it):
        c, g = it.c, it.c.ghost
        self = make_fabric(it)
        flag = c.pyghost['the_flag']
        g['cur_thread'] = c.fresh('caller_thread', Ref)
        for k in ('fifo', 'lifo'):
            c.assume(g['cur_thread'] != c.hget(self, k + '_thread'))
        out = run_body(it, method(it, self, 'stop'), [])
        c.prove('stop:post/returns-normally', out.raised is None, tags=('C13',))
        if out.raised is not None:
            return
        for k in ('fifo', 'lifo'):
            th = c.hget(self, k + '_thread')
            c.prove('stop:post/%s-thread-ended' % k, z3.Or(th == NONE, z3.Not(c.hget(th, 'alive'))), tags=('C13',))
            c.prove('stop:post/no-%s-delivery-thread-left' % k, g['g_live_' + RUNNERS[k]] == 0, tags=('C13',))
        c.prove('stop:post/run-flag-clear', z3.Not(c.hget(flag, 'flag')), tags=('C13',))
        for nm, f in inv_fab(it, self):
            c.prove('stop:inv/%s' % nm, f, tags=('C13',))
        c.cover('stop:cover')
    return Target('fabric.stop', run, [AF + 'stop', AF + 'stop.stop_thread'])


def t_clear():
    def run(it):
        c, g = it.c, it.c.ghost
        self = make_fabric(it)
        out = run_body(it, method(it, self, 'clear'), [])
        c.prove('clear:post/returns-normally', out.raised is None, tags=('C13', 'C06'))
        if out.raised is not None:
            return
        for k in ('fifo', 'lifo'):
            d = c.hget(self, k + '_subscriptions')
            key = z3.Const('key!clr', StrV)
            c.prove('clear:post/%s-registry-empty' % k, z3.ForAll([key], z3.Not(z3.Select(c.hget(d, '$has'), key))),
                    tags=('C13', 'C06'))
            c.prove('clear:post/%s-queue-empty' % k, c.hget(c.hget(self, k + '_fabric_queue'), 'qsize') == 0,
                    tags=('C13', 'C06'))
        for nm, f in inv_fab(it, self):
            c.prove('clear:inv/%s' % nm, f, tags=('C13', 'C06'))
        c.cover('clear:cover')
    return Target('fabric.clear', run, [AF + 'clear'])


def t_runner_exit(kind):
    """A delivery thread whose run flag is clear leaves its loop at the next test (used by stop/join)."""
    def run(it):
        c = it.c
        self = make_fabric(it)
        flag = c.pyghost['the_flag']
        c.hset(flag, 'flag', z3.BoolVal(False))
        q = SRef(c.hget(self, kind + '_fabric_queue'), 'PriorityQueue')
        d = SRef(c.hget(self, kind + '_subscriptions'), 'dict<list<subq>>')
        it.w.loopspecs_saved = None
        out = run_body(it, method(it, self, RUNNERS[kind]), [flag, q, d])
        c.prove('%s:post/exits-when-flag-clear' % RUNNERS[kind], out.raised is None, tags=('C13',))
    return Target('fabric.runner-exit-%s' % kind, run, [AF + RUNNERS[kind]])


# ------------------------------------------------------------------ C06 / C09: one delivery
def t_runner_iteration(kind):
    def run(it):
        c, g = it.c, it.c.ghost
        self = make_fabric(it)
        flag = c.pyghost['the_flag']
        q = SRef(c.hget(self, kind + '_fabric_queue'), 'PriorityQueue')
        d = SRef(c.hget(self, kind + '_subscriptions'), 'dict<list<subq>>')
        F.deliv_init(c)
        g['g_pq_taken'] = NONE
        key = z3.Const('key!reg', StrV)
        has, mp = c.hget(d, '$has'), c.hget(d, '$map')
        # registry invariant (established by subscribe, see the subscribe target): no queue twice under one name
        c.assume(z3.ForAll([key], z3.Implies(z3.Select(has, key),
                                             F.nodup(*F.list_view(it, z3.Select(mp, key))))))
        spec = it.w.loopspecs[('activeobject.ActiveFabricSource.' + RUNNERS[kind], 1)]

        def after_havoc(it_, env):
            cc = it_.c
            env['$iter0'] = (cc.ghost['g_deliv'], cc.ghost['g_front'], cc.ghost['g_last'])
            env['$h_iter0'] = dict(cc.heap)

        def body_end(it_, env):
            cc, gg = it_.c, it_.c.ghost
            d0, f0, l0 = env['$iter0']
            item = gg['g_pq_taken']
            ev = cc.hget(item, 'event')
            name = sval(cc.hget(ev, 'signal_name'))
            hs = z3.Select(cc.hget(d, '$has'), name)
            lst = z3.Select(cc.hget(d, '$map'), name)
            items, n = F.list_view(it_, lst)
            j = z3.Int('j!post')
            r = z3.Const('r!post', Ref)
            subscribed = z3.Exists([j], z3.And(0 <= j, j < n, z3.Select(items, j) == r))
            deliver = z3.And(item != NONE, hs)
            cc.prove('%s:iteration/delivers-the-publication-it-took' % RUNNERS[kind], z3.BoolVal(True), tags=('C08',))
            cc.prove('%s:iteration/every-subscriber-gets-it-once' % RUNNERS[kind], z3.Implies(deliver, z3.ForAll(
                [j], z3.Implies(z3.And(0 <= j, j < n), z3.And(
                    z3.Select(gg['g_deliv'], z3.Select(items, j)) == z3.Select(d0, z3.Select(items, j)) + 1,
                    z3.Select(gg['g_last'], z3.Select(items, j)) == ev)))), tags=('C06',))
            cc.prove('%s:iteration/nobody-else-gets-it' % RUNNERS[kind], z3.ForAll(
                [r], z3.Implies(z3.Not(z3.And(deliver, subscribed)), z3.Select(gg['g_deliv'], r) == z3.Select(d0, r))),
                tags=('C06',))
            want = 1 if kind == 'lifo' else 0
            cc.prove('%s:iteration/placed-at-%s' % (RUNNERS[kind], 'front' if kind == 'lifo' else 'back'),
                     z3.Implies(deliver, z3.ForAll([j], z3.Implies(
                         z3.And(0 <= j, j < n),
                         z3.Select(gg['g_front'], z3.Select(items, j)) == z3.Select(f0, z3.Select(items, j)) + want))),
                     tags=('C09',))
            cc.prove('%s:iteration/took-one-publication' % RUNNERS[kind], item != NONE, tags=('C06', 'C08'))
            cc.prove('%s:iteration/one-get-per-iteration' % RUNNERS[kind],
                     cc.hget(q, 'qsize') == z3.Select(env['$h_iter0']['qsize'], q.e) - 1, tags=('C06', 'C08'))
        spec.after_havoc, spec.body_end = after_havoc, body_end
        try:
            out = run_body(it, method(it, self, RUNNERS[kind]), [flag, q, d])
        finally:
            spec.after_havoc, spec.body_end = None, None
        # a delivery thread ends only because its run flag was cleared -- whatever it finds in its queue
        c.prove('%s:post/ends-only-when-the-run-flag-is-clear' % RUNNERS[kind],
                z3.Not(c.hget(flag, 'flag')) if out.raised is None else False, tags=('C13', 'C06', 'C08'))
    return Target('fabric.deliver-%s' % kind, run, [AF + RUNNERS[kind]])


# ------------------------------------------------------------------ C06: subscribe / publish
def t_subscribe(sig_kind, qt):
    def run(it):
        c, g = it.c, it.c.ghost
        self = make_fabric(it)
        queue = c.fresh_ref('client_queue', 'subq', distinct=False)
        c.assume(queue.e != NONE)
        if sig_kind == 'event':
            sig = symbolic_event(it)
            name = sval(c.hget(sig, 'signal_name'))
        else:
            sig = SInt(c.fresh('signal_number', z3.IntSort()))
            name = sval(B.sig_name(sig.e))
        if qt == 'sym':
            qtv = c.fresh_ref('queue_type', 'str', distinct=False)
            c.assume(qtv.e != NONE)
            lifo = c.branch(sval(qtv.e) == c.strconst('lifo'), 'asks-for-lifo')
        else:
            qtv = qt
            lifo = (qt == 'lifo')
        mine, other = ('lifo', 'fifo') if lifo else ('fifo', 'lifo')
        key = z3.Const('key!sub', StrV)
        j = z3.Int('j!sub')
        D = {}
        for k in ('fifo', 'lifo'):
            d = c.hget(self, k + '_subscriptions')
            D[k] = (d, c.hget(d, '$has'), c.hget(d, '$map'))
        d, has0, map0 = D[mine]
        L0 = z3.Select(map0, name)
        had = z3.Select(has0, name)
        i0, n0 = F.list_view(it, L0)
        # registry invariant for the list under this name (preservation is proved below)
        c.assume(z3.Implies(had, z3.And(L0 != NONE, n0 >= 1, F.nodup(i0, n0))))
        # lists are not shared between names or kinds (each is created for one name, see the first-subscriber case)
        for k in ('fifo', 'lifo'):
            c.assume(z3.ForAll([key], z3.Implies(z3.And(z3.Select(D[k][1], key), z3.Or(k != mine, key != name)),
                                                 z3.Select(D[k][2], key) != L0)))
        # skolemised membership of the client queue (identity)
        was_member = c.fresh('was_member', z3.BoolSort())
        w = c.fresh('witness', z3.IntSort())
        c.assume(z3.Implies(was_member, z3.And(had, 0 <= w, w < n0, z3.Select(i0, w) == queue.e)))
        c.assume(z3.Implies(z3.Not(was_member), z3.ForAll([j], z3.Implies(z3.And(0 <= j, j < n0),
                                                                          z3.Select(i0, j) != queue.e))))
        # id() is injective on live objects; == on queue objects is reflexive (value equality of deques)
        a, b = z3.Consts('a!id b!id', Ref)
        c.assume(z3.ForAll([a, b], z3.Implies(B.id_of(a) == B.id_of(b), a == b), patterns=[z3.MultiPattern(B.id_of(a), B.id_of(b))]))
        c.assume(z3.ForAll([a], B.val_eq(a, a), patterns=[B.val_eq(a, a)]))
        c.assume(B.val_eq(queue.e, queue.e))
        mods = [(d, '$has'), (d, '$map'), (L0, '$items'), (L0, '$len')]
        out = framed(it, 'subscribe:frame', mods, lambda: run_body(it, method(it, self, 'subscribe'), [queue, sig, qtv]))
        c.prove('subscribe:post/returns-normally', out.raised is None, tags=('C06',))
        if out.raised is not None:
            return
        for k in ('fifo', 'lifo'):
            c.prove('subscribe:post/%s-registry-object-kept' % k, c.hget(self, k + '_subscriptions') == D[k][0],
                    tags=('C06',))
        do, haso0, mapo0 = D[other]
        c.prove('subscribe:post/other-kind-untouched',
                z3.And(c.hget(do, '$has') == haso0, c.hget(do, '$map') == mapo0), tags=('C06',))
        has1, map1 = c.hget(d, '$has'), c.hget(d, '$map')
        c.prove('subscribe:post/other-names-untouched',
                z3.ForAll([key], z3.Implies(key != name, z3.And(z3.Select(has1, key) == z3.Select(has0, key),
                                                                z3.Select(map1, key) == z3.Select(map0, key)))),
                tags=('C06',))
        L1 = z3.Select(map1, name)
        i1, n1 = F.list_view(it, L1)
        keep = z3.ForAll([j], z3.Implies(z3.And(0 <= j, j < n0), z3.Select(i1, j) == z3.Select(i0, j)))
        c.prove('subscribe:post/subscribed-afterwards', z3.Select(has1, name), tags=('C06',))
        c.prove('subscribe:post/resubscribing-changes-nothing',
                z3.Implies(was_member, z3.And(L1 == L0, n1 == n0, keep)), tags=('C06',))
        c.prove('subscribe:post/new-subscriber-appended',
                z3.Implies(z3.And(had, z3.Not(was_member)), z3.And(L1 == L0, n1 == n0 + 1, keep,
                                                                    z3.Select(i1, n0) == queue.e)), tags=('C06',))
        c.prove('subscribe:post/first-subscriber',
                z3.Implies(z3.Not(had), z3.And(n1 == 1, z3.Select(i1, 0) == queue.e, L1 != NONE)), tags=('C06',))
        c.prove('subscribe:inv/no-duplicates', F.nodup(i1, n1), tags=('C06',))
        fresh_or_same = z3.Or(L1 == L0, z3.And([L1 != z3.Select(D[k][2], key) for k in ('fifo', 'lifo')]))
        c.prove('subscribe:inv/list-not-shared', z3.ForAll([key], z3.Implies(
            z3.Not(had), z3.And([z3.Implies(z3.And(z3.Select(D[k][1], key), z3.Or(k != mine, key != name)),
                                            L1 != z3.Select(D[k][2], key)) for k in ('fifo', 'lifo')]))), tags=('C06',))
        c.cover('subscribe:cover')
    return Target('fabric.subscribe[%s,%s]' % (sig_kind, qt), run, [AF + 'subscribe', AF + 'subscribe._subscribe'])


def _same_list(it, lst, heap0):
    i0, n0 = F.list_view(it, lst, heap0)
    i1, n1 = F.list_view(it, lst)
    j = z3.Int('j!same')
    return z3.And(n1 == n0, z3.ForAll([j], z3.Implies(z3.And(0 <= j, j < n0), z3.Select(i1, j) == z3.Select(i0, j))))


def t_publish():
    def run(it):
        c = it.c
        self = make_fabric(it)
        e = symbolic_event(it)
        pr = c.choose(2, 'priority-given')
        prio = SInt(c.fresh('priority', z3.IntSort())) if pr == 0 else None
        out = run_body(it, method(it, self, 'publish'), [e, prio])
        c.prove('publish:post/returns-normally', out.raised is None, tags=('C06', 'C08'))
        if out.raised is not None:
            return
        for k in ('fifo', 'lifo'):
            q = c.hget(self, k + '_fabric_queue')
            puts = c.pyghost.get(('pq_puts', q.sexpr()), [])
            c.prove('publish:post/one-publication-queued-for-%s-delivery' % k, len(puts) == 1, tags=('C06',))
            if len(puts) == 1:
                c.prove('publish:post/%s-publication-carries-event-and-priority' % k,
                        z3.And(c.hget(puts[0], 'event') == e.e,
                               c.hget(puts[0], 'priority') == (prio.e if prio is not None else 1000)),
                        tags=('C06', 'C08'))
        c.cover('publish:cover')
    return Target('fabric.publish', run, [AF + 'publish', 'activeobject.FabricEvent.__init__'])


# ------------------------------------------------------------------ C08: the comparator orders publications
def t_fabric_event_order():
    def run(it):
        c = it.c
        cls = __import__('pyvc.sym', fromlist=['SClass']).SClass('FabricEvent')
        p1, p2 = SInt(c.fresh('prio_a', z3.IntSort())), SInt(c.fresh('prio_b', z3.IntSort()))
        e1, e2 = symbolic_event(it, 'ea'), symbolic_event(it, 'eb')
        a = B.construct(it, cls, [e1, p1], {}, None)      # published first
        b = B.construct(it, cls, [e2, p2], {}, None)      # published second
        lt_ab = run_body(it, method(it, a, '__lt__'), [b])
        lt_ba = run_body(it, method(it, b, '__lt__'), [a])
        ok = lt_ab.raised is None and lt_ba.raised is None
        c.prove('FabricEvent:order/comparable', ok, tags=('C08',))
        if not ok:
            return
        ab, ba = c.to_bool(lt_ab.value), c.to_bool(lt_ba.value)
        c.prove('FabricEvent:order/total-on-distinct-publications', z3.Or(ab, ba), tags=('C08',))
        c.prove('FabricEvent:order/earlier-first-unless-lower-priority-number', ab == (p1.e <= p2.e), tags=('C08',))
        c.prove('FabricEvent:order/later-first-only-with-smaller-priority-number', ba == (p2.e < p1.e), tags=('C08',))
    return Target('FabricEvent.order', run, ['activeobject.FabricEvent.__init__', 'activeobject.FabricEvent.__lt__'])


def t_fabric_subscribed():
    """subscribed(sig, kind[, queue]): somebody registered under that name / this very queue registered."""
    def run(it):
        c = it.c
        self = make_fabric(it)
        sig = symbolic_event(it)
        name = sval(c.hget(sig, 'signal_name'))
        lifo = c.choose(2, 'kind') == 1
        kind = 'lifo' if lifo else 'fifo'
        withq = c.choose(2, 'queue-given') == 1
        queue = c.fresh_ref('client_queue', 'subq', distinct=False)
        c.assume(queue.e != NONE)
        d = c.hget(self, kind + '_subscriptions')
        has, mp = c.hget(d, '$has'), c.hget(d, '$map')
        lst = z3.Select(mp, name)
        items, n = F.list_view(it, lst)
        a, b = z3.Consts('a!id b!id', Ref)
        c.assume(z3.ForAll([a, b], z3.Implies(B.id_of(a) == B.id_of(b), a == b),
                           patterns=[z3.MultiPattern(B.id_of(a), B.id_of(b))]))
        args = [sig, kind] + ([queue] if withq else [])
        out = framed(it, 'subscribed:frame', [], lambda: run_body(it, method(it, self, 'subscribed'), args))
        c.prove('fabric.subscribed:post/returns-normally', out.raised is None, tags=('C07', 'C06'))
        if out.raised is not None:
            return
        want = z3.Select(has, name)
        if withq:
            want = z3.And(want, F.member(items, n, queue.e))
        c.prove('fabric.subscribed:post/%s' % ('this-queue-registered' if withq else 'somebody-registered'),
                c.to_bool(out.value) == want, tags=('C07', 'C06'))
    return Target('fabric.subscribed', run, [AF + 'subscribed'])
