"""C16 - pending-event queues stay bounded, never block, and keep lifo posts."""
import z3

from pyvc.sym import SInt, SBool, SRef, Ref, NONE
from pyvc.verify import Target, method, run_body, framed
from pyvc import builtins as B
from contracts.common import (make_locking_deque, view, is_fifo_put, is_lifo_put, is_tail, same_seq, class_const,
                              overflow_keeps_order)
from . import queue_targets as Q

LEVEL = 'proof'
TAGS = ('C16',)
TRUSTED = ['collections.deque contract (DESIGN 5.4)', 'queue.Queue contract: put blocks when full (a failed obligation), '
           'get_nowait raises Empty when empty, task_done raises ValueError when nothing is unfinished']
ASSUMPTIONS = [
    'each LockingDeque operation runs without interference (statement-level races with the consumer are out of reach)',
    'no zero-capacity deque is created',
    'the wake-up token queue of a LockingDeque is the queue other threads fill (world.shared_put_owners): a put that may '
    'wait, inside LockingDeque, must not rest on an earlier full()/qsize() reading (rely-style obligation, generated only '
    'when such a put exists; the unmodified code has none)',
]
EXPLANATION = ('Representation invariant of LockingDeque (|deque| <= M, 0 <= tokens <= M) and the property\'s sentences as '
               'postconditions of append/appendleft/pop/popleft/clear/len/qsize, for every content and token count; '
               'every Queue.put site carries a never-blocks obligation; repair loops have the variant |deque|-tokens.')
MIN_OBLIGATIONS = 40


def ld_state(it, balanced=False):
    c = it.c
    ld = make_locking_deque(it, balanced=balanced)
    d, q = c.read(ld, 'deque'), c.read(ld, 'locking_queue')
    return ld, d, q


def ri(it, d, q):
    c = it.c
    n, T, M = c.hget(d, '$len'), c.hget(q, 'qsize'), c.hget(q, 'maxsize')
    return z3.And(n >= 0, n <= c.hget(d, '$maxlen'), T >= 0, T <= M, c.hget(d, '$maxlen') == M)


def t_ld_put(kind):
    mname = 'append' if kind == 'fifo' else 'appendleft'
    pred = is_fifo_put if kind == 'fifo' else is_lifo_put

    def run(it):
        c = it.c
        ld, d, q = ld_state(it)
        x = c.fresh_ref('item', 'Event')
        D0, T0 = view(it, d), c.hget(q, 'qsize')
        M = c.hget(q, 'maxsize')
        mods = [(d, '$items'), (d, '$len'), (q, 'qsize'), (q, 'unfinished')]
        out = framed(it, '%s:frame' % mname, mods, lambda: run_body(it, method(it, ld, mname), [x]))
        c.prove('LockingDeque.%s:post/returns-normally' % mname, out.raised is None)
        if out.raised is not None:
            return
        D1, T1 = view(it, d), c.hget(q, 'qsize')
        c.prove('LockingDeque.%s:post/representation-invariant' % mname, ri(it, d, q))
        pos = D1.at(D1.len - 1) if kind == 'fifo' else D1.at(0)
        c.prove('LockingDeque.%s:post/new-at-%s' % (mname, 'back' if kind == 'fifo' else 'front'),
                z3.And(D1.len >= 1, pos == x.e))
        c.prove('LockingDeque.%s:post/exact-when-room' % mname, z3.Implies(D0.len < D0.maxlen, pred(D0, D1, x.e)))
        c.prove('LockingDeque.%s:post/length-when-full' % mname, z3.Implies(D0.len >= D0.maxlen, D1.len == D0.len))
        c.prove('LockingDeque.%s:post/overflow-displaces-one-and-keeps-the-order-of-the-rest' % mname,
                z3.Implies(D0.len >= D0.maxlen, overflow_keeps_order(D0, D1, x.e, kind == 'fifo')), tags=('C16', 'C04'))
        c.prove('LockingDeque.%s:post/token-per-event-when-idle' % mname, z3.Implies(T0 == D0.len, T1 == D1.len))
        T_exp = z3.If(T0 < M, T0 + 1, T0)
        T_exp = z3.If(T_exp < D1.len, D1.len, T_exp)
        c.prove('LockingDeque.%s:post/token-count' % mname, T1 == T_exp)
        c.cover('LockingDeque.%s:cover/post-state' % mname)
    return Target('LockingDeque.%s' % mname, run, ['activeobject.LockingDeque.%s' % mname])


def t_ld_take(mname):
    def run(it):
        c = it.c
        ld, d, q = ld_state(it)
        D0, T0 = view(it, d), c.hget(q, 'qsize')
        out = framed(it, '%s:frame' % mname, [(d, '$items'), (d, '$len')],
                     lambda: run_body(it, method(it, ld, mname), []))
        if c.branch(D0.len > 0, 'nonempty'):
            c.prove('LockingDeque.%s:post/returns-normally' % mname, out.raised is None)
            if out.raised is not None:
                return
            D1 = view(it, d)
            if mname == 'popleft':
                c.prove('LockingDeque.popleft:post/returns-front', c.to_ref(out.value) == D0.at(0))
                c.prove('LockingDeque.popleft:post/rest-is-tail', is_tail(D0, D1))
            else:
                c.prove('LockingDeque.pop:post/returns-back', c.to_ref(out.value) == D0.at(D0.len - 1))
                j = z3.Int('j!pop')
                c.prove('LockingDeque.pop:post/rest-is-init',
                        z3.And(D1.len == D0.len - 1,
                               z3.ForAll([j], z3.Implies(z3.And(0 <= j, j < D1.len), D1.at(j) == D0.at(j)))))
            c.prove('LockingDeque.%s:post/representation-invariant' % mname, ri(it, d, q))
        else:
            c.prove('LockingDeque.%s:post/raises-IndexError-when-empty' % mname, out.raised == 'IndexError')
        c.cover('LockingDeque.%s:cover' % mname)
    return Target('LockingDeque.%s' % mname, run, ['activeobject.LockingDeque.%s' % mname])


def t_ld_clear():
    def run(it):
        c = it.c
        ld, d, q = ld_state(it)
        # a fresh object has nothing unfinished; in general unfinished >= 0 is all that is known
        c.assume(c.hget(q, 'unfinished') >= 0)
        U0, T0 = c.hget(q, 'unfinished'), c.hget(q, 'qsize')
        mods = [(d, '$items'), (d, '$len'), (q, 'qsize'), (q, 'unfinished')]
        out = framed(it, 'clear:frame', mods, lambda: run_body(it, method(it, ld, 'clear'), []))
        c.prove('LockingDeque.clear:post/returns-normally', out.raised is None)
        if out.raised is not None:
            return
        c.prove('LockingDeque.clear:post/deque-empty', c.hget(d, '$len') == 0)
        c.prove('LockingDeque.clear:post/no-tokens', c.hget(q, 'qsize') == 0)
        c.prove('LockingDeque.clear:post/only-the-removed-tokens-leave-the-unfinished-count',
                c.hget(q, 'unfinished') == U0 - T0, tags=('C16', 'C04'))
        c.cover('LockingDeque.clear:cover')
    return Target('LockingDeque.clear', run, ['activeobject.LockingDeque.clear'])


def t_ld_sizes():
    def run(it):
        c = it.c
        ld, d, q = ld_state(it)
        for m in ('__len__', 'len'):
            out = framed(it, '%s:frame' % m, [], lambda: run_body(it, method(it, ld, m), []))
            c.prove('LockingDeque.%s:post/reports-deque-length' % m,
                    z3.And(out.raised is None, c.to_int(out.value) == c.hget(d, '$len')) if out.raised is None else False)
        out = framed(it, 'qsize:frame', [], lambda: run_body(it, method(it, ld, 'qsize'), []))
        c.prove('LockingDeque.qsize:post/reports-tokens',
                c.to_int(out.value) == c.hget(q, 'qsize') if out.raised is None else False)
    return Target('LockingDeque.len/qsize', run, ['activeobject.LockingDeque.__len__', 'activeobject.LockingDeque.len',
                                                  'activeobject.LockingDeque.qsize'])


def t_ld_init():
    def run(it):
        c = it.c
        ld = c.fresh_ref('ld', 'LockingDeque')
        out = run_body(it, method(it, ld, '__init__'), [])
        c.prove('LockingDeque.__init__:post/returns-normally', out.raised is None)
        if out.raised is not None:
            return
        d, q = c.read(ld, 'deque'), c.read(ld, 'locking_queue')
        qsz = class_const(it, 'HsmWithQueues', 'QUEUE_SIZE')
        c.prove('LockingDeque.__init__:post/bounded-deque', z3.And(c.hget(d, '$maxlen') == qsz, c.hget(d, '$len') == 0))
        c.prove('LockingDeque.__init__:post/bounded-token-queue',
                z3.And(c.hget(q, 'maxsize') == qsz, c.hget(q, 'qsize') == 0, qsz >= 1))
        c.prove('LockingDeque.__init__:post/distinct-parts', d.e != q.e)
    return Target('LockingDeque.__init__', run, ['activeobject.LockingDeque.__init__'])


def t_chart_init(host):
    def run(it):
        c = it.c
        self = c.fresh_ref('self', host)
        n0 = len(c.live_refs)
        out = run_body(it, method(it, self, '__init__'), [])
        c.prove('%s.__init__:post/returns-normally' % host, out.raised is None, tags=('C14', 'C15', 'C16'))
        if out.raised is not None:
            return
        fresh = c.live_refs[n0:]
        for f in ('queue', 'defer_queue'):
            v = z3.simplify(c.hget(self, f))
            c.prove('%s.__init__:post/%s-belongs-to-this-chart-alone' % (host, f),
                    z3.BoolVal(any(v.eq(fr) for fr in fresh)), tags=('C14', 'C15', 'C16'))
        qsz = class_const(it, host, 'QUEUE_SIZE')
        dq = c.read(self, 'defer_queue')
        c.prove('%s.__init__:post/defer-queue-bounded' % host,
                z3.And(c.hget(dq, '$maxlen') == qsz, c.hget(dq, '$len') == 0, qsz >= 1))
        q = c.read(self, 'queue')
        if host == 'HsmWithQueues':
            c.prove('%s.__init__:post/queue-bounded' % host, z3.And(c.hget(q, '$maxlen') == qsz, c.hget(q, '$len') == 0))
            c.prove('%s.__init__:post/queues-distinct' % host, q.e != dq.e)
        else:
            c.prove('%s.__init__:post/queue-is-the-locking-deque' % host, q.e == c.hget(self, 'locking_deque'))
    return Target('%s.__init__' % host, run,
                  ['hsm.HsmWithQueues.__init__', 'hsm.InstrumentedHsmEventProcessor.__init__',
                   'hsm.HsmEventProcessor.__init__', 'hsm.InstrumentedHsmEventProcessor.init_rtc'] +
                  (['activeobject.ActiveObject.__init__'] if host == 'ActiveObject' else []))


def t_chart_init_subclass():
    """A subclass may declare its own capacity (class attribute QUEUE_SIZE): the chart's queues are bounded by THAT."""
    def run(it):
        c = it.c
        cap = c.fresh('QUEUE_SIZE_of_the_subclass', z3.IntSort())
        c.assume(cap >= 1)
        it.w.subclass_consts = {('HsmWithQueues', 'QUEUE_SIZE'): SInt(cap)}
        try:
            self = c.fresh_ref('self', 'HsmWithQueues')
            out = run_body(it, method(it, self, '__init__'), [])
        finally:
            it.w.subclass_consts = {}
        c.prove('HsmWithQueues.__init__[subclass]:post/returns-normally', out.raised is None, tags=('C16',))
        if out.raised is not None:
            return
        for f in ('queue', 'defer_queue'):
            d = c.read(self, f)
            c.prove('HsmWithQueues.__init__[subclass]:post/%s-bounded-by-the-capacity-its-class-declares' % f,
                    c.hget(d, '$maxlen') == cap, tags=('C16',))
    return Target('HsmWithQueues.__init__[subclass with its own QUEUE_SIZE]', run, ['hsm.HsmWithQueues.__init__'])


def t_ao_init_subclass():
    """An active object of a subclass with its own QUEUE_SIZE: every pending event can own a wake-up token (the
    wake-up swallows queue.Full on exactly that ground) and the container tracking the timed sources holds as many
    records as __post_event admits (its admission test reads self.__class__.QUEUE_SIZE), so no record is displaced."""
    def run(it):
        c = it.c
        cap = c.fresh('QUEUE_SIZE_of_the_subclass', z3.IntSort())
        c.assume(cap >= 1)
        it.w.subclass_consts = {('HsmWithQueues', 'QUEUE_SIZE'): SInt(cap), ('ActiveObject', 'QUEUE_SIZE'): SInt(cap)}
        try:
            self = c.fresh_ref('self', 'ActiveObject')
            out = run_body(it, method(it, self, '__init__'), [])
        finally:
            it.w.subclass_consts = {}
        c.prove('ActiveObject.__init__[subclass]:post/returns-normally', out.raised is None, tags=('C04', 'C11', 'C16'))
        if out.raised is not None:
            return
        ld = c.read(self, 'locking_deque')
        d, q = c.read(ld, 'deque'), c.read(ld, 'locking_queue')
        c.prove('ActiveObject.__init__[subclass]:post/a-wake-up-token-for-every-event-the-queue-can-hold',
                z3.And(c.hget(d, '$maxlen') >= 1, c.hget(d, '$maxlen') <= c.hget(q, 'maxsize')), tags=('C04', 'C16'))
        c.prove('ActiveObject.__init__[subclass]:post/queue-is-the-locking-deque',
                c.hget(self, 'queue') == ld.e, tags=('C04', 'C16'))
        pe = c.read(self, 'posted_events_queue')
        c.prove('ActiveObject.__init__[subclass]:post/tracking-container-holds-every-source-the-admission-test-lets-in',
                z3.And(c.hget(pe, '$maxlen') >= cap, c.hget(pe, '$len') == 0), tags=('C11', 'C31', 'C12'))
    return Target('ActiveObject.__init__[subclass with its own QUEUE_SIZE]', run,
                  ['activeobject.ActiveObject.__init__', 'activeobject.LockingDeque.__init__', 'hsm.HsmWithQueues.__init__'])


def build(src, tier):
    w = Q.world_for(src, tier)
    ts = [t_ld_init(), t_ld_put('fifo'), t_ld_put('lifo'), t_ld_take('popleft'), t_ld_take('pop'), t_ld_clear(),
          t_ld_sizes(), t_chart_init('HsmWithQueues'), t_chart_init_subclass(), t_ao_init_subclass()]
    for host in Q.HOSTS:
        ts += [Q.t_post(host, 'fifo', ('C16',)), Q.t_post(host, 'lifo', ('C16',))]
    return [(w, ts)]
