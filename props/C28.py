"""C28 - every statement using a thread-safe attribute releases its lock."""
import ast
import time

from . import tsa_targets as T

LEVEL = 'proof'
TAGS = ('C28', 'lock')
TRUSTED = ['re._parser\'s tree means what re executes (witnesses are replayed through the real re)',
           'statement shapes of Python: read = __get__; assignment = __set__; augmented assignment = __get__, __set__',
           'inspect.getframeinfo(...).code_context[0] is the source line of the statement (single-line statements)',
           'characters outside the Basic Multilingual Plane are represented by three samples']
ASSUMPTIONS = ['statements are written on one source line (the mechanism reads one line; multi-line statements are outside '
               'the grammar)', 'the attribute names tried are x, count_1, attr (identifiers are treated literally by the '
               'classifier, other identifiers in the line are arbitrary)']
EXPLANATION = ('Two halves.  (1) From the symbolically executed __get__/__set__: the hold-count after __get__ is 1 exactly '
               'for lines the classifier calls non-atomic, __set__ always ends with the count it found minus that hold, '
               'the lock-request form returns (value, lock) with the lock free.  (2) A grammar of statement forms, each a '
               'regular language of source lines: read forms must be disjoint from the classifier\'s language, augmented '
               'assignments to the attribute must be included in it, the lock-request form must be recognised; decided '
               'exactly, for strings of every length, by product automata built from the regex literal read from the real '
               'source.')
MIN_OBLIGATIONS = 40
NAMES = ['x', 'count_1', 'attr']
AUG = ['+', '-', '*', '/', '//', '%', '@', '&', '|', '^', '>>', '<<', '**']
CMP = ['==', '!=', '<', '<=', '>', '>=']
ID = r'[A-Za-z_][A-Za-z0-9_]*'
OBJ = ID + r'(\.' + ID + r')*'
IND = r'[ \t]*'
WS = r'[ ]*'
NUM = r'[0-9]+'


def esc(op):
    import re
    return re.escape(op)


def forms(name):
    """(form id, kind, regex of whole source lines).  kind: 'read' (lock must be free afterwards, so the line must not
    be classified non-atomic), 'aug' (must be classified non-atomic), 'lockreq'."""
    A = OBJ + r'\.' + name
    out = [
        ('read/assignment', 'read', IND + ID + WS + '=' + WS + A),
        ('read/call-argument', 'read', IND + ID + r'\(' + A + r'\)'),
        ('read/subscript-store', 'read', IND + ID + r'\[' + ID + r'\]' + WS + '=' + WS + A),
        ('read/arithmetic', 'read', IND + ID + WS + '=' + WS + A + WS + r'[-+*/]' + WS + NUM),
        ('read/two-reads', 'read', IND + ID + WS + '=' + WS + A + WS + r'\+' + WS + A),
        ('read/keyword-argument', 'read', IND + ID + r'\(' + ID + '=' + A + r'\)'),
        ('write/plain-assignment', 'read', IND + A + WS + '=' + WS + NUM),
    ]
    for kw in ('if', 'while', 'assert', 'return'):
        for op in CMP:
            out.append(('read/%s-comparison %s' % (kw, op), 'read',
                        IND + kw + ' ' + A + WS + esc(op) + WS + NUM + (':' if kw in ('if', 'while') else '')))
    for op in AUG:
        out.append(('read/augmented-assignment-to-another-variable %s=' % op, 'read',
                    IND + ID + WS + esc(op) + '=' + WS + A))
        out.append(('write/augmented-assignment-to-the-attribute %s=' % op, 'aug', IND + A + WS + esc(op) + '=' + WS + NUM))
        # the right-hand side reads the same-named attribute (of the same or another object): still one statement that
        # must be classified non-atomic; what the two reads then do to the lock is the `obj.attr op= other.attr` target
        out.append(('write/augmented-assignment-whose-right-side-reads-the-attribute %s=' % op, 'aug',
                    IND + A + WS + esc(op) + '=' + WS + A))
    out.append(('read/operator-inside-a-trailing-comment', 'read', IND + ID + WS + '=' + WS + A + r'[ ]+#[ -~]*'))
    out.append(('read/operator-inside-a-string-literal', 'read', IND + ID + r'\("[ -!#-~]*", ' + A + r'\)'))
    out.append(('lock-request', 'lockreq', IND + r'_, _lock' + r'[ ]+' + '=' + WS + A))
    return out


def _pattern_of(src, fname, name):
    """The pattern handed to re.search in ThreadSafeAttribute.<fname>, with self._name := name."""
    fi = src.funcs['thread_safe_attributes.ThreadSafeAttribute.' + fname]
    pats = []
    for n in ast.walk(fi.node):
        if isinstance(n, ast.Call) and isinstance(n.func, ast.Attribute) and n.func.attr == 'search' \
                and isinstance(n.func.value, ast.Name) and n.func.value.id == 're':
            pats.append(_eval_str(n.args[0], name))
    return pats


def _eval_str(e, name):
    import re
    if isinstance(e, ast.Constant) and isinstance(e.value, str):
        return e.value
    if isinstance(e, ast.Call) and isinstance(e.func, ast.Attribute) and e.func.attr == 'format':
        base = _eval_str(e.func.value, name)
        args = []
        for a in e.args:
            if isinstance(a, ast.Call) and isinstance(a.func, ast.Attribute) and a.func.attr == 'escape':
                args.append(re.escape(_eval_str(a.args[0], name)))
            else:
                args.append(_eval_str(a, name))
        return base.format(*args)
    if isinstance(e, ast.Attribute) and isinstance(e.value, ast.Name) and e.value.id == 'self' and e.attr == '_name':
        return name
    if isinstance(e, ast.BinOp) and isinstance(e.op, ast.Add):
        return _eval_str(e.left, name) + _eval_str(e.right, name)
    raise ValueError('pattern expression not understood: %s' % ast.dump(e)[:120])


def build(src, tier):
    return [(T.world_for(src, tier), [T.t_get(), T.t_set_plain(), T.t_augassign(), T.t_augassign_rhs_read(), T.t_lock_request()])]


def extra(src, tier, seed):
    from pyvc import regular as R
    out = []
    agg = {}
    for name in NAMES:
        try:
            pats = _pattern_of(src, 'is_not_atomic', name)
            if len(pats) != 1:
                raise ValueError('expected one re.search in is_not_atomic, found %d' % len(pats))
            cls = R.compile_pattern(pats[0], 'search')
            lpats = _pattern_of(src, 'request_for_lock', name)
            lock = R.compile_pattern(lpats[0], 'search') if lpats else None
            lit = R.compile_pattern(r'_lock', 'search')
        except Exception as ex:
            return [{'name': 'forms/classifier-pattern-readable', 'status': 'undecided', 'backend': 'automata',
                     'seconds': 0, 'detail': repr(ex)}]
        for fid, kind, rx in forms(name):
            t0 = time.time()
            try:
                F = R.compile_pattern(rx, 'full')
                if kind == 'read':
                    ok, w = R.disjoint(F, cls)
                    what = 'classified non-atomic: the lock is kept after the statement'
                elif kind == 'aug':
                    ok, w = R.included(F, cls)
                    what = 'not classified non-atomic: read and write are two critical sections'
                else:
                    ok1, w1 = R.included(F, lock) if lock is not None else (False, '')
                    ok2, w2 = R.included(F, lit)
                    ok3, w3 = R.disjoint(F, cls)
                    ok, w = (ok1 and ok2 and ok3), (w1 if not ok1 else (w2 if not ok2 else w3))
                    what = 'lock-request form not recognised / lock kept'
                st = 'discharged' if ok else 'refuted'
            except R.Unsupported as ex:
                ok, w, st, what = False, None, 'undecided', 'regex construct outside the automata back end: %s' % ex
            a = agg.setdefault(fid, {'name': 'forms/' + fid, 'status': 'discharged', 'backend': 'automata', 'seconds': 0.0,
                                     'detail': '', 'witnesses': []})
            a['seconds'] = round(a['seconds'] + time.time() - t0, 3)
            if st != 'discharged':
                a['status'] = st if a['status'] == 'discharged' else a['status']
                a['detail'] = '%s; witness line %r (attribute %s), pattern %r' % (what, w, name, pats[0])
                a['witnesses'].append(w)
    return list(agg.values())
