"""Targets for the instrumentation family (C18, C19, C20, C21, C23 and the frame half of C22)."""
import z3

from pyvc.sym import SInt, SBool, SRef, SFunc, SClass, Ref, StrV, NONE, IntArr, LoopSpec, sval, name_of
from pyvc.verify import Target, FnContract, method, run_body, framed, module_func
from pyvc import builtins as B
from pyvc.builtins import TOP
from contracts import base_world
from contracts.common import make_chart, view, symbolic_event, class_const, INSTRUMENTED_HOSTS, QUEUED_HOSTS
from .queue_targets import flags, spy_mods

HOSTS = ('HsmEventProcessor', 'InstrumentedHsmEventProcessor', 'HsmWithQueues', 'ActiveObject')
SIGKINDS = ('ENTRY_SIGNAL', 'EXIT_SIGNAL', 'INIT_SIGNAL', 'SEARCH_FOR_SUPER_SIGNAL', 'EMPTY_SIGNAL',
            'REFLECTION_SIGNAL', 'user')
# the processor's own signals above the search signal (an active object answers them in `top`; a decorated state that
# is offered one on the way out must log it as an internal invocation): only the hosts that can meet them
META_KINDS = ('STOP_FABRIC_SIGNAL', 'STOP_ACTIVE_OBJECT_SIGNAL', 'SUBSCRIBE_META_SIGNAL', 'PUBLISH_META_SIGNAL')
raw_of = z3.Function('undecorated', Ref, Ref)


def spy_on_fn(it, raw):
    """The closure spy_on(fn) returns -- real source -- for an abstract undecorated state function `raw`."""
    fi = it.src.funcs.get('hsm.spy_on._spy_on')
    if fi is None:
        from pyvc.sym import Unsupported
        raise Unsupported('hsm.spy_on._spy_on no longer exists')
    return SFunc(fi, [{'fn': SRef(raw, 'rawstate')}], None, None)


def t_spy_on(host, kind):
    def run(it):
        c = it.c
        chart = make_chart(it, host)
        if host in INSTRUMENTED_HOSTS:
            c.hset(chart, 'instrumented', c.fresh('instrumented', z3.BoolSort()))
        if host in QUEUED_HOSTS:
            flags(it, chart)
        raw = c.fresh('raw_state_function', Ref)
        c.assume(raw != NONE)
        if kind == 'user':
            e = symbolic_event(it)
        else:
            e = c.fresh_ref('e', 'Event')
            c.hset(e, 'signal', z3.IntVal(it.w.signals[kind]))
            c.hset(e, 'signal_name', it.w.strobj(kind))
        calls = []
        status = c.fresh('status', z3.IntSort())
        c.assume(z3.And(status >= 1, status <= 13))

        def rawcall(it_, fv, args, kwargs):
            cc = it_.c
            calls.append((fv, args))
            # while the user function runs the chart names this state ...
            cc.prove('_spy_on[%s]:call-pre/state_name-and-state_fn-name-this-state' % kind,
                     z3.And(cc.hget(chart, 'state_name') == name_of(raw), cc.hget(chart, 'state_fn') == raw), tags=('C23',))
            # ... but user code may call is_in / child_state / another decorated state function, all of which rewrite
            # the two names (and spied_on): whatever it leaves there is not this wrapper's to rely on
            left_name = cc.fresh_ref('state_name_left_by_user_code', 'str', distinct=False)
            left_fn = cc.fresh('state_fn_left_by_user_code', Ref)
            cc.hset(chart, 'state_name', left_name.e)
            cc.hset(chart, 'state_fn', left_fn)
            cc.pyghost['names_left'] = (left_name.e, left_fn)
            # user code may leave its own markers (posts, scribbles) in the step log; it never shortens it
            if host in INSTRUMENTED_HOSTS:
                spy = cc.read(cc.read(chart, 'rtc'), 'spy')
                n0, it0 = B.seq_len(it_, spy), B.seq_items(it_, spy)
                n1, it1 = cc.fresh('spy_len_after_handler', z3.IntSort()), cc.fresh('spy_after_handler', IntArr)
                i = z3.Int('i!h')
                cc.assume(z3.And(n1 >= n0, n1 < cc.hget(spy, '$maxlen') - 1))
                cc.assume(z3.ForAll([i], z3.Implies(z3.And(0 <= i, i < n0), z3.Select(it1, i) == z3.Select(it0, i)),
                                    patterns=[z3.Select(it1, i)]))
                cc.heap['$items'] = z3.Store(cc.harr('$items'), spy.e, it1)
                cc.heap['$len'] = z3.Store(cc.harr('$len'), spy.e, n1)
                cc.pyghost['spy_after_handler'] = (it1, n1)
            return SInt(status)
        it.w.hooks['call_rawstate'] = rawcall
        mods = [(chart, 'spied_on'), (chart, 'state_name'), (chart, 'state_fn')]
        spy0 = tup0 = None
        if host in INSTRUMENTED_HOSTS:
            rtc = c.read(chart, 'rtc')
            spy, tup = c.read(rtc, 'spy'), c.read(rtc, 'tuples')
            c.assume(z3.And(B.seq_len(it, spy) < c.hget(spy, '$maxlen') - 2, B.seq_len(it, tup) < c.hget(tup, '$maxlen')))
            spy0, tup0 = view(it, spy), view(it, tup)
            mods += [(spy, '$items'), (spy, '$len'), (tup, '$items'), (tup, '$len')]
        out = framed(it, '_spy_on:frame', mods, lambda: run_body(it, spy_on_fn(it, raw), [chart, e]))
        tag18 = ('C18',)
        c.prove('_spy_on[%s]:post/returns-normally' % kind, out.raised is None, tags=('C18', 'C19', 'C23'))
        if out.raised is not None:
            return
        instr = c.hget(chart, 'instrumented') if host in INSTRUMENTED_HOSTS else z3.BoolVal(False)
        answers_itself = z3.And(instr, z3.BoolVal(kind == 'REFLECTION_SIGNAL' and host in INSTRUMENTED_HOSTS))
        if kind == 'REFLECTION_SIGNAL' and host in INSTRUMENTED_HOSTS:
            c.prove('_spy_on[%s]:transparent/reflection-answered-without-the-user-function' % kind,
                    z3.If(instr, z3.BoolVal(len(calls) == 0), z3.BoolVal(len(calls) == 1)), tags=tag18)
        else:
            c.prove('_spy_on[%s]:transparent/user-function-called-exactly-once' % kind, len(calls) == 1, tags=tag18)
        if len(calls) == 1:
            fv, args = calls[0]
            c.prove('_spy_on[%s]:transparent/same-arguments' % kind,
                    z3.BoolVal(len(args) == 2 and c.to_ref(args[0]).eq(chart.e) and c.to_ref(args[1]).eq(e.e)), tags=tag18)
            c.prove('_spy_on[%s]:transparent/result-returned-unchanged' % kind, c.to_int(out.value) == status
                    if not isinstance(out.value, (SRef, str)) else z3.BoolVal(False), tags=tag18)
        else:
            c.prove('_spy_on[%s]:reflection/returns-the-state-name' % kind,
                    c.to_ref(out.value) == name_of(raw) if isinstance(out.value, (SRef, str)) else z3.BoolVal(False),
                    tags=('C18', 'C23'))
        if len(calls) == 1:
            ln, lf = c.pyghost['names_left']
            c.prove('_spy_on[%s]:post/names-are-what-the-user-function-left' % kind,
                    z3.And(c.hget(chart, 'state_name') == ln, c.hget(chart, 'state_fn') == lf), tags=('C23',))
        else:
            c.prove('_spy_on[%s]:post/state_name-and-state_fn-name-this-state' % kind,
                    z3.And(c.hget(chart, 'state_name') == name_of(raw), c.hget(chart, 'state_fn') == raw), tags=('C23',))
        if host in INSTRUMENTED_HOSTS and len(calls) == 1:
            spy1, tup1 = view(it, spy), view(it, tup)
            itA, nA = c.pyghost['spy_after_handler']
            nm, sg = sval(name_of(raw)), sval(c.hget(e, 'signal_name'))
            line1, line2 = B.fmt_text(c, '{}:{}', sg, nm), B.fmt_text(c, '{}:{}:HOOK', sg, nm)
            inner = kind != 'user'
            hook = z3.And(status == it.w.statuses['HANDLED'], z3.BoolVal(not inner))
            c.prove('_spy_on[%s]:spy/invocation-line-first' % kind,
                    z3.Implies(instr, sval(spy1.at(spy0.len)) == line1),
                    tags=('C19',))
            c.prove('_spy_on[%s]:spy/earlier-lines-kept' % kind,
                    z3.ForAll([z3.Int('i!p')], z3.Implies(z3.And(0 <= z3.Int('i!p'), z3.Int('i!p') < spy0.len),
                                                         spy1.at(z3.Int('i!p')) == spy0.at(z3.Int('i!p')))), tags=('C19',))
            c.prove('_spy_on[%s]:spy/hook-line-exactly-when-handled-internally' % kind,
                    z3.Implies(instr, spy1.len == nA + z3.If(hook, 1, 0)), tags=('C19',))
            if not inner:
                c.prove('_spy_on[%s]:spy/hook-line-names-the-event-and-this-state' % kind,
                        z3.Implies(z3.And(instr, hook), sval(spy1.at(nA)) == line2), tags=('C19',))
            c.prove('_spy_on[%s]:spy/one-tuple-per-invocation' % kind,
                    z3.Implies(instr, tup1.len == tup0.len + 1), tags=('C19', 'C20'))
            t = tup1.at(tup0.len)
            c.prove('_spy_on[%s]:spy/tuple-describes-the-invocation' % kind, z3.Implies(instr, z3.And(
                sval(c.hget(t, 'SpyTuple.signal')) == sg, sval(c.hget(t, 'SpyTuple.state')) == nm,
                c.hget(t, 'SpyTuple.hook') == z3.Or(hook, z3.BoolVal(inner)),
                c.hget(t, 'SpyTuple.internal') == (it.w.strobj('<True>') if inner else it.w.strobj('<False>')),
                z3.Not(c.hget(t, 'SpyTuple.recall')))), tags=('C19', 'C20'))
            c.prove('_spy_on[%s]:spy/nothing-logged-when-not-instrumented' % kind,
                    z3.Implies(z3.Not(instr), z3.And(spy1.len == nA, tup1.len == tup0.len)), tags=('C19', 'C18'))
        c.cover('_spy_on[%s]:cover' % kind)
    return Target('_spy_on@%s[%s]' % (host, kind), run, ['hsm.spy_on', 'hsm.spy_on._spy_on', 'hsm.spy_tuple'])


# =====================================================================================================
# wrappers around the core: dispatch / start_at of the instrumented hosts (C18, C19 framing, C20, C23)
# =====================================================================================================
_i = z3.Int('i!it')
TRUE_OBJ = lambda it: it.w.strobj('<True>')
FALSE_OBJ = lambda it: it.w.strobj('<False>')


def qualifying(it, t):
    """a tuple that is_signal_hooked looks at: not internal, not a recall marker"""
    c = it.c
    return z3.And(c.hget(t, 'SpyTuple.internal') == FALSE_OBJ(it), z3.Not(c.hget(t, 'SpyTuple.recall')))


def extend_deque(it, d, name):
    """arbitrary extension (prefix kept, capacity not reached): what handler invocations append during a step"""
    c = it.c
    n0, it0 = B.seq_len(it, d), B.seq_items(it, d)
    n1, it1 = c.fresh(name + '_len', z3.IntSort()), c.fresh(name + '_items', IntArr)
    c.assume(z3.And(n1 >= n0, n1 < c.hget(d, '$maxlen')))
    c.assume(z3.ForAll([_i], z3.Implies(z3.And(0 <= _i, _i < n0), z3.Select(it1, _i) == z3.Select(it0, _i)),
                       patterns=[z3.Select(it1, _i)]))
    c.hset(d, '$items', it1)
    c.hset(d, '$len', n1)
    return n0, n1, it1


def core_dispatch_contract(it, fn, args, kwargs):
    """HsmEventProcessor.dispatch as its wrappers see it (what C01/C02/C23 prove of it, plus -- for spy-decorated
    states on an instrumented host -- the summary of what the handler invocations of the step logged, which follows
    from the _spy_on contract, the offer protocol of C02 and the core's frame: the core itself never writes a log)."""
    c, g = it.c, it.c.ghost
    self = args[0]
    e = args[1] if len(args) > 1 else kwargs['e']
    c.pyghost.setdefault('core_calls', []).append(('dispatch', c.to_ref(e), dict(c.heap)))
    inner_event = bool(c.pyghost.get('event_is_inner'))
    if inner_event:
        outcome = ('handled', 'ignored')[c.choose(2, 'meta-step-outcome')]      # top answers it or nobody does
    else:
        k = c.choose(3, 'step-outcome')
        outcome = ('tran', 'handled', 'ignored')[k]
    c.pyghost['outcome'] = outcome
    st, tm = c.read(self, 'state'), c.read(self, 'temp')
    cur = c.hget(st, 'fun')
    new = cur
    if outcome == 'tran':
        new = c.fresh('new_state', Ref)
        c.assume(z3.And(new != NONE, new != TOP))
    c.pyghost['new_state'] = new
    c.hset(st, 'fun', new)
    c.hset(tm, 'fun', new)
    c.hset(c.read(self, 'event'), 'ignored', z3.BoolVal(outcome == 'ignored'))
    c.hset(self, 'state_name', name_of(new))
    c.hset(self, 'state_fn', new)
    if self.pytype in INSTRUMENTED_HOSTS:
        instr = c.hget(self, 'instrumented')
        if c.branch(instr, 'core-on-instrumented'):
            rtc = c.read(self, 'rtc')
            spy, tup = c.read(rtc, 'spy'), c.read(rtc, 'tuples')
            extend_deque(it, spy, 'spy_after_step')
            n0, n1, T = extend_deque(it, tup, 'tuples_after_step')
            sg = sval(c.hget(e, 'signal_name'))
            # every tuple the step appended is an internal one or an offer of e; only an offer answered HANDLED is hooked
            c.assume(z3.ForAll([_i], z3.Implies(z3.And(n0 <= _i, _i < n1), z3.Or(
                c.hget(z3.Select(T, _i), 'SpyTuple.internal') == TRUE_OBJ(it),
                z3.And(qualifying(it, z3.Select(T, _i)), sval(c.hget(z3.Select(T, _i), 'SpyTuple.signal')) == sg,
                       c.hget(z3.Select(T, _i), 'SpyTuple.signal') != NONE,
                       c.hget(z3.Select(T, _i), 'SpyTuple.datetime') != NONE,
                       z3.Implies(c.hget(z3.Select(T, _i), 'SpyTuple.hook'), z3.BoolVal(outcome == 'handled'))))),
                patterns=[z3.Select(T, _i)]))
            if inner_event:
                # every invocation carried one of the processor's own signals: all tuples are internal ones
                c.assume(z3.ForAll([_i], z3.Implies(z3.And(n0 <= _i, _i < n1),
                                                    c.hget(z3.Select(T, _i), 'SpyTuple.internal') == TRUE_OBJ(it)),
                                   patterns=[z3.Select(T, _i)]))
            else:
                w = c.fresh('answering_offer', z3.IntSort())   # the offer that was answered (or the offer to top's child)
                c.assume(z3.And(n0 <= w, w < n1, qualifying(it, z3.Select(T, w)),
                                c.hget(z3.Select(T, w), 'SpyTuple.hook') == z3.BoolVal(outcome == 'handled')))
                c.pyghost['answering_offer'] = w
    return None


def core_start_contract(it, fn, args, kwargs):
    c = it.c
    self, initial = args[0], args[1]
    c.pyghost.setdefault('core_calls', []).append(('start_at', c.to_ref(initial), dict(c.heap)))
    new = c.fresh('rest_state', Ref)
    c.assume(z3.And(new != NONE, new != TOP))
    c.pyghost['new_state'] = new
    c.hset(c.read(self, 'state'), 'fun', new)
    c.hset(c.read(self, 'temp'), 'fun', new)
    c.hset(self, 'state_name', name_of(new))
    c.hset(self, 'state_fn', new)
    if self.pytype in INSTRUMENTED_HOSTS:
        if c.branch(c.hget(self, 'instrumented'), 'core-on-instrumented'):
            rtc = c.read(self, 'rtc')
            extend_deque(it, c.read(rtc, 'spy'), 'spy_after_start')
            extend_deque(it, c.read(rtc, 'tuples'), 'tuples_after_start')
    return None


def hooked_loop_spec():
    """for sr in self.rtc.tuples: first tuple that is not internal and not a recall decides; a hooked one ends the scan"""
    def inv(it, env):
        c = it.c
        k = c.to_int(env['$k1'])
        seq = env['$it1'][1]
        items = B.seq_items(it, seq)
        A = c.fresh('tuples_alias', IntArr)
        c.assumptions.append(A == items)
        hooked = c.to_bool(env['hooked'])
        sn = c.to_ref(env['signal_name'])
        sg = c.pyghost['event_name']
        seen = z3.Exists([_i], z3.And(0 <= _i, _i < k, qualifying(it, z3.Select(A, _i))))
        return [('not-hooked-so-far', z3.Not(hooked)),
                ('examined-offers-not-hooked', z3.ForAll([_i], z3.Implies(
                    z3.And(0 <= _i, _i < k, qualifying(it, z3.Select(A, _i))),
                    z3.Not(c.hget(z3.Select(A, _i), 'SpyTuple.hook'))), patterns=[z3.Select(A, _i)])),
                ('signal-is-the-events', z3.If(seen, z3.And(sn != NONE, sval(sn) == sg), sn == it.w.strobj(''))),
                ('timestamp-of-an-offer', z3.If(seen, c.to_ref(env['dt']) != NONE, c.to_ref(env['dt']) == NONE))]
    def on_exit(it, env):
        # proof step: the answering offer (ghost witness of the core contract) is one of the examined tuples
        c = it.c
        w = c.pyghost.get('answering_offer')
        if w is not None:
            seq = env['$it1'][1]
            k = c.to_int(env['$k1'])
            c.prove('lemma/the-answering-offer-was-examined-or-the-scan-stopped-at-a-hook',
                    z3.Or(c.to_bool(env['hooked']), z3.And(0 <= w, w < k, qualifying(it, z3.Select(B.seq_items(it, seq), w)))),
                    tags=('C20',))
    s = LoopSpec(inv, lambda it, env: [], None, 'is-signal-hooked',
                 locals_kind={'sr': ('ref', 'nt:SpyTuple'), 'signal_name': ('ref', 'str'), 'dt': ('ref', 'datetime')})
    s.on_exit = on_exit
    return s


def instr_world(src, tier, spied=True):
    from contracts import hsm_core as H
    w = base_world(src)
    H.install(w, spied=spied)
    w.contracts['hsm.HsmEventProcessor.dispatch'] = FnContract('core.dispatch', core_dispatch_contract)
    w.contracts['hsm.HsmEventProcessor.start_at'] = FnContract('core.start_at', core_start_contract)
    w.loopspecs[('hsm.InstrumentedHsmEventProcessor.append_to_full_trace.is_signal_hooked', 1)] = hooked_loop_spec()
    w.pytype_overrides[('nt:TraceTuple', 'datetime')] = 'datetime'
    w.pytype_overrides[('nt:SpyTuple', 'datetime')] = 'datetime'
    w.pytype_overrides[('nt:SpyTuple', 'signal')] = 'str'
    return w


def instr_chart(it, host, room=True):
    """room=True: the full spy/trace ring buffers are assumed to have head room for one step (C19/C20 state the
    truncation of a saturated buffer separately); room=False: any fill level, including saturated."""
    from .core_targets import spied_chart
    c = it.c
    self, cur = spied_chart(it, host)
    c.assume(cur != TOP)
    if host in QUEUED_HOSTS:
        ins = c.hget(self, 'instrumented')
        flags(it, self)
        c.hset(self, 'instrumented', ins)
    for holder, f in (('full', 'spy'), ('full', 'trace')):
        d = c.read(c.read(self, holder), f)
        if room:
            c.assume(B.seq_len(it, d) < c.hget(d, '$maxlen') - 300)
    return self, cur


def t_instr_dispatch(host, meta=None):
    """meta: the dispatched event carries one of the processor's own signals (an active object handles
    SUBSCRIBE_META_SIGNAL / PUBLISH_META_SIGNAL in its top state): offered like any event, answered by top
    (handled) -- never a transition, so never a trace record."""
    def run(it):
        c, g = it.c, it.c.ghost
        from contracts import hsm_core as H
        self, cur = instr_chart(it, host)
        H.mon_init(c, cur, NONE, H.SEARCH)
        if meta:
            e = c.fresh_ref('e', 'Event')
            c.hset(e, 'signal', z3.IntVal(it.w.signals[meta]))
            c.hset(e, 'signal_name', it.w.strobj(meta))
            c.pyghost['event_is_inner'] = True
        else:
            e = symbolic_event(it)
        c.pyghost['event_name'] = sval(c.hget(e, 'signal_name'))
        full, rtc = c.read(self, 'full'), c.read(self, 'rtc')
        tr, fs, rs, rt = c.read(full, 'trace'), c.read(full, 'spy'), c.read(rtc, 'spy'), c.read(rtc, 'tuples')
        TR0, FS0 = view(it, tr), view(it, fs)
        instr = c.hget(self, 'instrumented')
        mods = spy_mods(it, self) + [(self, 'spied_on'), (self, 'state_name'), (self, 'state_fn')]
        out = run_body(it, method(it, self, 'dispatch'), [e])
        c.prove('dispatch@%s:transparent/returns-normally' % host, out.raised is None, tags=('C18', 'C20', 'C23'))
        if out.raised is not None:
            return
        calls = [x for x in c.pyghost.get('core_calls', []) if x[0] == 'dispatch']
        c.prove('dispatch@%s:transparent/core-runs-exactly-once' % host, len(calls) == 1, tags=('C18',))
        if len(calls) != 1:
            return
        c.prove('dispatch@%s:transparent/same-event' % host, calls[0][1] == e.e, tags=('C18',))
        new = c.pyghost['new_state']
        outcome = c.pyghost['outcome']
        c.prove('dispatch@%s:post/chart-state-is-what-the-core-left' % host,
                z3.And(c.hget(c.read(self, 'state'), 'fun') == new, c.hget(c.read(self, 'temp'), 'fun') == new),
                tags=('C18', 'idle'))
        c.prove('dispatch@%s:post/state_name-names-the-current-state' % host, c.hget(self, 'state_name') == name_of(new),
                tags=('C23',))
        c.prove('dispatch@%s:post/state_fn-is-the-current-state' % host,
                z3.Or(c.hget(self, 'state_fn') == new, c.hget(self, 'state_fn') == raw_of(new)), tags=('C23',))
        TR1, FS1 = view(it, tr), view(it, fs)
        grows = z3.And(instr, z3.BoolVal(outcome == 'tran'))
        c.prove('dispatch@%s:trace/one-record-exactly-for-a-transition' % host,
                TR1.len == TR0.len + z3.If(grows, 1, 0), tags=('C20',))
        c.prove('dispatch@%s:trace/older-records-kept' % host,
                z3.ForAll([_i], z3.Implies(z3.And(0 <= _i, _i < TR0.len), TR1.at(_i) == TR0.at(_i))), tags=('C20',))
        rec = TR1.at(TR0.len)
        for nm, f in (('previous-state', sval(c.hget(rec, 'TraceTuple.start_state')) == sval(name_of(cur))),
                      ('signal', sval(c.hget(rec, 'TraceTuple.signal')) == sval(c.hget(e, 'signal_name'))),
                      ('new-state', sval(c.hget(rec, 'TraceTuple.end_state')) == sval(name_of(new))),
                      ('has-a-timestamp', c.hget(rec, 'TraceTuple.datetime') != NONE)):
            c.prove('dispatch@%s:trace/record-%s' % (host, nm), z3.Implies(grows, f), tags=('C20',))
        # step framing of the spy: the step log is cleared first, and ends up appended to the full spy
        heap_at_core = calls[0][2]
        RS_at = view(it, rs, heap_at_core)
        c.prove('dispatch@%s:spy/step-log-cleared-before-the-step' % host, z3.Implies(instr, RS_at.len == 0), tags=('C19',))
        RS1 = view(it, rs)
        c.prove('dispatch@%s:spy/full-spy-extended-by-the-step-log' % host, z3.Implies(instr, z3.And(
            FS1.len == FS0.len + RS1.len,
            z3.ForAll([_i], z3.Implies(z3.And(0 <= _i, _i < FS0.len), FS1.at(_i) == FS0.at(_i))),
            z3.ForAll([_i], z3.Implies(z3.And(0 <= _i, _i < RS1.len), FS1.at(FS0.len + _i) == RS1.at(_i))))),
            tags=('C19',))
        c.prove('dispatch@%s:transparent/nothing-logged-when-not-instrumented' % host,
                z3.Implies(z3.Not(instr), z3.And(TR1.len == TR0.len, FS1.len == FS0.len)), tags=('C18', 'C19', 'C20'))
        c.cover('dispatch@%s:cover' % host)
    return Target('dispatch@%s[wrappers]%s' % (host, '[%s]' % meta if meta else ''), run,
                  ['hsm.InstrumentedHsmEventProcessor.dispatch',
                   'hsm.InstrumentedHsmEventProcessor.append_to_full_spy._append_to_full_spy',
                   'hsm.InstrumentedHsmEventProcessor.append_to_full_trace._append_to_full_trace',
                   'hsm.InstrumentedHsmEventProcessor.append_to_full_trace.is_signal_hooked'] +
                  (['hsm.HsmWithQueues.dispatch'] if host in QUEUED_HOSTS else []))


def t_start_body(host):
    """The undecorated body of HsmWithQueues.start_at / ActiveObject.start_at around the step it wraps: what was posted,
    deferred or armed before the chart is started stays where it is (what the start state's own entry / init actions
    post or defer happens inside the wrapped step and is theirs to decide)."""
    path = {'HsmWithQueues': 'hsm.HsmWithQueues.start_at', 'ActiveObject': 'activeobject.ActiveObject.start_at'}[host]

    def run(it):
        c = it.c
        from contracts.common import ACTIVE_HOSTS
        self = make_chart(it, host)
        flags(it, self)
        c.hset(self, 'instrumented', c.fresh('instrumented', z3.BoolSort()))
        inner_calls = []

        def wrapped_step(it_, fn, args, kwargs):
            inner_calls.append(args)
            return None
        # the step that the body wraps: the next start_at up the class hierarchy (verified by start_at@...[wrappers])
        ups = {'HsmWithQueues': ['hsm.InstrumentedHsmEventProcessor.start_at', 'hsm.HsmEventProcessor.start_at'],
               'ActiveObject': ['hsm.HsmWithQueues.start_at']}[host]
        for u in ups:
            it.w.contracts[u] = FnContract(u, wrapped_step)
        if host == 'ActiveObject':
            from .ao_targets import _service_contracts
            _service_contracts(it.w)
            it.w.contracts['activeobject.ActiveObject.__start'] = FnContract('__start', lambda it_, fn, a, k: None)
            c.hset(self, 'name', c.fresh('name0', Ref))
        dq = c.read(self, 'defer_queue')
        pq = c.read(c.read(self, 'queue'), 'deque') if host in ACTIVE_HOSTS else c.read(self, 'queue')
        kept = [('deferred-events-kept', dq, ('C15',)), ('pending-events-kept', pq, ('C14', 'C04'))]
        if host in ACTIVE_HOSTS:
            kept.append(('timed-sources-left-alone', c.read(self, 'posted_events_queue'), ('C10', 'C11')))
        before = [(c.hget(r, '$items'), c.hget(r, '$len')) for _, r, _ in kept]
        S = c.fresh_ref('initial_state', 'state', distinct=False)
        c.assume(z3.And(S.e != NONE, S.e != TOP))
        fi = it.src.funcs.get(path)
        if fi is None:
            from pyvc.sym import Unsupported
            raise Unsupported('%s no longer exists' % path)
        body = SFunc(fi, [], None, host).bind(self)
        out = run_body(it, body, [S], contract_key='(body of) ' + path)
        c.prove('start_at[body]@%s:post/returns-normally' % host, out.raised is None, tags=('C14', 'C15', 'C10'))
        if out.raised is not None:
            return
        c.prove('start_at[body]@%s:post/wraps-one-step' % host, len(inner_calls) == 1, tags=('C14', 'C15', 'C10'))
        for (nm, ref, tg), (items0, len0) in zip(kept, before):
            c.prove('start_at[body]@%s:post/%s' % (host, nm),
                    z3.And(c.hget(ref, '$len') == len0, c.hget(ref, '$items') == items0), tags=tg)
        c.cover('start_at[body]@%s:cover' % host)
    return Target('start_at[body]@%s' % host, run, [path])


def t_instr_start_at(host):
    """start_at of an instrumented host around the core: START marker, one trace record top -> start state."""
    def run(it):
        c, g = it.c, it.c.ghost
        from contracts import hsm_core as H
        self, cur = instr_chart(it, host)
        c.hset(self, 'instrumented', z3.BoolVal(True))          # as __init__ leaves it
        H.mon_init(c, cur, NONE, H.SEARCH)
        full, rtc = c.read(self, 'full'), c.read(self, 'rtc')
        tr, fs, rs, rt = c.read(full, 'trace'), c.read(full, 'spy'), c.read(rtc, 'spy'), c.read(rtc, 'tuples')
        # no invocation was logged before the chart starts; events posted before start_at have left their markers
        r0 = B.seq_len(it, rs)
        c.assume(B.seq_len(it, rt) == 0)
        if host in QUEUED_HOSTS:
            c.assume(z3.And(r0 >= 0, r0 < c.hget(rs, '$maxlen') - 20))
            c.assume(z3.ForAll([_i], z3.Implies(z3.And(0 <= _i, _i < r0), z3.Select(B.seq_items(it, rs), _i) != NONE)))
        else:
            c.assume(r0 == 0)
        S = c.fresh_ref('initial_state', 'state', distinct=False)
        c.assume(z3.And(S.e != NONE, S.e != TOP))
        m = c.fresh('search_for_spy_on_in_code', Ref)
        it.w.hooks['re.search'] = lambda it_, args, r: SRef(m, 'match')
        decorated = z3.And(B.fn_closure(S.e) != NONE, m != NONE)
        TR0, FS0 = view(it, tr), view(it, fs)
        if host in ('ActiveObject',):
            from .ao_targets import _service_contracts
            _service_contracts(it.w)
            it.w.contracts['activeobject.ActiveObject.__start'] = FnContract(
                '__start', lambda it_, fn, a, k: it_.c.pyghost.setdefault('thread_started', []).append(1))
            c.hset(self, 'name', c.fresh('name0', Ref))
        out = run_body(it, method(it, self, 'start_at'), [S])
        c.prove('start_at@%s:transparent/returns-normally' % host, out.raised is None, tags=('C18', 'C20', 'C23'))
        if out.raised is not None:
            return
        calls = [x for x in c.pyghost.get('core_calls', []) if x[0] == 'start_at']
        c.prove('start_at@%s:transparent/core-runs-exactly-once-with-the-start-state' % host,
                z3.BoolVal(len(calls) == 1) if len(calls) != 1 else calls[0][1] == S.e, tags=('C18',))
        if len(calls) != 1:
            return
        new = c.pyghost['new_state']
        c.prove('start_at@%s:post/state_name-names-the-current-state' % host, c.hget(self, 'state_name') == name_of(new),
                tags=('C23',))
        c.prove('start_at@%s:post/state_fn-is-the-current-state' % host,
                z3.Or(c.hget(self, 'state_fn') == new, c.hget(self, 'state_fn') == raw_of(new)), tags=('C23',))
        c.prove('start_at@%s:post/instrumentation-on-exactly-for-spy-decorated-start-states' % host,
                c.hget(self, 'instrumented') == decorated, tags=('C18',))
        TR1, FS1, RS1 = view(it, tr), view(it, fs), view(it, rs)
        c.prove('start_at@%s:trace/one-record-top-to-start-state' % host,
                TR1.len == TR0.len + z3.If(decorated, 1, 0), tags=('C20',))
        rec = TR1.at(TR0.len)
        c.prove('start_at@%s:trace/record-content' % host, z3.Implies(decorated, z3.And(
            sval(c.hget(rec, 'TraceTuple.start_state')) == c.strconst('top'),
            c.hget(rec, 'TraceTuple.signal') == NONE,
            sval(c.hget(rec, 'TraceTuple.end_state')) == sval(name_of(new)))), tags=('C20',))
        heap_at_core = calls[0][2]
        RS_at = view(it, rs, heap_at_core)
        c.prove('start_at@%s:spy/START-is-the-first-line-of-the-start-step' % host, z3.Implies(decorated, z3.And(
            RS_at.len == r0 + 1, sval(RS1.at(r0)) == c.strconst('START'))), tags=('C19',))
        c.prove('start_at@%s:spy/full-spy-begins-with-the-step-log' % host, z3.Implies(decorated, z3.And(
            FS1.len >= FS0.len + RS_at.len,
            z3.ForAll([_i], z3.Implies(z3.And(0 <= _i, _i < FS0.len), FS1.at(_i) == FS0.at(_i))),
            z3.ForAll([_i], z3.Implies(z3.And(0 <= _i, _i < RS_at.len), FS1.at(FS0.len + _i) == RS1.at(_i))))),
            tags=('C19',))
        c.prove('start_at@%s:transparent/nothing-logged-for-undecorated-charts' % host,
                z3.Implies(z3.Not(decorated), z3.And(TR1.len == TR0.len, FS1.len == FS0.len)), tags=('C18', 'C19', 'C20'))
        c.cover('start_at@%s:cover' % host)
    fns = ['hsm.InstrumentedHsmEventProcessor.start_at', 'hsm.spy_on_start._spy_on_start', 'hsm.trace_on_start._trace_on_start']
    if host in QUEUED_HOSTS:
        fns += ['hsm.HsmWithQueues.start_at', 'hsm.append_queue_reflection_after_start._append_queue_reflection_after_start',
                'hsm.HsmWithQueues.print_trace_after_at_start_if_live._print_trace_if_live',
                'hsm.HsmWithQueues.print_spy_after_at_start_if_live._print_spy_if_live']
    if host == 'ActiveObject':
        fns += ['activeobject.ActiveObject.start_at']
    return Target('start_at@%s[wrappers]' % host, run, fns)


def t_ao_start_undecorated():
    """An active object without a name, started in a state that does not carry @spy_on (C18: every configuration)."""
    def run(it):
        c, g = it.c, it.c.ghost
        from contracts import hsm_core as H
        from .timer_targets import make_ao
        from .ao_targets import _service_contracts
        _service_contracts(it.w)
        it.w.contracts['activeobject.ActiveObject.__start'] = FnContract('__start', lambda it_, fn, a, k: None)
        self = make_ao(it)
        c.hset(self, 'instrumented', z3.BoolVal(True))
        c.hset(self, 'name', NONE)
        cur = c.fresh('whatever', Ref)
        c.hset(c.read(self, 'state'), 'fun', cur)
        c.hset(c.read(self, 'temp'), 'fun', cur)
        H.mon_init(c, cur, NONE, H.SEARCH)
        rt, rs = c.read(c.read(self, 'rtc'), 'tuples'), c.read(c.read(self, 'rtc'), 'spy')
        c.assume(z3.And(B.seq_len(it, rt) == 0, B.seq_len(it, rs) == 0))
        S = c.fresh_ref('undecorated_start_state', 'state', distinct=False)
        from contracts.tree import is_state, parent
        c.assume(z3.And(S.e != NONE, S.e != TOP, is_state(S.e), B.fn_closure(S.e) == NONE))

        def reflection(it_, s, chart, e):
            # an ordinary state function does not know REFLECTION_SIGNAL: it falls through to its else branch
            H.set_temp_fun(it_, chart, parent(s))
            return it_.w.statuses['SUPER']
        it.w.hooks['reflection'] = reflection
        out = run_body(it, method(it, self, 'start_at'), [S])
        c.prove('start_at@ActiveObject[undecorated]:post/starts-like-any-other-chart', out.raised is None, tags=('C18',))
        if out.raised is None:
            calls = [x for x in c.pyghost.get('core_calls', []) if x[0] == 'start_at']
            c.prove('start_at@ActiveObject[undecorated]:transparent/core-started-in-the-requested-state',
                    z3.BoolVal(len(calls) == 1) if len(calls) != 1 else z3.And(
                        calls[0][1] == S.e, z3.Select(calls[0][2]['fun'], c.hget(self, 'temp')) == cur), tags=('C18',))
    return Target('start_at@ActiveObject[undecorated,unnamed]', run, ['activeobject.ActiveObject.start_at'])


def _wrapper(it, path, inner):
    """The closure a decorator of the real source returns, wrapped around an abstract inner function."""
    fi = it.src.funcs.get(path)
    if fi is None:
        from pyvc.sym import Unsupported
        raise Unsupported('%s no longer exists' % path)
    stub = it.c.fresh_ref('wrapped_function', 'fn')
    it.c.pyghost[('stub', stub.e.sexpr())] = inner
    return SFunc(fi, [{'fn': stub}], None, 'HsmWithQueues')


def t_live_trace(when):
    """print_trace_after_rtc_if_live / ..._at_start_if_live around an abstract step that appends at most one record."""
    path = 'hsm.HsmWithQueues.print_trace_after_%s_if_live._print_trace_if_live' % ('rtc' if when == 'rtc' else 'at_start')

    def run(it):
        c, g = it.c, it.c.ghost
        from contracts.queues import ghost_seq_init
        self, cur = instr_chart(it, 'HsmWithQueues', room=False)      # the live printer must work on a saturated trace too
        tr = c.read(c.read(self, 'full'), 'trace')
        TR0 = view(it, tr)
        ghost_seq_init(c, 'log_live_trace')
        t0 = g['log_live_trace_len']
        c.assume(z3.ForAll([_i], z3.Implies(z3.And(0 <= _i, _i < TR0.len), z3.And(
            TR0.at(_i) != NONE, c.hget(TR0.at(_i), 'TraceTuple.datetime') != NONE))))
        # what earlier steps left behind: everything up to the last record has been printed
        if 'last_live_trace_record' in it.src.init_attrs('HsmWithQueues'):
            c.hset(self, 'last_live_trace_record', z3.If(TR0.len > 0, TR0.at(TR0.len - 1), NONE))
        c.assume(z3.Implies(TR0.len > 0, c.hget(self, 'last_live_trace_datetime') ==
                            c.hget(TR0.at(TR0.len - 1), 'TraceTuple.datetime')))
        if when == 'start':
            c.assume(TR0.len == 0)
        result = c.fresh_ref('result_of_the_step', None, distinct=False)
        appended = c.fresh('step_appends_a_record', z3.BoolSort())

        def step(it_, args, kwargs):
            cc = it_.c
            cc.pyghost['inner_calls'] = cc.pyghost.get('inner_calls', 0) + 1
            rec = cc.fresh_ref('new_record', 'nt:TraceTuple')
            cc.hset(rec, 'TraceTuple.datetime', cc.fresh('clock_reading', Ref))      # may equal any earlier reading
            cc.assume(cc.hget(rec, 'TraceTuple.datetime') != NONE)
            n = B.seq_len(it_, tr)
            # newly allocated: not one of the records already in the trace
            cc.assume(z3.ForAll([_i], z3.Implies(z3.And(0 <= _i, _i < n), z3.Select(B.seq_items(it_, tr), _i) != rec.e)))
            if cc.branch(appended, 'step-appends-a-record'):
                B.seq_append(it_, tr, rec)      # the trace is a ring buffer: when it is full the oldest record goes
            return result
        fn = _wrapper(it, path, step)
        args = [self] + ([c.fresh_ref('initial_state', 'state')] if when == 'start' else [])
        out = run_body(it, fn, args)
        c.prove('live-trace[%s]:transparent/returns-normally' % when, out.raised is None, tags=('C21', 'C18'))
        if out.raised is not None:
            return
        c.prove('live-trace[%s]:transparent/wrapped-step-runs-once-and-its-result-is-returned' % when,
                z3.And(z3.BoolVal(c.pyghost.get('inner_calls', 0) == 1), c.to_ref(out.value) == result.e), tags=('C18',))
        on = z3.And(c.hget(self, 'instrumented'), c.hget(self, 'live_trace'))
        c.prove('live-trace[%s]:post/a-new-record-is-handed-to-the-callback-exactly-once' % when,
                g['log_live_trace_len'] - t0 == z3.If(z3.And(on, appended), 1, 0), tags=('C21',))
        # the precondition of the next step ("everything up to the last record has been printed"), re-established
        if 'last_live_trace_record' in it.src.init_attrs('HsmWithQueues'):
            TR1 = view(it, tr)
            c.prove('live-trace[%s]:post/the-last-record-is-remembered-as-printed' % when,
                    z3.Implies(on, c.hget(self, 'last_live_trace_record') ==
                               z3.If(TR1.len > 0, TR1.at(TR1.len - 1), NONE)), tags=('C21',))
        c.cover('live-trace[%s]:cover' % when)
    return Target('live-trace[%s]' % when, run, [path, 'hsm.HsmWithQueues.trace_tuple_to_formatted_string'])


def t_live_spy(when):
    path = 'hsm.HsmWithQueues.print_spy_after_%s_if_live._print_spy_if_live' % ('rtc' if when == 'rtc' else 'at_start')

    def run(it):
        c, g = it.c, it.c.ghost
        from contracts.queues import ghost_seq_init
        self, cur = instr_chart(it, 'HsmWithQueues')
        rs = c.read(c.read(self, 'rtc'), 'spy')
        ghost_seq_init(c, 'log_live_spy')
        s0, log0 = g['log_live_spy_len'], g['log_live_spy']
        result = c.fresh_ref('result_of_the_step', None, distinct=False)

        def step(it_, args, kwargs):
            it_.c.pyghost['inner_calls'] = it_.c.pyghost.get('inner_calls', 0) + 1
            extend_deque(it_, rs, 'spy_after_step')
            it_.c.pyghost['rs_after_step'] = (B.seq_items(it_, rs), B.seq_len(it_, rs))
            return result
        # posts made while the live callback runs (from the callback itself or from another thread) append markers
        c.pyghost[('callback_may_append_to', 'live_spy')] = rs
        fn = _wrapper(it, path, step)
        args = [self] + ([c.fresh_ref('initial_state', 'state')] if when == 'start' else [])
        out = run_body(it, fn, args)
        c.prove('live-spy[%s]:transparent/returns-normally' % when, out.raised is None, tags=('C21', 'C18'))
        if out.raised is not None:
            return
        c.prove('live-spy[%s]:transparent/wrapped-step-runs-once-and-its-result-is-returned' % when,
                z3.And(z3.BoolVal(c.pyghost.get('inner_calls', 0) == 1), c.to_ref(out.value) == result.e), tags=('C18',))
        itS, nS = c.pyghost['rs_after_step']         # the step log as the step left it
        on = z3.And(c.hget(self, 'instrumented'), c.hget(self, 'live_spy'))
        c.prove('live-spy[%s]:post/every-line-of-the-step-handed-to-the-callback-once-in-order' % when, z3.If(on, z3.And(
            g['log_live_spy_len'] - s0 == nS,
            z3.ForAll([_i], z3.Implies(z3.And(0 <= _i, _i < nS), z3.Select(g['log_live_spy'], s0 + _i) == z3.Select(itS, _i)))),
            g['log_live_spy_len'] == s0), tags=('C21',))
        c.cover('live-spy[%s]:cover' % when)
    return Target('live-spy[%s]' % when, run, [path])


def t_current_state():
    def run(it):
        c, g = it.c, it.c.ghost
        from contracts import hsm_core as H
        self, cur = instr_chart(it, 'HsmWithQueues')
        H.mon_init(c, cur, NONE, H.SEARCH)
        out = run_body(it, method(it, self, 'current_state'), [])
        c.prove('current_state:post/returns-normally', out.raised is None, tags=('C23',))
        if out.raised is None:
            c.prove('current_state:post/names-the-current-state-when-instrumented',
                    z3.Implies(c.hget(self, 'instrumented'), c.to_ref(out.value) == name_of(cur))
                    if out.value is not None else z3.Not(c.hget(self, 'instrumented')), tags=('C23',))
            c.prove('current_state:post/chart-unchanged',
                    z3.And(c.hget(c.read(self, 'state'), 'fun') == cur, c.hget(c.read(self, 'temp'), 'fun') == cur),
                    tags=('C23', 'idle'))
    return Target('current_state@HsmWithQueues', run, ['hsm.HsmWithQueues.current_state'])


def family(src, tier):
    """(world, targets) pairs shared by C18-C21 and C23; each property selects its obligations by tag."""
    w = base_world(src)
    ts = [t_spy_on(h, k) for h in HOSTS for k in SIGKINDS]
    ts += [t_spy_on(h, k) for h in ('HsmWithQueues', 'ActiveObject') for k in META_KINDS if k in w.signals]
    wi = instr_world(src, tier)
    wu = instr_world(src, tier, spied=False)
    return [(w, ts),
            (wi, [t_instr_dispatch('InstrumentedHsmEventProcessor'), t_instr_dispatch('HsmWithQueues'),
                  t_instr_dispatch('HsmWithQueues', meta='SUBSCRIBE_META_SIGNAL'),
                  t_instr_dispatch('HsmWithQueues', meta='PUBLISH_META_SIGNAL'),
                  t_instr_start_at('InstrumentedHsmEventProcessor'), t_instr_start_at('HsmWithQueues'),
                  t_instr_start_at('ActiveObject'), t_live_trace('rtc'), t_live_trace('start'),
                  t_live_spy('rtc'), t_live_spy('start'), t_current_state()]),
            (wu, [t_ao_start_undecorated()])]


COMMON_TRUSTED = ['core contracts of HsmEventProcessor.dispatch / start_at as seen by their wrappers (what C01-C03, C23 prove '
                  'of them; the summary of what a step\'s handler invocations logged follows from the _spy_on contract, the '
                  'offer protocol of C02 and the core\'s frame)', 'deque / list contracts', 'functools.wraps preserves __name__',
                  'user live callbacks and user state code do not touch the chart\'s instrumentation fields']


# ------------------------------------------------------------------ C19: the documented markers of a step
MARKER_TEXT = {'post_fifo': 'POST_FIFO:{}', 'post_lifo': 'POST_LIFO:{}', 'defer': 'POST_DEFERRED:{}', 'recall': 'RECALL:{}'}


def _is_line(c, ref, literal, name_ref):
    """ref is the text <literal>.format(name): str.format is an uninterpreted constructor keyed by the literal, so a
    different literal or a different argument is a different (unprovable) text."""
    return z3.And(ref != NONE, sval(ref) == B.fmt_text(c, literal, sval(name_ref)))


def t_marker(op, host='HsmWithQueues'):
    """post_fifo / post_lifo / defer / recall / scribble on a queued chart: the step log gets exactly the documented
    marker(s), naming the event concerned, when the chart is instrumented, and nothing otherwise."""
    def run(it):
        c = it.c
        from contracts.common import is_fifo_put, same_seq
        self = make_chart(it, host)
        flags(it, self)
        rs = c.read(c.read(self, 'rtc'), 'spy')
        rt = c.read(c.read(self, 'rtc'), 'tuples')
        dq = c.read(self, 'defer_queue')
        # head room in the step log: a step longer than the buffer is the truncation the property states
        c.assume(B.seq_len(it, rs) < c.hget(rs, '$maxlen') - 4)
        c.assume(B.seq_len(it, rt) < c.hget(rt, '$maxlen') - 4)
        i = z3.Int('i!dq')
        D0 = view(it, dq)
        c.assume(z3.ForAll([i], z3.Implies(z3.And(0 <= i, i < D0.len), D0.at(i) != NONE)))
        RS0, RT0 = view(it, rs), view(it, rt)
        instr = c.hget(self, 'instrumented')
        if op == 'scribble':
            text = c.fresh_ref('text', 'str')
            out = run_body(it, method(it, self, 'scribble'), [text])
        elif op == 'recall':
            out = run_body(it, method(it, self, 'recall'), [])
        else:
            e = symbolic_event(it)
            out = run_body(it, method(it, self, op), [e])
        c.prove('marker[%s]:post/returns-normally' % op, out.raised is None, tags=('C19',))
        if out.raised is not None:
            return
        RS1, RT1 = view(it, rs), view(it, rt)
        if op == 'scribble':
            c.prove('marker[scribble]:post/the-text-is-the-next-line-of-the-step-log-when-instrumented',
                    z3.If(instr, z3.And(RS1.len == RS0.len + 1, RS1.at(RS0.len) == text.e), RS1.len == RS0.len), tags=('C19',))
        elif op == 'recall':
            head = D0.at(0)
            nm = c.hget(head, 'signal_name')
            some = D0.len > 0
            c.prove('marker[recall]:post/RECALL-then-POST_FIFO-naming-the-recalled-event',
                    z3.If(z3.And(instr, some),
                          z3.And(RS1.len == RS0.len + 2, _is_line(c, RS1.at(RS0.len), MARKER_TEXT['recall'], nm),
                                 _is_line(c, RS1.at(RS0.len + 1), MARKER_TEXT['post_fifo'], nm)),
                          RS1.len == RS0.len), tags=('C19',))
            t = RT1.at(RT0.len)
            c.prove('marker[recall]:post/one-recall-tuple-naming-the-recalled-event',
                    z3.If(z3.And(instr, some),
                          z3.And(RT1.len == RT0.len + 1, t != NONE, c.hget(t, 'SpyTuple.recall'),
                                 sval(c.hget(t, 'SpyTuple.signal')) == sval(nm)),
                          RT1.len == RT0.len), tags=('C19', 'C20'))
        else:
            nm = c.hget(e, 'signal_name')
            c.prove('marker[%s]:post/one-marker-naming-the-event-when-instrumented' % op,
                    z3.If(instr, z3.And(RS1.len == RS0.len + 1, _is_line(c, RS1.at(RS0.len), MARKER_TEXT[op], nm)),
                          RS1.len == RS0.len), tags=('C19',))
            c.prove('marker[%s]:post/no-tuple' % op, RT1.len == RT0.len, tags=('C19', 'C20'))
        j = z3.Int('j!keep')
        c.prove('marker[%s]:post/earlier-lines-kept' % op,
                z3.ForAll([j], z3.Implies(z3.And(0 <= j, j < RS0.len), RS1.at(j) == RS0.at(j))), tags=('C19',))
        c.cover('marker[%s]:cover' % op)
    fns = {'post_fifo': ['hsm.HsmWithQueues.post_fifo', 'hsm.append_fifo_to_spy._append_fifo_to_spy'],
           'post_lifo': ['hsm.HsmWithQueues.post_lifo', 'hsm.HsmWithQueues.append_lifo_to_spy._append_lifo_to_spy'],
           'defer': ['hsm.HsmWithQueues.defer', 'hsm.HsmWithQueues.append_defer_to_spy._append_defer_to_spy'],
           'recall': ['hsm.HsmWithQueues.recall', 'hsm.HsmWithQueues.append_recall_to_spy._append_recall_to_spy'],
           'scribble': ['hsm.InstrumentedHsmEventProcessor.scribble']}[op]
    return Target('marker[%s]@%s' % (op, host), run, fns)


def marker_targets():
    return [t_marker(op) for op in ('post_fifo', 'post_lifo', 'defer', 'recall', 'scribble')]


# ------------------------------------------------------------------ clear_spy / clear_trace (C19, C20, C21)
def t_clear(which):
    """clear_spy / clear_trace empty the full log and leave it the ring buffer it was (same capacity): what is logged
    afterwards is again "the most recent entries", up to the documented size."""
    field, const = ('spy', 'SPY_RING_BUFFER_SIZE') if which == 'clear_spy' else ('trace', 'TRC_RING_BUFFER_SIZE')

    def run(it):
        c = it.c
        self = make_chart(it, 'HsmWithQueues')
        flags(it, self)
        instr = c.hget(self, 'instrumented')
        full = c.read(self, 'full')
        cap = class_const(it, 'HsmEventProcessor', const)
        other_f = 'trace' if field == 'spy' else 'spy'
        other = c.read(full, other_f)
        O0 = view(it, other)
        D0 = view(it, c.read(full, field))
        out = run_body(it, method(it, self, which), [])
        c.prove('%s:post/returns-normally' % which, out.raised is None, tags=('C19', 'C20'))
        if out.raised is not None:
            return
        d1 = c.read(c.read(self, 'full'), field)
        D1 = view(it, d1)
        c.prove('%s:post/the-full-%s-is-empty-when-instrumented' % (which, field),
                z3.If(instr, D1.len == 0, z3.And(d1.e == c.read(full, field).e, D1.len == D0.len)), tags=('C19', 'C20'))
        c.prove('%s:post/the-full-%s-keeps-its-documented-capacity' % (which, field), D1.maxlen == cap, tags=('C19', 'C20'))
        o1 = c.read(c.read(self, 'full'), other_f)
        O1 = view(it, o1)
        j = z3.Int('j!clr')
        c.prove('%s:frame/the-other-log-is-untouched' % which,
                z3.And(o1.e == other.e, O1.len == O0.len, O1.maxlen == O0.maxlen,
                       z3.ForAll([j], z3.Implies(z3.And(0 <= j, j < O0.len), O1.at(j) == O0.at(j)))), tags=('C19', 'C20'))
    return Target(which + '@HsmWithQueues', run, ['hsm.HsmWithQueues.' + which])
