"""C29 - thread-safe attribute values belong to their instance."""
from . import tsa_targets as T

LEVEL = 'proof'
TAGS = ('C29',)
TRUSTED = ['descriptor protocol: obj.attr calls type(obj).attr.__get__(obj, type(obj)), obj.attr = v calls __set__(obj, v)',
           'instance.__dict__ is a per-instance str-keyed dict']
ASSUMPTIONS = ['MetaThreadSafeAttributes installs one descriptor per declared name with initial value 0 (read from source)']
EXPLANATION = ('__get__/__set__ of the real source executed on two symbolic instances a != b sharing one class-level '
               'descriptor: after a.attr = v, a reads v and b reads what it read before; a never-assigned instance reads 0.')
MIN_OBLIGATIONS = 4


def build(src, tier):
    return [(T.world_for(src, tier), [T.t_per_instance(), T.t_augassign_rhs_read()])]
