"""Targets for timed posts, cancellation and stop (C10, C11, C12, C31)."""
import z3

from pyvc.sym import SInt, SBool, SRef, SFunc, SClass, Ref, StrV, NONE, sval
from pyvc.verify import Target, FnContract, method, run_body, framed
from pyvc import builtins as B
from contracts import base_world
from contracts import timers as TM
from contracts.common import make_chart, view, symbolic_event, class_const, is_fifo_put
from .queue_targets import flags

AO = 'activeobject.ActiveObject.'


def world_for(src, tier):
    w = base_world(src)
    TM.install(w)
    w.loopspecs[(AO + 'cancel_event', 1)] = TM.cancel_spec('cancel_event')
    w.loopspecs[(AO + 'cancel_events', 1)] = TM.cancel_spec('cancel_events')
    w.contracts[AO + 'post_fifo'] = FnContract(AO + 'post_fifo', TM.ao_post('fifo'))
    w.contracts[AO + 'post_lifo'] = FnContract(AO + 'post_lifo', TM.ao_post('lifo'))
    return w


def make_ao(it):
    c = it.c
    self = make_chart(it, 'ActiveObject')
    flags(it, self)
    tev = c.fresh_ref('ao_task_event', 'ThreadEvent')
    c.hset(self, 'activeobject_task_event', tev.e)
    c.hset(tev, 'flag', c.fresh('ao_flag', z3.BoolSort()))
    return self


def tracked(it, self):
    """Class invariant of the tracked-source list: every entry has its own run event and a value-distinct id."""
    c = it.c
    P = c.read(self, 'posted_events_queue')
    items, n = B.seq_items(it, P), B.seq_len(it, P)
    a, b = z3.Ints('a!tr b!tr')
    ev = lambda e: c.hget(e, 'PostedEvent.task_run_event')
    uid = lambda e: c.hget(e, 'PostedEvent.uuid')
    c.assume(z3.ForAll([a, b], z3.Implies(z3.And(0 <= a, a < b, b < n), z3.And(
        ev(z3.Select(items, a)) != ev(z3.Select(items, b)),
        sval(uid(z3.Select(items, a))) != sval(uid(z3.Select(items, b))),
        z3.Select(items, a) != z3.Select(items, b)))))
    c.assume(z3.ForAll([a], z3.Implies(z3.And(0 <= a, a < n), z3.And(
        z3.Select(items, a) != NONE, ev(z3.Select(items, a)) != NONE, uid(z3.Select(items, a)) != NONE,
        c.hget(z3.Select(items, a), 'PostedEvent.signal_name') != NONE))))
    return P, items, n


# ------------------------------------------------------------------ C10 + C31: a timed post and its thread
def t_timed_post(kind, may_cancel=False):
    mname = 'post_fifo' if kind == 'fifo' else 'post_lifo'

    def run(it):
        c, g = it.c, it.c.ghost
        self = make_ao(it)
        e = symbolic_event(it)
        p = SInt(c.fresh('period', z3.IntSort()))
        c.assume(p.e > 0)
        tk = c.choose(2, 'times-given')
        times = SInt(c.fresh('times', z3.IntSort())) if tk == 0 else None
        if times is not None:
            c.assume(times.e >= 0)
        dk = c.choose(2, 'deferred-given')
        deferred = SBool(c.fresh('deferred', z3.BoolSort())) if dk == 0 else None
        P, items0, n0 = tracked(it, self)
        M = class_const(it, 'ActiveObject', 'QUEUE_SIZE')
        flag_arr0 = c.harr('flag')
        TM.clock_init(c)
        jj = z3.Int('j!uid')

        def uuid4_is_new(it_, r):
            # uuid4 (assumed unique) does not repeat the id of a source that is already tracked
            it_.c.assume(z3.ForAll([jj], z3.Implies(z3.And(0 <= jj, jj < n0),
                                                    sval(c.hget(z3.Select(items0, jj), 'PostedEvent.uuid')) != sval(r.e))))
        it.w.hooks['uuid4_is_new'] = uuid4_is_new
        out = run_body(it, method(it, self, mname), [e, p, times, deferred])
        started = c.pyghost.get('threads_started', [])
        n_exp = times.e if times is not None else z3.IntVal(0)
        d_exp = deferred.e if deferred is not None else z3.BoolVal(True)
        if c.branch(n0 < M, 'room-for-another-source'):
            c.prove('%s:timed/returns-normally' % mname, out.raised is None, tags=('C10', 'C31'))
            if out.raised is not None:
                return
            c.prove('%s:timed/one-timer-thread-started' % mname, len(started) == 1, tags=('C10',))
            if len(started) != 1:
                return
            th = started[0]
            tgt, args, _ = c.thread_specs[th.e.sexpr()]
            c.prove('%s:timed/thread-arguments' % mname, len(args) == 3, tags=('C10',))
            spec = args[0]
            rd = lambda f: c.read(spec, f)
            c.prove('%s:timed/spec-carries-the-request' % mname, z3.And(
                rd('event').e == e.e, sval(c.to_ref(rd('queue_type'))) == c.strconst(kind),
                rd('total_times').e == n_exp, rd('deferred').e == d_exp, rd('period').e == p.e,
                c.hget(rd('task_run_event'), 'flag')), tags=('C10',))
            c.prove('%s:timed/runner-starts-with-spec-deferral-and-zero-count' % mname,
                    z3.And(c.to_bool(args[1]) == d_exp, c.to_int(args[2]) == 0), tags=('C10',))
            P1 = view(it, P)
            entry = P1.at(n0)
            c.prove('%s:timed/source-tracked' % mname, z3.And(
                P1.len == n0 + 1,
                c.hget(entry, 'PostedEvent.task_run_event') == rd('task_run_event').e,
                c.hget(entry, 'PostedEvent.signal_name') == c.hget(e, 'signal_name'),
                c.hget(entry, 'PostedEvent.uuid') == c.hget(th, 'name'),
                c.to_ref(out.value) == c.hget(th, 'name')), tags=('C10', 'C11'))
            j = z3.Int('j!tp')
            # the record of the new source is an object allocated by this call: none of the records tracked before
            c.assume(z3.ForAll([j], z3.Implies(z3.And(0 <= j, j < n0), z3.Select(items0, j) != entry)))
            c.prove('%s:timed/the-new-source-gets-an-id-no-tracked-source-has' % mname,
                    z3.ForAll([j], z3.Implies(z3.And(0 <= j, j < n0),
                                              sval(c.hget(z3.Select(items0, j), 'PostedEvent.uuid')) !=
                                              sval(c.hget(entry, 'PostedEvent.uuid')))), tags=('C11',))
            c.prove('%s:timed/other-sources-still-tracked' % mname,
                    z3.ForAll([j], z3.Implies(z3.And(0 <= j, j < n0), P1.at(j) == z3.Select(items0, j))),
                    tags=('C10', 'C31', 'C11', 'C12'))
            # ---- now the thread body itself, on the virtual clock, assuming nobody else clears this source's flag
            c.pyghost['runner'] = {'d0': d_exp, 'period': p.e, 'kind': sval(c.to_ref(rd('queue_type'))), 'event': e.e,
                                   'n': n_exp, 'may_cancel': may_cancel, 'run_event': rd('task_run_event').e}
            if may_cancel and c.choose(2, 'cancelled-before-the-timer-thread-first-runs'):
                # post_fifo/post_lifo has returned the id: another thread may cancel the source before the new
                # thread gets its first time slice (thread entry is a scheduling point like a sleep)
                c.hset(rd('task_run_event'), 'flag', z3.BoolVal(False))
                g['g_cancelled'] = z3.BoolVal(True)
            try:
                it.call_func(tgt, list(args), {})
                ended = True
            except Exception as ex:
                from pyvc.sym import Raised
                if isinstance(ex, Raised):
                    c.prove('runner:post/no-exception', z3.BoolVal(False), tags=('C10',))
                    return
                raise
            c.prove('runner:post/posted-exactly-the-requested-number-of-times',
                    z3.Implies(z3.Not(g['g_cancelled']), z3.And(n_exp >= 1, g['g_posts'] == n_exp)), tags=('C10',))
            if may_cancel:
                c.prove('runner:cancel/a-cancelled-source-ends-having-posted-no-more-than-requested',
                        z3.Implies(n_exp >= 1, g['g_posts'] <= n_exp), tags=('C11', 'C12'))
            c.prove('runner:post/every-post-to-the-requested-end-of-the-queue',
                    z3.And(g['g_kinds_ok'], c.pyghost['runner']['kind'] == c.strconst(kind)), tags=('C10',))
            c.cover('%s:timed/cover-finished' % mname)
        else:
            c.prove('%s:rejected/raises-out-of-resources' % mname,
                    out.raised == 'ActiveObjectOutOfPostedEventResources', tags=('C31', 'C11'))
            c.prove('%s:rejected/no-timer-thread-was-started' % mname, len(started) == 0, tags=('C31',))
            P1 = view(it, P)
            j = z3.Int('j!tp')
            c.prove('%s:rejected/tracked-sources-unchanged' % mname, z3.And(
                P1.len == n0, z3.ForAll([j], z3.Implies(z3.And(0 <= j, j < n0), P1.at(j) == z3.Select(items0, j)))),
                tags=('C31',))
            x = z3.Const('x!tp', Ref)
            c.prove('%s:rejected/tracked-sources-keep-running' % mname,
                    z3.ForAll([j], z3.Implies(z3.And(0 <= j, j < n0), z3.Select(c.harr('flag'), c.hget(
                        z3.Select(items0, j), 'PostedEvent.task_run_event')) == z3.Select(flag_arr0, c.hget(
                            z3.Select(items0, j), 'PostedEvent.task_run_event')))), tags=('C31',))
            c.cover('%s:rejected/cover' % mname)
    return Target('timed-%s%s' % (mname, '[may be cancelled while it sleeps]' if may_cancel else ''), run, [AO + mname, AO + '__post_event',
                                            AO + '__post_event.post_event_thread_runner'])


# ------------------------------------------------------------------ C11: cancellation
def _cancel_post(it, name, P, items0, n0, flag0, match, tags):
    c = it.c
    P1 = view(it, P)
    A = c.fresh('P1_items', B.IntArr)
    c.assumptions.append(A == P1.items)
    ev = lambda e: c.hget(e, 'PostedEvent.task_run_event')
    flag = c.harr('flag')
    m, i = z3.Ints('m!cp i!cp')
    x = z3.Const('x!cp', Ref)
    c.prove('%s:post/matching-sources-stopped' % name, z3.ForAll([m], z3.Implies(
        z3.And(0 <= m, m < n0, match(z3.Select(items0, m))), z3.Not(z3.Select(flag, ev(z3.Select(items0, m)))))),
        tags=tags)
    cleared = z3.Exists([m], z3.And(0 <= m, m < n0, match(z3.Select(items0, m)), ev(z3.Select(items0, m)) == x))
    c.prove('%s:post/other-sources-keep-running' % name, z3.ForAll([x], z3.Implies(
        z3.Not(cleared), z3.Select(flag, x) == z3.Select(flag0, x))), tags=tags)
    c.prove('%s:post/no-matching-source-left-tracked' % name, z3.ForAll([i], z3.Implies(
        z3.And(0 <= i, i < P1.len), z3.Not(match(z3.Select(A, i)))), patterns=[z3.Select(A, i)]), tags=tags)
    return P1, A


def t_cancel_events():
    def run(it):
        c, g = it.c, it.c.ghost
        self = make_ao(it)
        P, items0, n0 = tracked(it, self)
        e = symbolic_event(it)
        c.assume(c.hget(e, 'signal_name') != NONE)
        nm = sval(c.hget(e, 'signal_name'))
        match = lambda en: sval(c.hget(en, 'PostedEvent.signal_name')) == nm
        flag0 = c.harr('flag')
        out = run_body(it, method(it, self, 'cancel_events'), [e])
        c.prove('cancel_events:post/returns-normally', out.raised is None, tags=('C11', 'C12'))
        if out.raised is not None:
            return
        P1, A = _cancel_post(it, 'cancel_events', P, items0, n0, flag0, match, ('C11', 'C12'))
        k, src, pos = g['g_kept'], g['g_src'], g['g_pos']
        m = z3.Int('m!ce')
        c.prove('cancel_events:post/every-other-source-still-tracked', z3.ForAll([m], z3.Implies(
            z3.And(0 <= m, m < n0, z3.Not(match(z3.Select(items0, m)))),
            z3.And(0 <= z3.Select(pos, m), z3.Select(pos, m) < P1.len,
                   z3.Select(A, z3.Select(pos, m)) == z3.Select(items0, m))), patterns=[z3.Select(pos, m)]),
            tags=('C11',))
        c.cover('cancel_events:cover')
    return Target('cancel_events', run, [AO + 'cancel_events'])


def t_cancel_event():
    def run(it):
        c, g = it.c, it.c.ghost
        self = make_ao(it)
        P, items0, n0 = tracked(it, self)
        u = c.fresh_ref('id_as_obtained_by_the_caller', 'uuid', distinct=False)   # equal to a stored id, maybe not identical
        c.assume(u.e != NONE)
        match = lambda en: sval(c.hget(en, 'PostedEvent.uuid')) == sval(u.e)
        flag0 = c.harr('flag')
        out = run_body(it, method(it, self, 'cancel_event'), [u])
        c.prove('cancel_event:post/returns-normally', out.raised is None, tags=('C11',))
        if out.raised is not None:
            return
        P1, A = _cancel_post(it, 'cancel_event', P, items0, n0, flag0, match, ('C11',))
        m, i = z3.Ints('m!cv i!cv')
        # witness for "still tracked": an unexamined entry moved up by the number of kept ones, an examined one sits
        # where the ghost position map says
        J, _ = c.pyghost.get('cancel_exit', (z3.IntVal(0), None))
        k, pos = g['g_kept'], g['g_pos']
        w = z3.If(m < n0 - J, k + m, z3.Select(pos, m))
        c.prove('cancel_event:post/every-other-source-still-tracked', z3.ForAll([m], z3.Implies(
            z3.And(0 <= m, m < n0, z3.Not(match(z3.Select(items0, m)))),
            z3.And(0 <= w, w < P1.len, z3.Select(A, w) == z3.Select(items0, m))), patterns=[z3.Select(items0, m)]),
            tags=('C11',))
        c.cover('cancel_event:cover')
    return Target('cancel_event', run, [AO + 'cancel_event'])
