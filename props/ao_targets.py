"""Targets for the active object's thread, stop, and pub/sub front end (C04, C07, C12)."""
import z3

from pyvc.sym import SInt, SBool, SRef, SFunc, SClass, Ref, StrV, NONE, IntArr, LoopSpec, sval
from pyvc.verify import Target, FnContract, method, run_body, framed
from pyvc import builtins as B
from contracts import base_world
from contracts import timers as TM
from contracts import fabric as F
from contracts.common import make_chart, view, symbolic_event, class_const, is_tail
from .queue_targets import flags, next_rtc_abstract, dispatch_abstract, qref, tokens
from .timer_targets import make_ao, tracked

AO = 'activeobject.ActiveObject.'
IntInt = z3.ArraySort(z3.IntSort(), z3.IntSort())


# ------------------------------------------------------------------ call-site contract of cancel_events
def cancel_events_contract(it, fn, args, kwargs):
    """cancel_events(e) as proved under C11: exactly the tracked sources whose signal name equals e's are stopped
    and dropped; the others stay tracked (in order) and keep running."""
    c, g = it.c, it.c.ghost
    self, e = args[0], args[1]
    key = 'PostedEvent.signal_name' if e.pytype == 'nt:PostedEvent' else 'signal_name'
    nm = sval(c.hget(e, key))
    P = c.read(self, 'posted_events_queue')
    items, n = B.seq_items(it, P), B.seq_len(it, P)
    flag0 = c.harr('flag')
    items1, n1 = c.fresh('P_after_cancel', IntArr), c.fresh('n_after_cancel', z3.IntSort())
    wit = c.fresh('kept_from', IntInt)
    flag1 = c.fresh('flags_after_cancel', flag0.sort())
    i, m = z3.Ints('i!cc m!cc')
    x = z3.Const('x!cc', Ref)
    match = lambda en: sval(c.hget(en, 'PostedEvent.signal_name')) == nm
    ev = lambda en: c.hget(en, 'PostedEvent.task_run_event')
    c.assume(z3.And(0 <= n1, n1 <= n))
    c.assume(z3.ForAll([i], z3.Implies(z3.And(0 <= i, i < n1), z3.And(
        0 <= z3.Select(wit, i), z3.Select(wit, i) < n, z3.Select(items1, i) == z3.Select(items, z3.Select(wit, i)),
        z3.Not(match(z3.Select(items1, i))))), patterns=[z3.Select(items1, i)]))
    c.assume(z3.ForAll([m], z3.Implies(z3.And(0 <= m, m < n, match(z3.Select(items, m))),
                                       z3.Not(z3.Select(flag1, ev(z3.Select(items, m))))),
                       patterns=[z3.Select(items, m)]))
    cleared = z3.Exists([m], z3.And(0 <= m, m < n, match(z3.Select(items, m)), ev(z3.Select(items, m)) == x))
    c.assume(z3.ForAll([x], z3.Implies(z3.Not(cleared), z3.Select(flag1, x) == z3.Select(flag0, x)),
                       patterns=[z3.Select(flag1, x)]))
    kept_at = c.fresh('kept_at', IntInt)
    c.assume(z3.ForAll([m], z3.Implies(z3.And(0 <= m, m < n, z3.Not(match(z3.Select(items, m)))), z3.And(
        0 <= z3.Select(kept_at, m), z3.Select(kept_at, m) < n1,
        z3.Select(items1, z3.Select(kept_at, m)) == z3.Select(items, m))), patterns=[z3.Select(kept_at, m)]))
    c.hset(P, '$items', items1)
    c.hset(P, '$len', n1)
    if c.write_log is not None:
        c.write_log.append(('flag', z3.Const('any!flag', Ref)))
    c.heap['flag'] = flag1
    c.pyghost['last_cancel'] = (wit, items, n, kept_at)
    return None


# ------------------------------------------------------------------ stop(): loop over the snapshot of tracked sources
def stop_loop_spec():
    def on_entry(it, env):
        c = it.c
        c.ghost['g_idx'] = c.fresh('idx', IntInt)       # tracked entry i  is  snapshot[g_idx[i]]
        S = env['events_with_their_own_threads']
        P = c.read(env['self'], 'posted_events_queue')
        i = z3.Int('i!se')
        # at entry the tracked list IS the snapshot
        c.assume(z3.ForAll([i], z3.Select(c.ghost['g_idx'], i) == i, patterns=[z3.Select(c.ghost['g_idx'], i)]))
        c.ghost['g_where'] = c.fresh('where', IntInt)   # snapshot[m] is tracked at position g_where[m] (if still tracked)
        c.assume(z3.ForAll([i], z3.Select(c.ghost['g_where'], i) == i, patterns=[z3.Select(c.ghost['g_where'], i)]))
        env['$flag_entry'] = c.harr('flag')
        th = c.read(env['self'], 'thread')
        me = c.ghost.get('cur_thread')
        if me is not None:
            # a step still in progress could start another timed source after the snapshot was taken
            c.prove('stop:order/sources-are-collected-only-after-the-thread-has-ended',
                    z3.Or(th.e == me, z3.Not(c.hget(th, 'alive'))), tags=('C12',))

    def inv(it, env):
        c, g = it.c, it.c.ghost
        S = env['events_with_their_own_threads']
        Sit, Sn = B.seq_items(it, S), B.seq_len(it, S)
        P = c.read(env['self'], 'posted_events_queue')
        A = c.fresh('P_items', IntArr)
        c.assumptions.append(A == B.seq_items(it, P))
        n = B.seq_len(it, P)
        k = c.to_int(env['$k1'])
        idx = g['g_idx']
        flag = c.harr('flag')
        i, m = z3.Ints('i!st m!st')
        ev = lambda en: c.hget(en, 'PostedEvent.task_run_event')
        x = z3.Const('x!st', Ref)
        mine = z3.Exists([m], z3.And(0 <= m, m < Sn, ev(z3.Select(Sit, m)) == x))
        return [('still-tracked-are-unprocessed', z3.ForAll([i], z3.Implies(z3.And(0 <= i, i < n), z3.And(
                    k <= z3.Select(idx, i), z3.Select(idx, i) < Sn, z3.Select(A, i) == z3.Select(Sit, z3.Select(idx, i)))),
                    patterns=[z3.Select(A, i)])),
                ('processed-sources-stopped', z3.ForAll([m], z3.Implies(z3.And(0 <= m, m < k),
                                                                        z3.Not(z3.Select(flag, ev(z3.Select(Sit, m))))),
                                                        patterns=[z3.Select(Sit, m)])),
                ('nobody-else-stopped', z3.ForAll([x], z3.Implies(z3.Not(mine),
                                                                  z3.Select(flag, x) == z3.Select(env['$flag_entry'], x)),
                                                  patterns=[z3.Select(flag, x)])),
                ('unprocessed-still-tracked-or-already-stopped', z3.ForAll([m], z3.Implies(
                    z3.And(k <= m, m < Sn),
                    z3.Or(z3.And(0 <= z3.Select(g['g_where'], m), z3.Select(g['g_where'], m) < n,
                                 z3.Select(A, z3.Select(g['g_where'], m)) == z3.Select(Sit, m)),
                          z3.Not(z3.Select(flag, ev(z3.Select(Sit, m)))))), patterns=[z3.Select(g['g_where'], m)])),
                ('tracked-nonneg', n >= 0)]

    def body_end(it, env):
        c, g = it.c, it.c.ghost
        wit, items, n, kept_at = c.pyghost['last_cancel']
        w2 = c.fresh('where', IntInt)
        mm = z3.Int('m!sb')
        c.assume(z3.ForAll([mm], z3.Select(w2, mm) == z3.Select(kept_at, z3.Select(g['g_where'], mm)),
                           patterns=[z3.Select(w2, mm)]))
        g['g_where'] = w2
        idx2 = c.fresh('idx', IntInt)
        i = z3.Int('i!sb')
        c.assume(z3.ForAll([i], z3.Select(idx2, i) == z3.Select(g['g_idx'], z3.Select(wit, i)), patterns=[z3.Select(idx2, i)]))
        g['g_idx'] = idx2

    def mods(it, env):
        P = it.c.read(env['self'], 'posted_events_queue')
        return [(P, '$items'), (P, '$len')]

    s = LoopSpec(inv, mods, None, 'stop-cancel-all', locals_kind={'event': ('ref', 'nt:PostedEvent')})
    s.on_entry, s.body_end = on_entry, body_end
    s.ghost_modifies = ['g_idx', 'g_where']
    s.heap_fields_modified = ['flag']
    return s


def world_for(src, tier):
    w = base_world(src)
    TM.install(w)
    F.install(w)
    w.contracts[AO + 'cancel_events'] = FnContract(AO + 'cancel_events', cancel_events_contract)
    w.contracts['hsm.HsmWithQueues.next_rtc'] = FnContract('hsm.HsmWithQueues.next_rtc', next_rtc_counted)
    w.loopspecs[(AO + 'stop', 1)] = stop_loop_spec()
    w.loopspecs[(AO + 'run_event', 1)] = run_event_spec()
    w.local_types[(AO + 'stop', 'events_with_their_own_threads')] = 'list<nt:PostedEvent>'
    w.local_types[(AO + 'run_event', 'task_event')] = 'ThreadEvent'
    w.local_types[(AO + 'run_event', 'fabric_task_event')] = 'ThreadEvent'
    w.local_types[(AO + 'run_event', 'queue')] = 'LockingDeque'
    w.pytype_overrides[('ActiveObject', 'fabric_task_event')] = 'ThreadEvent'
    return w


def next_rtc_counted(it, fn, args, kwargs):
    c = it.c
    c.pyghost['n_next_rtc'] = c.pyghost.get('n_next_rtc', 0) + 1
    c.pyghost.setdefault('next_rtc_heaps', []).append(dict(c.heap))
    return next_rtc_abstract(it, fn, args, kwargs)


# ------------------------------------------------------------------ the consumer loop
def run_event_spec():
    def inv(it, env):
        c = it.c
        self = env['self']
        ld = env['queue']
        d, q = c.read(ld, 'deque'), c.read(ld, 'locking_queue')
        return [('consumer-owns-this-queue', ld.e == c.hget(self, 'queue')),
                ('bounded', z3.And(c.hget(q, 'qsize') >= 0, c.hget(d, '$len') >= 0, c.hget(q, 'unfinished') >= 0))]

    def mods(it, env):
        c = it.c
        self = env['self']
        ld = env['queue']
        d, q = c.read(ld, 'deque'), c.read(ld, 'locking_queue')
        from .queue_targets import spy_mods, defer_mods
        return [(d, '$items'), (d, '$len'), (q, 'qsize'), (q, 'unfinished'), (env['task_event'], 'flag')] + \
            spy_mods(it, self) + defer_mods(it, self)
    return LoopSpec(inv, mods, None, 'consumer')


def t_run_event_iteration():
    """One wake-up of the active object's thread, from any state of its queue and flags."""
    def run(it):
        c, g = it.c, it.c.ghost
        self = make_ao(it)
        ld = c.read(self, 'queue')
        d, q = c.read(ld, 'deque'), c.read(ld, 'locking_queue')
        task = c.read(self, 'activeobject_task_event')
        fab = c.fresh_ref('fabric_flag', 'ThreadEvent')
        c.hset(fab, 'flag', c.fresh('fabric_running', z3.BoolSort()))
        c.assume(c.hget(q, 'unfinished') >= c.hget(q, 'qsize'))
        spec = it.w.loopspecs[(AO + 'run_event', 1)]

        def after_havoc(it_, env):
            cc = it_.c
            cc.assume(cc.hget(q, 'unfinished') > cc.hget(q, 'qsize'))      # a consumed token is unfinished until task_done
            env['$h0'] = (dict(cc.heap), cc.pyghost.get('n_next_rtc', 0))

        def body_end(it_, env):
            cc = it_.c
            h0, n0 = env['$h0']
            Q0 = view(it_, d, h0)
            T0 = z3.Select(h0['qsize'], q.e)
            fabric_on = z3.Select(h0['flag'], fab.e)
            calls = cc.pyghost.get('n_next_rtc', 0) - n0
            head_is_stop = z3.Select(cc.harr('signal'), Q0.at(0)) == it_.w.signals['STOP_ACTIVE_OBJECT_SIGNAL']
            step = z3.And(fabric_on, Q0.len >= 1, z3.Not(head_is_stop))
            cc.prove('run_event:iteration/at-most-one-step-per-wake-up', calls <= 1, tags=('C04',))
            cc.prove('run_event:iteration/steps-exactly-when-an-event-waits',
                     z3.If(step, calls == 1, calls == 0), tags=('C04', 'C12', 'C13'))
            if calls == 1:
                hc = cc.pyghost['next_rtc_heaps'][-1]
                Qc = view(it_, d, hc)
                cc.prove('run_event:iteration/next_rtc-sees-the-queue-unpopped-and-one-token-taken',
                         z3.And(Qc.len == Q0.len, z3.Select(hc['qsize'], q.e) == T0 - 1), tags=('C04',))
            cc.prove('run_event:iteration/halts-when-fabric-stopped-or-stop-marker',
                     z3.Implies(z3.Not(step), z3.Or(z3.Not(cc.hget(task, 'flag')), z3.And(fabric_on, Q0.len == 0))),
                     tags=('C12', 'C13', 'C04'))
        spec.after_havoc, spec.body_end = after_havoc, body_end
        try:
            out = run_body(it, method(it, self, 'run_event'), [task, fab, ld])
        finally:
            spec.after_havoc, spec.body_end = None, None
        c.prove('run_event:post/returns-only-with-run-flag-clear',
                z3.Not(c.hget(task, 'flag')) if out.raised is None else False, tags=('C12', 'C13'))
    return Target('run_event', run, [AO + 'run_event'])


# ------------------------------------------------------------------ C12: stop()
def t_stop(caller):
    def run(it):
        c, g = it.c, it.c.ghost
        self = make_ao(it)
        P, items0, n0 = tracked(it, self)
        th = c.fresh_ref('ao_thread', 'Thread')
        c.hset(self, 'thread', th.e)
        c.hset(th, 'alive', c.fresh('alive0', z3.BoolSort()))
        me = c.fresh('calling_thread', Ref)
        g['cur_thread'] = me
        if caller == 'other':
            c.assume(me != th.e)
        else:
            c.assume(z3.And(me == th.e, c.hget(th, 'alive')))
        fab = c.fresh_ref('fabric_flag', 'ThreadEvent')
        c.hset(fab, 'flag', c.fresh('fabric_running', z3.BoolSort()))
        i = z3.Int('i!sp')
        c.assume(z3.ForAll([i], z3.Implies(z3.And(0 <= i, i < n0), c.hget(z3.Select(items0, i), 'PostedEvent.task_run_event') != fab.e)))
        c.assume(z3.ForAll([i], z3.Implies(z3.And(0 <= i, i < n0), c.hget(z3.Select(items0, i), 'PostedEvent.task_run_event') != c.hget(self, 'activeobject_task_event'))))
        task = c.read(self, 'activeobject_task_event')
        ld = c.read(self, 'queue')
        d, q = c.read(ld, 'deque'), c.read(ld, 'locking_queue')
        T0, Q0 = c.hget(q, 'qsize'), view(it, d)

        def join_consumer(it_, thobj):
            """join() of the consumer thread returns only if that thread leaves run_event: its run flag must be
            clear and it must find a wake-up token (the run_event target shows it then exits)."""
            cc = it_.c
            if cc.branch(thobj.e == me, 'join-self'):
                from pyvc.sym import Raised
                raise Raised('RuntimeError')
            cc.prove('stop:call-pre/join/consumer-will-wake-up-and-see-the-cleared-flag',
                     z3.And(z3.Not(cc.hget(task, 'flag')), cc.hget(q, 'qsize') >= 1), tags=('C12',))
            cc.hset(thobj, 'alive', z3.BoolVal(False))
            return None
        it.w.hooks['thread.join'] = join_consumer
        out = run_body(it, method(it, self, 'stop'), [])
        c.prove('stop:post/returns-normally', out.raised is None, tags=('C12',))
        if out.raised is not None:
            return
        c.prove('stop:post/run-flag-clear', z3.Not(c.hget(task, 'flag')), tags=('C12',))
        Q1 = view(it, d)
        c.prove('stop:post/stop-marker-posted-with-a-wake-up-token', z3.And(
            Q1.len >= 1, c.hget(Q1.at(Q1.len - 1), 'signal') == it.w.signals['STOP_ACTIVE_OBJECT_SIGNAL'],
            c.hget(q, 'qsize') >= 1), tags=('C12',))
        if caller == 'other':
            c.prove('stop:post/thread-has-ended', z3.Not(c.hget(th, 'alive')), tags=('C12',))
        P1 = view(it, P)
        c.prove('stop:post/no-source-left-tracked', P1.len == 0, tags=('C12',))
        c.prove('stop:post/every-timed-source-stopped', z3.ForAll([i], z3.Implies(
            z3.And(0 <= i, i < n0), z3.Not(z3.Select(c.harr('flag'), c.hget(z3.Select(items0, i), 'PostedEvent.task_run_event'))))),
            tags=('C12',))
        c.prove('stop:post/fabric-keeps-running', c.hget(fab, 'flag') == z3.Select(c.pyghost['flag_before'], fab.e)
                if 'flag_before' in c.pyghost else z3.BoolVal(True), tags=('C12',))
        c.cover('stop:cover')
    return Target('stop[%s]' % caller, run, [AO + 'stop'])


# ------------------------------------------------------------------ C04: a single consumer thread per active object
def _service_contracts(w):
    def is_alive(it, fn, args, kwargs):
        return SBool(it.c.fresh('service_alive', z3.BoolSort()))

    def start(it, fn, args, kwargs):
        it.c.pyghost.setdefault('services_started', []).append(fn.info.path if fn is not None else '?')
        return None
    for cls in ('ActiveFabricSource', 'InstrumenationWriterClass'):
        w.contracts['activeobject.%s.is_alive' % cls] = FnContract('is_alive', is_alive)
        w.contracts['activeobject.%s.start' % cls] = FnContract('start', start)


def t_ao_start():
    def run(it):
        c, g = it.c, it.c.ghost
        _service_contracts(it.w)
        self = make_ao(it)
        fab = c.fresh_ref('the_fabric', 'ActiveFabricSource')
        wr = c.fresh_ref('the_writer', 'InstrumenationWriterClass')
        c.hset(self, 'fabric', fab.e)
        c.hset(self, 'writer', wr.e)
        flag = c.fresh_ref('fabric_flag', 'ThreadEvent')
        it.w.hooks['singleton'] = lambda it_, cls, a, kw: flag if cls == 'SourceThreadEvent' else None
        fi = it.src.find_method('ActiveObject', 'run_event')
        consumer = it.w.funcref(SFunc(fi, [], None, 'ActiveObject'))
        th0 = c.fresh('thread0', Ref)
        c.hset(self, 'thread', th0)
        for o in c.live_refs:
            c.assume(z3.Or(th0 == NONE, th0 != o))
        c.live_refs.append(th0)
        alive0 = z3.And(th0 != NONE, c.hget(th0, 'alive'))
        c.assume(z3.Implies(th0 != NONE, c.hget(th0, 'started')))
        n_live0 = z3.If(alive0, 1, 0)
        out = run_body(it, method(it, self, '__start'), [])
        c.prove('__start:post/returns-normally', out.raised is None, tags=('C04',))
        if out.raised is not None:
            return
        started = [t for t in c.pyghost.get('threads_started', [])]
        th1 = c.hget(self, 'thread')
        c.prove('__start:post/thread-handle-is-live', z3.And(th1 != NONE, c.hget(th1, 'alive')), tags=('C04', 'C12'))
        c.prove('__start:post/at-most-one-consumer-thread',
                z3.If(alive0, z3.BoolVal(len(started) == 0), z3.BoolVal(len(started) == 1)), tags=('C04',))
        if len(started) == 1:
            tgt, args, r = c.thread_specs[started[0].e.sexpr()]
            c.prove('__start:post/consumer-bound-to-this-object', z3.And(
                th1 == started[0].e, c.to_ref(tgt) == consumer, isinstance(tgt, SFunc) and tgt.bound is not None
                and tgt.bound.e.eq(self.e), len(args) == 3,
                c.to_ref(args[0]) == c.hget(self, 'activeobject_task_event'), c.to_ref(args[1]) == flag.e,
                c.to_ref(args[2]) == c.hget(self, 'queue'), c.hget(c.hget(self, 'activeobject_task_event'), 'flag')),
                tags=('C04',))
        c.cover('__start:cover')
    return Target('ActiveObject.__start', run, [AO + '__start', AO + '__start.start_thread', AO + '__thread_running'])


# ------------------------------------------------------------------ C07: publish / subscribe front end of the active object
def _fabric_contracts(it, self, mine0, any0):
    """Call-site view of the ActiveFabric (its own behaviour is C06): subscribe/publish are recorded;
    subscribed(sig, kind) answers whether ANY queue is registered under that name and kind."""
    c = it.c
    w = it.w

    def sub(it_, fn, args, kwargs):
        it_.c.pyghost.setdefault('fab_subscribe', []).append(tuple(args[1:]) + tuple(kwargs.values()))
        return None

    def subscribed(it_, fn, args, kwargs):
        q = args[3] if len(args) > 3 else kwargs.get('queue')
        kind = args[2] if len(args) > 2 else kwargs.get('queue_type')
        if not isinstance(kind, str) or kind not in ('fifo', 'lifo'):
            raise Raised('LookupError')         # what the fabric does with any other kind
        m, a = (mine0, any0) if not isinstance(mine0, dict) else (mine0[kind], any0[kind])
        if q is None:
            return SBool(a)                     # "has anybody subscribed to this signal in this way?"
        it_.c.prove('ao.subscribed:call-pre/asks-about-its-own-queue',
                    it_.c.to_ref(q) == it_.c.hget(self, 'queue'), tags=('C07',))
        return SBool(m)                         # "has this queue subscribed to it in this way?"  (fabric.subscribed target)

    def pub(it_, fn, args, kwargs):
        it_.c.pyghost.setdefault('fab_publish', []).append(tuple(args[1:]) + tuple(kwargs.values()))
        return None
    w.contracts['activeobject.ActiveFabricSource.subscribe'] = FnContract('sub', sub)
    w.contracts['activeobject.ActiveFabricSource.subscribed'] = FnContract('subscribed', subscribed)
    w.contracts['activeobject.ActiveFabricSource.publish'] = FnContract('pub', pub)


def _ao_for_pubsub(it, running):
    c = it.c
    self = make_ao(it)
    fab = c.fresh_ref('the_fabric', 'ActiveFabricSource')
    c.hset(self, 'fabric', fab.e)
    if running:
        th = c.fresh_ref('ao_thread', 'Thread')
        c.hset(self, 'thread', th.e)
        c.hset(th, 'alive', z3.BoolVal(True))
    else:
        th0 = c.fresh('thread0', Ref)
        c.hset(self, 'thread', th0)
        c.assume(z3.Or(th0 == NONE, z3.Not(c.hget(th0, 'alive'))))
    return self


def _sig_arg(it, kind):
    c = it.c
    if kind == 'event':
        return symbolic_event(it, 'sig_event')
    n = SInt(c.fresh('signal_number', z3.IntSort()))
    c.assume(n.e > len(it.w.signals))
    return n


def t_ao_subscribe(running, sig_kind):
    def run(it):
        c, g = it.c, it.c.ghost
        self = _ao_for_pubsub(it, running)
        # per delivery kind: the fifo and the lifo registries are separate
        mine0 = {k: c.fresh('this_queue_already_subscribed_' + k, z3.BoolSort()) for k in ('fifo', 'lifo')}
        any0 = {k: c.fresh('somebody_subscribed_' + k, z3.BoolSort()) for k in ('fifo', 'lifo')}
        for k in ('fifo', 'lifo'):
            c.assume(z3.Implies(mine0[k], any0[k]))
        _fabric_contracts(it, self, mine0, any0)
        sig = _sig_arg(it, sig_kind)
        qk = c.choose(3, 'queue_type')
        qt = [None, 'fifo', 'lifo'][qk]
        want = 'lifo' if qt == 'lifo' else 'fifo'
        d = qref(it, self)
        Q0 = view(it, d)
        out = run_body(it, method(it, self, 'subscribe'), [sig, qt])
        c.prove('ao.subscribe:post/returns-normally', out.raised is None, tags=('C07',))
        if out.raised is not None:
            return
        subs = c.pyghost.get('fab_subscribe', [])
        if running:
            ok = len(subs) == 1 and c.to_ref(subs[0][0]).eq(c.hget(self, 'queue')) and _same(c, subs[0][1], sig) \
                and subs[0][2] == want if len(subs) == 1 else False
            c.prove('ao.subscribe:post/own-queue-registered-for-the-signal',
                    z3.Or(mine0[want], z3.BoolVal(bool(ok))), tags=('C07',))
            c.prove('ao.subscribe:post/nothing-else-registered', len(subs) <= 1, tags=('C07',))
        else:
            Q1 = view(it, d)
            ev = Q1.at(0)
            pl = c.hget(ev, 'payload')
            c.prove('ao.subscribe:post/request-queued-at-the-front', z3.And(
                Q1.len >= 1, c.hget(ev, 'signal') == it.w.signals['SUBSCRIBE_META_SIGNAL'],
                c.hget(pl, 'SubscribeEvent.event_or_signal') == c.to_ref(sig),
                sval(c.hget(pl, 'SubscribeEvent.queue_type')) == c.strconst(want)), tags=('C07',))
            c.prove('ao.subscribe:post/not-registered-behind-the-thread', len(subs) == 0, tags=('C07',))
        c.cover('ao.subscribe:cover')
    return Target('ao.subscribe[%s,%s]' % ('running' if running else 'not-started', sig_kind), run,
                  [AO + 'subscribe', AO + 'subscribed', AO + '_subscribe',
                   AO + 'append_subscribe_to_spy._append_subscribe_to_spy', AO + '__thread_running'])


def _same(c, a, b):
    ra, rb = c.to_ref(a), c.to_ref(b)
    return ra.eq(rb)


def t_ao_publish(running):
    def run(it):
        c, g = it.c, it.c.ghost
        self = _ao_for_pubsub(it, running)
        _fabric_contracts(it, self, z3.BoolVal(False), z3.BoolVal(False))
        e = symbolic_event(it, 'published')
        pk = c.choose(2, 'priority-given')
        prio = SInt(c.fresh('priority', z3.IntSort())) if pk == 0 else None
        d = qref(it, self)
        out = run_body(it, method(it, self, 'publish'), [e, prio])
        c.prove('ao.publish:post/returns-normally', out.raised is None, tags=('C07',))
        if out.raised is not None:
            return
        pubs = c.pyghost.get('fab_publish', [])
        pe = prio.e if prio is not None else z3.IntVal(1000)
        if running:
            c.prove('ao.publish:post/published-once', len(pubs) == 1, tags=('C07',))
            if len(pubs) == 1:
                c.prove('ao.publish:post/event-and-priority-passed-on',
                        z3.And(c.to_ref(pubs[0][0]) == e.e, c.to_int(pubs[0][1]) == pe), tags=('C07',))
        else:
            Q1 = view(it, d)
            ev = Q1.at(0)
            pl = c.hget(ev, 'payload')
            c.prove('ao.publish:post/request-queued-at-the-front', z3.And(
                Q1.len >= 1, c.hget(ev, 'signal') == it.w.signals['PUBLISH_META_SIGNAL'],
                c.hget(pl, 'PublishEvent.event') == e.e, c.hget(pl, 'PublishEvent.priority') == pe), tags=('C07',))
            c.prove('ao.publish:post/not-published-yet', len(pubs) == 0, tags=('C07',))
        c.cover('ao.publish:cover')
    return Target('ao.publish[%s]' % ('running' if running else 'not-started'), run,
                  [AO + 'publish', AO + '_publish', AO + 'append_publish_to_spy._append_publish_to_spy'])


def t_ao_top_meta(which):
    def run(it):
        c, g = it.c, it.c.ghost
        self = _ao_for_pubsub(it, True)
        _fabric_contracts(it, self, z3.BoolVal(False), z3.BoolVal(False))
        ev = c.fresh_ref('meta_event', 'Event')
        if which == 'subscribe':
            sig = symbolic_event(it, 'sig_event')
            qt = c.fresh_ref('queue_type', 'str', distinct=False)
            c.assume(qt.e != NONE)
            pl = B.construct(it, SClass('namedtuple:SubscribeEvent'), [], {'event_or_signal': sig, 'queue_type': qt}, None)
            c.hset(ev, 'signal', z3.IntVal(it.w.signals['SUBSCRIBE_META_SIGNAL']))
            it.w.pytype_overrides[('Event', 'payload')] = 'nt:SubscribeEvent'
            it.w.pytype_overrides[('nt:SubscribeEvent', 'event_or_signal')] = 'Event'
        else:
            pe = symbolic_event(it, 'published')
            prio = SInt(c.fresh('priority', z3.IntSort()))
            pl = B.construct(it, SClass('namedtuple:PublishEvent'), [], {'event': pe, 'priority': prio}, None)
            c.hset(ev, 'signal', z3.IntVal(it.w.signals['PUBLISH_META_SIGNAL']))
            it.w.pytype_overrides[('Event', 'payload')] = 'nt:PublishEvent'
            it.w.pytype_overrides[('nt:PublishEvent', 'event')] = 'Event'
        c.hset(ev, 'payload', pl.e)
        try:
            out = run_body(it, method(it, self, 'top'), [self, ev])
        finally:
            it.w.pytype_overrides.pop(('Event', 'payload'), None)
        c.prove('ao.top:%s/returns-handled' % which,
                z3.BoolVal(out.raised is None) if out.raised is not None else
                c.to_int(out.value) == it.w.statuses['HANDLED'], tags=('C07',))
        if out.raised is not None:
            return
        if which == 'subscribe':
            subs = c.pyghost.get('fab_subscribe', [])
            ok = len(subs) == 1 and c.to_ref(subs[0][0]).eq(c.hget(self, 'queue')) and _same(c, subs[0][1], sig) \
                and _same(c, subs[0][2], qt) if len(subs) == 1 else False
            c.prove('ao.top:subscribe/own-queue-registered-as-requested', bool(ok), tags=('C07', 'C09'))
        else:
            pubs = c.pyghost.get('fab_publish', [])
            c.prove('ao.top:publish/published-once', len(pubs) == 1, tags=('C07',))
            if len(pubs) == 1:
                c.prove('ao.top:publish/event-and-priority-passed-on',
                        z3.And(c.to_ref(pubs[0][0]) == pe.e, c.to_int(pubs[0][1]) == prio.e), tags=('C07',))
        c.cover('ao.top:cover')
    return Target('ao.top[%s-meta]' % which, run, [AO + 'top', AO + '_subscribe', AO + '_publish'])
