"""C18 - instrumentation never changes chart behaviour."""
from . import instr_targets as I

LEVEL = 'proof'
TAGS = ('C18', 'defined', 'idle', 'C22')
TRUSTED = I.COMMON_TRUSTED
ASSUMPTIONS = ['a step produces fewer lines than the ring buffers hold',
               'decoration is uniform: either every state function of a chart carries @spy_on or none does (a chart whose '
               'start state is decorated while its current state is not is outside this claim: there the REFLECTION probe '
               'of the trace wrapper moves temp.fun, observed natively on the unmodified tree, see DESIGN 11.7)']
EXPLANATION = 'A relational (two-run) property reduced to a per-wrapper transparency contract: the wrapped callable runs exactly once with the same arguments, its result is returned unchanged, only instrumentation fields are written, extra handler invocations use REFLECTION_SIGNAL only on handlers that answer it themselves, no definedness failure on any host.  Wrappers: _spy_on on all four hosts and all seven event kinds, the dispatch and start_at stacks of the instrumented hosts, the live-output wrappers, ActiveObject.start_at for decorated and undecorated start states.  A stack of transparent wrappers around the core is observationally the core on the non-instrumentation state.'
MIN_OBLIGATIONS = 10


def build(src, tier):
    out = I.family(src, tier)
    # guards written with is_in / child_state must answer alike on decorated and undecorated charts: the queries on
    # spy-decorated charts (their answers against the tree, the chart left unchanged) are part of this property
    from . import core_targets as K
    ws = K.world_for(src, tier, spied=True)
    out += [(ws, [K.t_query_spied('is_in'), K.t_query_spied('child_state')])]
    return out
