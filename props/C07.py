"""C07 - active-object publish/subscribe works in every configuration."""
from . import ao_targets as A
from . import fabric_targets as FT

LEVEL = 'proof'
TAGS = ('C07', 'C06')
TRUSTED = ['ActiveFabric.subscribe/publish/subscribed contracts (the fabric itself is C06): subscribed(sig, kind) answers '
           'whether ANY queue is registered under that name', 'LockingDeque.appendleft contract (C16)',
           'Event.__init__ contract (C25)']
ASSUMPTIONS = ['"thread running" is read once per call (a thread ending between the test and the action is a schedule question)']
EXPLANATION = ('subscribe / publish / top (SUBSCRIBE_META, PUBLISH_META) / _subscribe / _publish with their spy wrappers '
               'are executed for instrumented and un-instrumented objects, running and not-yet-started threads, event or '
               'signal-number arguments, every queue_type, and arbitrary prior registry contents (two free booleans: this '
               'queue already subscribed; somebody subscribed).  Running: the object\'s own queue must end up registered; '
               'not running: a META event carrying the request must be at the front of the queue, and top must carry it out.')
MIN_OBLIGATIONS = 20


def build(src, tier):
    w = A.world_for(src, tier)
    ts = []
    for running in (True, False):
        for k in ('event', 'int'):
            ts.append(A.t_ao_subscribe(running, k))
        ts.append(A.t_ao_publish(running))
    ts += [A.t_ao_top_meta('subscribe'), A.t_ao_top_meta('publish')]
    wf = FT.world_for(src, tier)
    # "publish reaches every subscriber" rests on the fabric's own contracts: their obligations are part of this check
    return [(w, ts), (wf, [FT.t_fabric_subscribed(), FT.t_publish(), FT.t_subscribe('event', 'sym'), FT.t_subscribe('int', 'lifo'),
                           FT.t_runner_iteration('fifo'), FT.t_runner_iteration('lifo')])]
