"""C02 - events bubble outward; handled or ignored events change nothing."""
from . import core_targets as K

LEVEL = 'proof'
TAGS = ('C02', 'tree', 'wf', 'idle')
TRUSTED = ['abstract handler contract = definition of a well-formed chart (DESIGN 5.2)',
           'induction over depth for the tree lemmas (each lemma is a discharged obligation)',
           'Event.__init__ contract (proved under C25)']
ASSUMPTIONS = ['Inv_idle (temp.fun == state.fun between public calls) is what every operation assumes; its '
               'preservation by start_at, dispatch, is_in and child_state is checked here too (tag idle)',
               'state functions obey the handler contract (that is the input domain of the property)']
EXPLANATION = ('The offer protocol is ghost state of the handler contract: every offer must go to the next enclosing '
               'state of the active path, a declining state receives exactly one EMPTY_SIGNAL before the next offer, '
               'nothing is offered after an answer.  The postcondition of dispatch: without a transition no entry, '
               'exit or init action ran, the state is unchanged and event.ignored tells whether top answered.')
MIN_OBLIGATIONS = 30


def build(src, tier):
    w = K.world_for(src, tier)
    # charts built from state_method_template: the template handler names the registered parent of ITS chart exactly
    # when nothing answers, and the two registries are per chart (the rest of the template property is C17)
    from . import template_targets as TT
    wt = TT.world_for(src, tier)
    tts = [TT.t_template(k) for k in TT.KINDS] + [TT.t_register_signal_callback(f) for f in (True, False)] + \
          [TT.t_register_parent(f) for f in (True, False)]
    return [(w, [K.t_tree_lemmas(), K.t_dispatch(), K.t_top(), K.t_is_in(), K.t_child_state(), K.t_start_at()]),
            (wt, tts)]
