#!/usr/bin/env python3
"""Mutation self-test: apply each corpus edit to a scratch copy of /repo/miros (outside /repo and /verif, removed
afterwards) and run the listed checks with MIROS_REPO.  `break` edits must be reported (exit 1), `keep` edits
(behaviour preserving) must still verify (exit 0).   usage: run.py [filter] [-j N]"""
import json, os, shutil, subprocess, sys, tempfile
from concurrent.futures import ThreadPoolExecutor

ROOT = os.path.dirname(os.path.dirname(os.path.abspath(__file__)))
corpus = json.load(open(os.path.join(ROOT, 'selftest', 'corpus.json')))
flt = [a for a in sys.argv[1:] if not a.startswith('-')]
jobs = 4
for a in sys.argv[1:]:
    if a.startswith('-j'):
        jobs = int(a[2:])


def one(m):
    d = tempfile.mkdtemp(prefix='selftest_', dir='/tmp')
    try:
        shutil.copytree('/repo/miros', os.path.join(d, 'miros'), ignore=shutil.ignore_patterns('__pycache__'))
        p = os.path.join(d, 'miros', m['file'])
        s = open(p).read()
        if s.count(m['old']) < 1:
            return m, 'STALE', 'old text not found'
        open(p, 'w').write(s.replace(m['old'], m['new'], 1))
        r = subprocess.run(['/venv/bin/python', '-c', 'import sys; sys.path.insert(0, %r); import miros' % d],
                           capture_output=True, text=True)
        if r.returncode != 0:
            return m, 'NOIMPORT', r.stderr[-200:]
        out = []
        verdict = 'OK'
        for pr in m['props']:
            env = dict(os.environ, MIROS_REPO=d, PYVC_PROCS='6')
            r = subprocess.run([os.path.join(ROOT, 'check'), pr], capture_output=True, text=True, env=env)
            v = [l for l in r.stdout.splitlines() if l.startswith(('VIOLATION', 'UNDECIDED', 'CHECKER'))]
            out.append('%s exit %d %s' % (pr, r.returncode, (v[0][:150] if v else '')))
            want = 1 if m['kind'] == 'break' else 0
            if r.returncode != want:
                verdict = 'MISSED' if m['kind'] == 'break' else 'FALSE-ALARM'
        return m, verdict, '; '.join(out)
    finally:
        shutil.rmtree(d, ignore_errors=True)


sel = [m for m in corpus if not flt or any(f in m['id'] or f in m['props'] for f in flt)]
bad = 0
with ThreadPoolExecutor(jobs) as ex:
    for m, verdict, detail in ex.map(one, sel):
        print('%-11s %-34s %s' % (verdict, m['id'], detail))
        if verdict != 'OK':
            bad += 1
print('%d edits, %d not as expected' % (len(sel), bad))
sys.exit(1 if bad else 0)
