"""C02 native oracle: generated charts on the real HsmEventProcessor against reference UML semantics
(with is_in / child_state queries between steps where the idle invariant is concerned)."""
from replay.common import main
from replay import charts

ASPECTS = {'C01': ('actions', 'state'), 'C02': ('offers', 'state', 'actions', 'ignored'), 'C03': ('actions', 'state'),
           'C22': ('actions', 'state', 'offers')}['C02']


def template_scenarios(seed, tier):
    """charts built from state_method_template (incl. reactions registered after the chart has run)"""
    from replay import C17
    n = 0
    for sc in C17.scenarios(seed, tier, []):
        if sc.get('build') in ('template', 'all') and n < (60 if tier == 'quick' else 2000):
            n += 1
            yield dict(sc, build='template')


def scenarios(seed, tier, failed):
    for sc in template_scenarios(seed, tier):
        yield sc
    import random
    rnd = random.Random(seed + 303)
    for k, sc in enumerate(charts.standard_scenarios(seed, tier, with_queries=('C02' != 'C03'))):
        if k % 9 == 4:
            # a state that carries the same __name__ as one of its ancestors (distinct functions)
            n = len(sc['parent'])
            pairs = [(s_, a) for s_ in range(n) for a in charts.ancestors(sc['parent'], s_)[1:] if a != -1]
            if pairs:
                s_, a = rnd.choice(pairs)
                sc['same_name_as'] = {str(s_): a}
        if 'C02' == 'C03':
            sc['events'] = []
        yield sc


def run(sc):
    if sc.get('kind') == 'c17':
        from replay import C17
        ok, detail = C17.run_(sc)
        return ok, detail, ('template' if not ok else '*')
    ok, detail, key = charts.run_and_check(sc, ASPECTS)
    if 'C02' == 'C03' and key == 'dispatch':
        return True, ''
    if 'C02' in ('C01', 'C02') and key == 'start_at':
        return True, ''
    return ok, detail


if __name__ == '__main__':
    main('C02', scenarios, run)
