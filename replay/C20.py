"""C20 native oracle: see replay/instr.py."""
from replay.common import main
from replay import instr


def run_ao_meta(sc):
    """an active object that subscribes / publishes before it is started: those requests are handled by its top state
    in steps of their own, which are not transitions"""
    import time
    from miros.activeobject import ActiveObject
    from miros.hsm import spy_on
    from miros.event import signals, Event, return_status

    @spy_on
    def only(chart, e):
        if e.signal in (signals.ENTRY_SIGNAL, signals.INIT_SIGNAL, signals.EXIT_SIGNAL):
            return return_status.HANDLED
        chart.temp.fun = chart.top
        return return_status.SUPER
    ao = ActiveObject('c20meta')
    try:
        if sc['what'] in ('subscribe', 'both'):
            ao.subscribe(Event(signal='C20_NEWS'))
        if sc['what'] in ('publish', 'both'):
            ao.publish(Event(signal='C20_OTHER'))
        ao.start_at(only)
        time.sleep(0.25)
        got = [(t.start_state, t.signal, t.end_state) for t in ao.full.trace]
        if got != [('top', None, 'only')]:
            return False, 'requests made before start_at (%s) left the trace %s, expected only the start record' % (
                sc['what'], got), 'trace'
        return True, ''
    finally:
        try:
            ao.stop()
        except Exception:
            pass


def run_defer_in_actions(sc):
    """entry / exit actions that run as part of a transition defer (or post) an event of another name: the record of
    the step names the event that caused the transition"""
    from miros.hsm import HsmWithQueues, spy_on
    from miros.event import signals, Event, return_status
    op = sc['op']

    def side_effect(chart, name):
        ev = Event(signal=name)
        getattr(chart, op)(ev)

    @spy_on
    def waiting(chart, e):
        if e.signal == signals.ENTRY_SIGNAL or e.signal == signals.INIT_SIGNAL:
            return return_status.HANDLED
        if e.signal == signals.EXIT_SIGNAL:
            side_effect(chart, 'C20_CLEANUP')
            return return_status.HANDLED
        if e.signal == signals.C20_GO:
            return chart.trans(working)
        chart.temp.fun = chart.top
        return return_status.SUPER

    @spy_on
    def working(chart, e):
        if e.signal == signals.ENTRY_SIGNAL:
            side_effect(chart, 'C20_RETRY')
            return return_status.HANDLED
        if e.signal in (signals.INIT_SIGNAL, signals.EXIT_SIGNAL):
            return return_status.HANDLED
        if e.signal == signals.C20_DONE:
            return chart.trans(waiting)
        if e.signal in (signals.C20_RETRY, signals.C20_CLEANUP):
            return return_status.HANDLED
        chart.temp.fun = chart.top
        return return_status.SUPER
    chart = HsmWithQueues()
    chart.start_at(waiting)
    n0 = len(chart.full.trace)
    chart.dispatch(Event(signal=signals.C20_GO))
    new = [(t.start_state, t.signal, t.end_state) for t in list(chart.full.trace)[n0:]]
    if new != [('waiting', 'C20_GO', 'working')]:
        return False, 'C20_GO waiting->working whose exit/entry actions %s other events left the records %s' % (op, new), 'trace'
    return True, ''


def scenarios(seed, tier, failed):
    for what in ('subscribe', 'publish', 'both'):
        yield {'kind': 'ao-meta', 'what': what, 'timeout': 20}
    for op in ('defer', 'post_fifo', 'post_lifo'):
        yield {'kind': 'defer-in-actions', 'op': op, 'timeout': 20}
    # long runs: more lines / records than the ring buffers hold, also after clear_spy() / clear_trace()
    for clear in (False, True):
        yield {'kind': 'chart', 'parent': [-1, 0, 0], 'init': [None, None, None], 'start': 1, 'host': 'HsmWithQueues',
               'react': {'0': {'S2': ['handled', None]}, '1': {'S0': ['tran', 2], 'S1': ['handled', None]}, '2': {'S0': ['tran', 1]}},
               'events': (['S0'] * 5 + ['S1', 'S2']) * 110, 'spy': True, 'live_spy': False, 'live_trace': False,
               'coarse_clock': False, 'exit_handled': [True] * 3, 'entry_handled': [True] * 3, 'timeout': 90,
               'clear_after_start': clear}
    for k, sc in enumerate(instr.scenarios(seed, tier, failed, live=False)):
        if k % 5 == 2:
            sc['post_before_start'] = True
        yield sc


def run(sc):
    if sc.get('kind') == 'ao-meta':
        return run_ao_meta(sc)
    if sc.get('kind') == 'defer-in-actions':
        return run_defer_in_actions(sc)
    return instr.run_c20(sc)


if __name__ == '__main__':
    main('C20', scenarios, run, budget_s=120)
