"""C20 native oracle: see replay/instr.py."""
from replay.common import main
from replay import instr


def scenarios(seed, tier, failed):
    return instr.scenarios(seed, tier, failed, live=('C20' == 'C21'))


def run(sc):
    return instr.run_c20(sc)


if __name__ == '__main__':
    main('C20', scenarios, run, budget_s=120)
