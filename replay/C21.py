"""C21 native oracle: see replay/instr.py."""
from replay.common import main
from replay import instr


def scenarios(seed, tier, failed):
    # a run long enough to saturate the trace ring buffer, on both clocks
    for coarse in (True, False):
        yield {'kind': 'chart', 'parent': [-1, 0, 0], 'init': [None, None, None], 'start': 1, 'host': 'HsmWithQueues',
               'react': {'0': {}, '1': {'S0': ['tran', 2], 'S1': ['handled', None]}, '2': {'S0': ['tran', 1]}},
               'events': (['S0'] * 6 + ['S1']) * 100, 'spy': True, 'live_spy': False, 'live_trace': True,
               'coarse_clock': coarse, 'exit_handled': [True] * 3, 'entry_handled': [True] * 3, 'timeout': 60}
    for k, sc in enumerate(instr.scenarios(seed, tier, failed, live=True)):
        if k % 4 == 0 and sc['live_spy']:
            sc['callback_scribbles'] = True
        yield sc


def run(sc):
    return instr.run_c21(sc)


if __name__ == '__main__':
    main('C21', scenarios, run, budget_s=120)
