"""C21 native oracle: see replay/instr.py."""
from replay.common import main
from replay import instr


def scenarios(seed, tier, failed):
    yield {'kind': 'writer-backlog', 'lines': 1200, 'timeout': 20}
    # a run long enough to saturate the trace ring buffer, on both clocks
    for coarse in (True, False):
        yield {'kind': 'chart', 'parent': [-1, 0, 0], 'init': [None, None, None], 'start': 1, 'host': 'HsmWithQueues',
               'react': {'0': {}, '1': {'S0': ['tran', 2], 'S1': ['handled', None]}, '2': {'S0': ['tran', 1]}},
               'events': (['S0'] * 6 + ['S1']) * 100, 'spy': True, 'live_spy': False, 'live_trace': True,
               'coarse_clock': coarse, 'exit_handled': [True] * 3, 'entry_handled': [True] * 3, 'timeout': 60}
    for k, sc in enumerate(instr.scenarios(seed, tier, failed, live=True)):
        if k % 4 == 0 and sc['live_spy']:
            sc['callback_scribbles'] = True
        yield sc


def run_writer_backlog(sc):
    """The writer of an active object while its thread is not taking lines (a stalled callback): every line handed to
    _print is kept, in order, and the caller never waits."""
    import threading
    from miros.activeobject import InstrumenationWriterClass
    wr = InstrumenationWriterClass()
    got = []
    done = threading.Event()

    def feed():
        for i in range(sc['lines']):
            wr._print(fn=got.append, content=i)
        done.set()
    t = threading.Thread(target=feed, daemon=True)
    t.start()
    if not done.wait(5):
        return False, '_print blocked the calling thread after %d lines were handed over' % wr._queue.qsize(), 'writer.'
    items = []
    while not wr._queue.empty():
        items.append(wr._queue.get_nowait().content)
    if items != list(range(sc['lines'])):
        return False, '%d lines handed to the writer while its thread was not taking any, %d kept' % (
            sc['lines'], len(items)), 'writer.'
    return True, ''


def run(sc):
    if sc.get('kind') == 'writer-backlog':
        return run_writer_backlog(sc)
    return instr.run_c21(sc)


if __name__ == '__main__':
    main('C21', scenarios, run, budget_s=120)
