"""C13 native oracle: histories of start/stop/clear/probe on the real ActiveFabric."""
import itertools
import random
import threading
import time
from collections import deque

from replay.common import main

OPS = ['start', 'stop', 'clear', 'probe']
# 'backlog': three publications for a slow subscriber are still waiting when the next operation runs
_n = [0]


def scenarios(seed, tier, failed):
    for n in range(1, 5):
        for ops in itertools.product(OPS, repeat=n):
            if 'start' in ops:
                yield {'kind': 'fabric', 'ops': list(ops), 'timeout': 30}
    yield {'kind': 'fabric', 'ops': ['start', 'backlog', 'stop', 'start', 'probe'], 'timeout': 30}
    yield {'kind': 'fabric', 'ops': ['start', 'backlog', 'stop'], 'timeout': 30}
    rnd = random.Random(seed)
    for _ in range(200 if tier == 'quick' else 3000):
        yield {'kind': 'fabric', 'ops': [rnd.choice(OPS) for _ in range(rnd.randint(4, 9))], 'timeout': 30}


def live(kind):
    return [t for t in threading.enumerate() if t.name == '%s active fabric' % kind and t.is_alive()]


def cleanup(af):
    """Stop the fabric; delivery threads whose handle was lost are woken through the queue they hold."""
    from miros.activeobject import FabricEvent
    from miros.event import Event, signals
    af.fabric_task_event.clear()
    for kind in ('fifo', 'lifo'):
        for t in live(kind):
            try:
                t._args[1].put(FabricEvent(Event(signal=signals.STOP_FABRIC_SIGNAL), priority=1))
            except Exception:
                pass
            t.join(1.0)
        setattr(af, kind + '_thread', None)
    af.clear()


def run(sc):
    from miros.activeobject import ActiveFabric
    from miros.event import Event, signals
    af = ActiveFabric()
    cleanup(af)
    time.sleep(0.01)
    running = False
    try:
        for i, op in enumerate(sc['ops']):
            if op == 'start':
                af.start()
                running = True
            elif op == 'stop':
                err = []

                def do_stop():
                    try:
                        af.stop()
                    except BaseException as ex:
                        err.append(repr(ex))
                th = threading.Thread(target=do_stop, daemon=True)
                th.start()
                th.join(3.0)
                if err:
                    return False, 'step %d: stop() raised %s after %s' % (i, err[0], sc['ops'][:i]), 'stop:'
                if th.is_alive():
                    return False, 'step %d: stop() does not return after %s (delivery threads wait on queues the fabric no longer holds)' % (i, sc['ops'][:i]), 'clear:'
                running = False
            elif op == 'backlog' and running:
                class Slow(deque):
                    def append(self, x):
                        time.sleep(0.15)
                        deque.append(self, x)
                _n[0] += 1
                nm = 'BACKLOG_%d' % _n[0]
                af.subscribe(Slow(maxlen=10), Event(signal=nm))
                for _ in range(3):
                    af.publish(Event(signal=nm))
                time.sleep(0.02)
                continue
            elif op == 'clear':
                af.clear()
            elif op == 'probe' and running:
                _n[0] += 1
                name = 'PROBE_%d' % _n[0]
                q, other = deque(maxlen=10), deque(maxlen=10)
                af.subscribe(q, Event(signal=name))
                af.subscribe(other, Event(signal=name + '_OTHER'))
                af.publish(Event(signal=name))
                t0 = time.time()
                while len(q) == 0 and time.time() - t0 < 0.5:
                    time.sleep(0.005)
                time.sleep(0.02)
                if len(q) != 1:
                    return False, 'step %d: publication after %s delivered %d times to its subscriber' % (
                        i, sc['ops'][:i], len(q)), 'clear:' if 'clear' in sc['ops'][:i] else 'start:'
                if len(other) != 0:
                    return False, 'step %d: delivered to a queue that did not subscribe' % i, 'deliver'
            time.sleep(0.005)
            for kind in ('fifo', 'lifo'):
                n = len(live(kind))
                if n > 1:
                    return False, 'step %d %s: %d live %s delivery threads' % (i, op, n, kind), 'start:'
                h = getattr(af, kind + '_thread')
                if running and (n != 1 or h is None or not h.is_alive()):
                    return False, 'step %d %s: fabric started but %s handle=%r, %d live threads' % (i, op, kind, h, n), 'start:'
                if not running and n != 0:
                    return False, 'step %d %s: fabric stopped but %d %s threads live' % (i, op, n, kind), 'stop:'
            if af.is_alive() != running:
                return False, 'step %d %s: is_alive()=%s but delivery threads running=%s' % (i, op, af.is_alive(), running), \
                    'is_alive:' if op != 'start' else 'start:'
        return True, ''
    finally:
        cleanup(af)


if __name__ == '__main__':
    main('C13', scenarios, run)
