"""C28 native oracle: run one statement that uses a thread-safe attribute (from a real source file, so that the
attribute can read its source line) and check from another thread that the attribute's lock is free afterwards."""
import importlib.util
import os
import sys
import tempfile
import threading

from replay.common import main

AUG = ['+', '-', '*', '/', '//', '%', '@', '&', '|', '^', '>>', '<<', '**']
CMP = ['==', '!=', '<', '<=', '>', '>=']


def catalogue():
    out = [('read/assignment', 'y = obj.x'), ('read/call-argument', 'y = abs(obj.x)'),
           ('read/subscript-store', 'd[k] = obj.x'), ('read/arithmetic', 'y = obj.x + 1'),
           ('read/two-reads', 'y = obj.x + obj.x'), ('read/keyword-argument', 'y = dict(a=obj.x)'),
           ('write/plain-assignment', 'obj.x = 5')]
    for kw in ('if', 'while', 'assert', 'return'):
        for op in CMP:
            body = {'if': 'if obj.x %s 3:\n        pass', 'while': 'while obj.x %s 3:\n        break',
                    'assert': 'assert obj.x %s 3 or True', 'return': 'return obj.x %s 3'}[kw] % op
            out.append(('read/%s-comparison %s' % (kw, op), body))
    for op in AUG:
        rhs = 'obj.x'
        out.append(('read/augmented-assignment-to-another-variable %s=' % op, 'y %s= %s' % (op, rhs)))
        out.append(('write/augmented-assignment-to-the-attribute %s=' % op, 'obj.x %s= 1' % op))
        out.append(('write/augmented-assignment-whose-right-side-reads-the-attribute %s=' % op, 'obj.x %s= obj.x' % op))
    out.append(('read/operator-inside-a-trailing-comment', 'y = obj.x  # later: obj.x += 1'))
    out.append(('read/operator-inside-a-string-literal', 'y = str("then obj.x += 1") + str(obj.x)'))
    out.append(('lock-request', '_, _lock = obj.x'))
    # two different thread-safe attributes on one source line
    out.append(('two-attributes/augmented-assignment-reads-another-attribute', 'obj.x += obj.y'))
    out.append(('two-attributes/assignment-from-another-attribute', 'obj.y = obj.x + 1'))
    out.append(('two-attributes/comparison', 'y = obj.x <= obj.y'))
    return out


def scenarios(seed, tier, failed):
    names = [f['name'] for f in failed]
    for fid, stmt in catalogue():
        if not names or any(('forms/' + fid) == n or n.endswith(':vc-generation') or 'forms/' not in n for n in names):
            yield {'kind': 'statement', 'form': fid, 'statement': stmt, 'timeout': 20}


def run(sc):
    from miros.thread_safe_attributes import MetaThreadSafeAttributes
    src = ('from miros.thread_safe_attributes import MetaThreadSafeAttributes\n'
           'class K(metaclass=MetaThreadSafeAttributes):\n    _attributes = ["x", "y"]\n'
           'class M:\n    def __matmul__(self, o): return 1\n    def __rmatmul__(self, o): return 1\n'
           'def go(obj):\n    y = 7\n    d = {}\n    k = 1\n    if "@" in %r:\n        y = M()\n    %s\n    return None\n'
           % (sc['statement'], sc['statement']))
    d = tempfile.mkdtemp(prefix='c28_')
    path = os.path.join(d, 'stmt_mod.py')
    with open(path, 'w') as f:
        f.write(src)
    try:
        spec = importlib.util.spec_from_file_location('stmt_mod_%d' % abs(hash(sc['statement'])), path)
        mod = importlib.util.module_from_spec(spec)
        spec.loader.exec_module(mod)
        obj = mod.K()
        obj.x = 2
        obj.y = 3
        if '@' in sc['statement'] and 'obj.x @=' in sc['statement']:
            obj.x = mod.M()
        err = []
        try:
            mod.go(obj)
        except Exception as ex:
            err.append(repr(ex))
        lock = type(obj).__dict__['x']._lock
        lock_y = type(obj).__dict__['y']._lock
        got = []

        def probe():
            a = lock.acquire(timeout=0.3)
            b = lock_y.acquire(timeout=0.3)
            got.append(a and b)
        t = threading.Thread(target=probe, daemon=True)
        t.start()
        t.join(1.5)
        if err:
            return False, 'statement %r raised %s' % (sc['statement'], err), 'forms/' + sc['form']
        if not got or not got[0]:
            key = 'augassign-rhs-read' if 'whose-right-side-reads' in sc['form'] else 'forms/' + sc['form']
            return False, 'after %r the calling thread still holds the attribute lock: no other thread can use the ' \
                          'attribute' % sc['statement'], key
        return True, ''
    finally:
        try:
            os.unlink(path)
            os.rmdir(d)
        except OSError:
            pass


if __name__ == '__main__':
    main('C28', scenarios, run)
