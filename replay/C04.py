"""C04 native oracle (real threads): see replay/ao_native.py."""
from replay.common import main
from replay import ao_native as N


def scenarios(seed, tier, failed):
    from replay import ld_schedules
    for k, sc in enumerate(ld_schedules.scenarios(seed + 4, tier)):
        if k < (40 if tier == 'quick' else 1500):
            yield sc
    for sc in N.consume_scenarios(seed, tier):
        yield sc


def run(sc):
    if sc.get('kind') == 'ld-schedule':
        from replay import ld_schedules
        ok, detail = ld_schedules.run_schedule(sc)
        return ok, detail, 'LockingDeque.append'
    return N.run_consume(sc)


if __name__ == '__main__':
    main('C04', scenarios, run, budget_s=120)
