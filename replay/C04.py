"""C04 native oracle (real threads): see replay/ao_native.py."""
from replay.common import main
from replay import ao_native as N


def scenarios(seed, tier, failed):
    yield {'kind': 'subclass-capacity', 'capacity': 640, 'posts': 560, 'timeout': 30}
    from replay import ld_schedules
    for k, sc in enumerate(ld_schedules.scenarios(seed + 4, tier)):
        if k < (40 if tier == 'quick' else 1500):
            yield sc
    for sc in N.consume_scenarios(seed, tier):
        yield sc


def run_subclass_capacity(sc):
    """An idle (not started) active object of a subclass with a larger QUEUE_SIZE: after any number of posts every
    pending event owns a wake-up token, whatever capacity the object ended up with."""
    from miros.activeobject import ActiveObject
    from miros.event import Event

    class Big(ActiveObject):
        QUEUE_SIZE = sc['capacity']
    ao = Big(name='c04s')
    for i in range(sc['posts']):
        (ao.post_fifo if i % 3 else ao.post_lifo)(Event(signal='C04_S'))
        pending, tokens = len(ao.queue.deque), ao.queue.locking_queue.qsize()
        if tokens < pending:
            return False, 'after %d posts %d events are pending but only %d wake-up tokens exist: the consumer ' \
                          'sleeps with work left' % (i + 1, pending, tokens), 'ActiveObject.__init__[subclass]'
    return True, ''


def run(sc):
    if sc.get('kind') == 'subclass-capacity':
        return run_subclass_capacity(sc)
    if sc.get('kind') == 'ld-schedule':
        from replay import ld_schedules
        ok, detail = ld_schedules.run_schedule(sc)
        return ok, detail, 'LockingDeque.append'
    return N.run_consume(sc)


if __name__ == '__main__':
    main('C04', scenarios, run, budget_s=120)
