"""C04 native oracle (real threads): see replay/ao_native.py."""
from replay.common import main
from replay import ao_native as N


def scenarios(seed, tier, failed):
    return N.consume_scenarios(seed, tier)


def run(sc):
    return N.run_consume(sc)


if __name__ == '__main__':
    main('C04', scenarios, run, budget_s=120)
