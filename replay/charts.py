"""Generated charts on the real processor classes + a reference UML semantics written from the property text.

A scenario is JSON: tree (parent[]), optional initial-transition target per state, per-state reactions to user
signals, a start state, an event sequence, the host class, whether handlers carry @spy_on, live flags.
`run_chart` executes it natively and returns the observed action log; `expected_log` is the oracle.
"""
import random
import sys
import time


def gen_tree(rnd, n, shape=None):
    """parent[i] for states 1..n-1 (0 is the outermost user state; its parent is top = -1)."""
    parent = [-1]
    for i in range(1, n):
        if shape == 'chain':
            parent.append(i - 1)
        elif shape == 'bushy':
            parent.append(rnd.randrange(0, max(1, i // 2 + 1)))
        else:
            parent.append(rnd.randrange(0, i))
    return parent


def depth_of(parent, s):
    d = 0
    while s != -1:
        s = parent[s]
        d += 1
    return d


def ancestors(parent, s):
    """s, parent(s), ..., outermost, -1 (top)"""
    out = []
    while s != -1:
        out.append(s)
        s = parent[s]
    out.append(-1)
    return out


def descendants(parent, s):
    n = len(parent)
    return [x for x in range(n) if x != s and s in ancestors(parent, x)]


def gen_scenario(rnd, n=None, nsig=3, nevents=6, shape=None, host='HsmEventProcessor', spy=False, deep_init=False):
    n = n or rnd.randint(2, 9)
    parent = gen_tree(rnd, n, shape)
    init = []
    for s in range(n):
        ds = descendants(parent, s)
        if ds and rnd.random() < (0.8 if deep_init else 0.45):
            init.append(max(ds, key=lambda x: (depth_of(parent, x), rnd.random())) if deep_init else rnd.choice(ds))
        else:
            init.append(None)
    sigs = ['S%d' % i for i in range(nsig)]
    react = {}
    for s in range(n):
        r = {}
        for sg in sigs:
            p = rnd.random()
            if p < 0.35:
                r[sg] = ['tran', rnd.randrange(n)]
            elif p < 0.45:
                r[sg] = ['handled', None]
            elif p < 0.55:
                r[sg] = ['decline', None]
        react[str(s)] = r
    return {'kind': 'chart', 'parent': parent, 'init': init, 'react': react, 'start': rnd.randrange(n),
            'events': [rnd.choice(sigs) for _ in range(nevents)], 'host': host, 'spy': spy,
            'exit_handled': [rnd.random() < 0.6 for _ in range(n)],
            'entry_handled': [rnd.random() < 0.8 for _ in range(n)]}


# ------------------------------------------------------------------ reference semantics (from the property text)
def name_of_state(sc, s):
    dup = sc.get('same_name_as') or {}
    return 'st%d' % dup.get(str(s), s)


def lca_for(parent, S, T):
    if S == T:
        return parent[S]
    aS, aT = ancestors(parent, S), ancestors(parent, T)
    if S in aT:
        return S           # S encloses T: S is not exited
    if T in aS:
        return T
    for x in aS:
        if x in aT:
            return x
    return -1


def follow_init(sc, cur, log):
    parent, init = sc['parent'], sc['init']
    while True:
        log.append(['IN', cur])
        i = init[cur]
        if i is None:
            return cur
        path = []
        x = i
        while x != cur:
            path.append(x)
            x = parent[x]
        for x in reversed(path):
            log.append(['EN', x])
        cur = i


def expected_start(sc):
    log = []
    parent = sc['parent']
    path = [x for x in ancestors(parent, sc['start']) if x != -1]
    for x in reversed(path):
        log.append(['EN', x])
    cur = follow_init(sc, sc['start'], log)
    return cur, log


def expected_step(sc, cur, sig):
    """-> (new current state, action log, offer log, outcome)"""
    parent, react = sc['parent'], sc['react']
    offers = []
    s = cur
    while s != -1:
        offers.append(s)
        r = react[str(s)].get(sig)
        if r and r[0] == 'tran':
            S, T = s, r[1]
            L = lca_for(parent, S, T)
            log = []
            x = cur
            while x != L:
                log.append(['EX', x])
                x = parent[x]
            path = []
            x = T
            while x != L:
                path.append(x)
                x = parent[x]
            for x in reversed(path):
                log.append(['EN', x])
            new = follow_init(sc, T, log)
            return new, log, offers, 'tran'
        if r and r[0] == 'handled':
            return cur, [], offers, 'handled'
        s = parent[s]
    offers.append(-1)
    return cur, [], offers, 'ignored'


# ------------------------------------------------------------------ native execution
class Recorder:
    def __init__(self):
        self.actions = []
        self.offers = []
        self.empties = []


def build_handlers(sc, rec, miros):
    """One generated state function per tree node, shaped like a hand-written miros state."""
    from miros.event import signals, return_status
    n = len(sc['parent'])
    handlers = [None] * n
    names = ['st%d' % i for i in range(n)]

    def make(s):
        def handler(chart, e):
            sig = e.signal
            if sig == signals.ENTRY_SIGNAL:
                rec.actions.append(['EN', s])
                if sc.get('entry_handled', [True] * n)[s]:
                    return return_status.HANDLED
            elif sig == signals.EXIT_SIGNAL:
                rec.actions.append(['EX', s])
                if sc.get('exit_handled', [True] * n)[s]:
                    return return_status.HANDLED
            elif sig == signals.INIT_SIGNAL:
                rec.actions.append(['IN', s])
                i = sc['init'][s]
                if i is not None:
                    return chart.trans(handlers[i])
                return return_status.HANDLED
            elif sig == signals.SEARCH_FOR_SUPER_SIGNAL and sc.get('none_super') == s:
                return None            # a malformed handler: answers the parent probe with nothing, names no parent
            elif sig == signals.EMPTY_SIGNAL:
                rec.empties.append(s)
            elif sig not in (signals.SEARCH_FOR_SUPER_SIGNAL, signals.REFLECTION_SIGNAL):
                rec.offers.append(s)
                r = sc['react'][str(s)].get(e.signal_name)
                if r:
                    if r[0] == 'tran':
                        return chart.trans(handlers[r[1]])
                    if r[0] == 'handled':
                        if sc.get('hook_queries'):
                            # a hook whose action asks the chart where it is (public API, rewrites the name book-keeping)
                            chart.is_in(handlers[s])
                        return return_status.HANDLED
                    if r[0] == 'decline':
                        return return_status.UNHANDLED
                    if r[0] == 'none':
                        return None
            p = sc['parent'][s]
            chart.temp.fun = handlers[p] if p != -1 else chart.top
            return return_status.SUPER
        handler.__name__ = names[s]
        handler.__qualname__ = names[s]
        dup = sc.get('same_name_as')
        if dup and str(s) in dup:
            # two distinct state functions may carry the same __name__ (methods of different classes, closures ...)
            handler.__name__ = names[dup[str(s)]]
        return handler

    raw = [make(s) for s in range(n)]
    names = [f.__name__ for f in raw]          # the names the functions really carry (two may share one)
    if sc.get('plain_decorator'):
        # state functions carrying some other functools.wraps decorator (not spy_on): still undecorated for miros
        import functools

        def passthrough(f):
            @functools.wraps(f)
            def logged_call(chart, e):
                return f(chart, e)
            return logged_call
        raw = [passthrough(f) for f in raw]
    if sc.get('spy'):
        from miros.hsm import spy_on
        for s in range(n):
            handlers[s] = spy_on(raw[s])
    else:
        for s in range(n):
            handlers[s] = raw[s]
    return handlers, raw, names


def make_host(sc):
    host = sc.get('host', 'HsmEventProcessor')
    if host == 'HsmEventProcessor':
        from miros.hsm import HsmEventProcessor
        return HsmEventProcessor()
    if host == 'InstrumentedHsmEventProcessor':
        from miros.hsm import InstrumentedHsmEventProcessor
        return InstrumentedHsmEventProcessor()
    if host == 'HsmWithQueues':
        from miros.hsm import HsmWithQueues
        return HsmWithQueues()
    raise ValueError(host)


def run_chart(sc, on_step=None):
    """Runs the scenario on the real processor.  Returns dict with per-step observed logs."""
    from miros.event import Event, signals
    rec = Recorder()
    handlers, raw, names = build_handlers(sc, rec, None)
    chart = make_host(sc)
    for k in ('live_spy', 'live_trace'):
        if k in sc and hasattr(chart, k):
            setattr(chart, k, sc[k])
    steps = []
    chart.start_at(handlers[sc['start']])
    steps.append({'actions': rec.actions[:], 'offers': [], 'state_name': getattr(chart, 'state_name', None),
                  'state_fn_ok': chart.state_fn in (handlers + raw), 'cur': _cur(chart, handlers, raw)})
    if on_step:
        on_step(chart, handlers, raw, names, 0, None)
    for k, sg in enumerate(sc['events']):
        a0, o0, e0 = len(rec.actions), len(rec.offers), len(rec.empties)
        ev = Event(signal=sg)
        if sc.get('via_queue') and hasattr(chart, 'post_fifo'):
            chart.post_fifo(ev)
            chart.next_rtc()
        else:
            chart.dispatch(ev)
        steps.append({'actions': rec.actions[a0:], 'offers': rec.offers[o0:], 'empties': rec.empties[e0:],
                      'state_name': getattr(chart, 'state_name', None),
                      'state_fn_ok': chart.state_fn in (handlers + raw), 'cur': _cur(chart, handlers, raw),
                      'ignored': chart.event.ignored})
        if on_step:
            on_step(chart, handlers, raw, names, k + 1, sg)
    return {'steps': steps, 'chart': chart, 'handlers': handlers, 'raw': raw, 'names': names}


def _cur(chart, handlers, raw):
    f = chart.state.fun
    for i, h in enumerate(handlers):
        if f is h or f is raw[i]:
            return i
    return -1 if f == chart.top else None


def check_uml(sc, res, aspects=('actions', 'offers', 'state')):
    """Compare the observed logs with the reference semantics.  Returns (ok, detail, key)."""
    cur, log = expected_start(sc)
    st = res['steps'][0]
    if 'actions' in aspects and st['actions'] != log:
        return False, 'start_at(%d): actions %s, UML order is %s' % (sc['start'], st['actions'], log), 'start_at'
    if 'state' in aspects and st['cur'] != cur:
        return False, 'start_at(%d): rests in %s, expected %s' % (sc['start'], st['cur'], cur), 'start_at'
    if 'names' in aspects and (st['state_name'] != name_of_state(sc, cur) or not st['state_fn_ok']):
        return False, 'start_at: state_name=%r, current state is st%d' % (st['state_name'], cur), 'start_at'
    for k, sg in enumerate(sc['events']):
        new, log, offers, outcome = expected_step(sc, cur, sg)
        st = res['steps'][k + 1]
        if 'actions' in aspects and st['actions'] != log:
            return False, 'event #%d %s in state %d (%s): actions %s, UML order is %s' % (
                k, sg, cur, outcome, st['actions'], log), 'dispatch'
        if 'offers' in aspects:
            exp = [o for o in offers if o != -1]
            if st['offers'] != exp:
                return False, 'event #%d %s in state %d: offered to %s, expected %s' % (k, sg, cur, st['offers'], exp), \
                    'dispatch'
        if 'state' in aspects and st['cur'] != new:
            return False, 'event #%d %s in state %d: rests in %s, expected %s' % (k, sg, cur, st['cur'], new), 'dispatch'
        if 'names' in aspects and (st['state_name'] != name_of_state(sc, new) or not st['state_fn_ok']):
            return False, 'event #%d %s: state_name=%r state_fn ok=%s, current state is st%d' % (
                k, sg, st['state_name'], st['state_fn_ok'], new), 'dispatch'
        if 'ignored' in aspects and bool(st['ignored']) != (outcome == 'ignored'):
            return False, 'event #%d %s: event.ignored=%s but outcome is %s' % (k, sg, st['ignored'], outcome), 'dispatch'
        cur = new
    return True, '', ''


def standard_scenarios(seed, tier, hosts=('HsmEventProcessor',), spy_options=(False,), n_random=None,
                       with_queries=False):
    rnd = random.Random(seed * 7919 + 17)
    # deep chains with deep initial transitions first (they need depth, not luck)
    for host in hosts:
        for spy in spy_options:
            if spy and host == 'HsmEventProcessor':
                continue
            for n in (10, 12, 7):
                for _ in range(6):
                    sc = gen_scenario(rnd, n=n, shape='chain', host=host, spy=spy, deep_init=True, nevents=8)
                    yield sc
    total = n_random or (1500 if tier == 'quick' else 40000)
    for k in range(total):
        if with_queries and k % 2:
            h = hosts[k % len(hosts)]
            sc = gen_scenario(rnd, n=rnd.randint(2, 7), host=h, nevents=rnd.randint(2, 6),
                              spy=(h != 'HsmEventProcessor' and spy_options[-1]))
            sc['queries'] = 'all' if k % 4 == 1 else 'some'
            yield sc
            continue
        host = hosts[k % len(hosts)]
        spy = spy_options[(k // len(hosts)) % len(spy_options)]
        if spy and host == 'HsmEventProcessor':
            spy = False
        shape = [None, 'chain', 'bushy'][k % 3]
        yield gen_scenario(rnd, shape=shape, host=host, spy=spy, deep_init=(k % 4 == 0), nevents=rnd.randint(3, 9))


class QueryFailure(Exception):
    pass


def query_step(sc):
    """on_step callback: between steps ask is_in / child_state for every state (and a foreign function) and compare
    with the active path; the chart must behave afterwards as if nothing had been asked (checked by check_uml)."""
    parent = sc['parent']

    def foreign(chart, e):
        return None

    def cb(chart, handlers, raw, names, k, sg):
        cur = _cur(chart, handlers, raw)
        if cur is None or cur == -1:
            return
        path = ancestors(parent, cur)
        mode = sc.get('queries')
        if chart.is_in(foreign):
            raise QueryFailure('is_in(<not a state>) is True')
        if (k + cur) % 3 == 0:
            # top encloses every state; each mention of chart.top is a new bound-method object
            if not chart.is_in(chart.top):
                raise QueryFailure('after step %d: is_in(chart.top) is False in st%d' % (k, cur))
            outer = [x for x in path if x != -1][-1]
            try:
                ch = chart.child_state(chart.top)
            except AssertionError:
                raise QueryFailure('after step %d: child_state(chart.top) failed in st%d' % (k, cur))
            if ch is not handlers[outer] and ch is not raw[outer]:
                raise QueryFailure('after step %d: child_state(chart.top) is not the outermost active state st%d' % (k, outer))
        rq = random.Random(len(parent) * 131 + k * 17 + cur)
        order = list(range(len(parent)))
        rq.shuffle(order)
        strict = [x for x in path[1:] if x != -1]
        if strict and rq.random() < 0.7:
            # finish with a query that is answered True high up the path: nothing may be left behind by it
            last = rq.choice(strict)
            order = [x for x in order if x != last] + [last]
        for x in order:
            if mode == 'some' and (x + k) % 3 and x != order[-1]:
                continue
            want = x in path
            got = chart.is_in(handlers[x])
            if bool(got) != want:
                raise QueryFailure('after step %d: is_in(st%d) = %s, current state st%d, path %s' % (k, x, got, cur, path))
            if x == order[-1] and (k + cur) % 2 == 0:
                continue            # sometimes the last thing asked is an is_in (child_state re-syncs temp.fun itself)
            try:
                ch = chart.child_state(handlers[x])
                if not want:
                    raise QueryFailure('after step %d: child_state(st%d) returned although st%d does not enclose st%d'
                                       % (k, x, x, cur))
                exp = cur if x == cur else path[path.index(x) - 1]
                if ch is not handlers[exp] and ch is not raw[exp]:
                    raise QueryFailure('after step %d: child_state(st%d) is not st%d' % (k, x, exp))
            except AssertionError:
                if want:
                    raise QueryFailure('after step %d: child_state(st%d) failed although it encloses st%d' % (k, x, cur))
        if chart.state.fun is not handlers[cur] and chart.state.fun is not raw[cur]:
            raise QueryFailure('queries changed the current state')
        if getattr(chart, 'state_name', names[cur]) != names[cur]:
            raise QueryFailure('after the queries state_name is %r, the current state is %r [spied]' % (
                chart.state_name, names[cur]))
        if hasattr(chart, 'state_fn') and chart.state_fn is not handlers[cur] and chart.state_fn is not raw[cur]:
            raise QueryFailure('after the queries state_fn is not the current state\'s handler [spied]')
    return cb


def run_and_check(sc, aspects):
    """run one scenario (with queries between steps when sc['queries']) and compare with the reference."""
    try:
        res = run_chart(sc, on_step=query_step(sc) if sc.get('queries') else None)
    except QueryFailure as q:
        return False, str(q), '[spied]' if '[spied]' in str(q) else 'query'
    return check_uml(sc, res, aspects)


# ------------------------------------------------------------------ instrumentation oracles (C18-C21, C23)
def run_instrumented(sc, clock=None):
    """Run a scenario on an instrumented host with an independent invocation log (taken inside the undecorated
    functions) and, optionally, live callbacks and a substituted clock.  Returns per-step observations."""
    from miros.event import Event, signals, return_status
    import miros.hsm as hsm
    rec = Recorder()
    inv = []            # (signal_name, state_name, status) of every invocation of an undecorated state function
    handlers, raw, names = build_handlers(sc, rec, None)
    # wrap the undecorated functions once more to log invocations: rebuild with logging raw functions
    n = len(sc['parent'])
    logged = []
    for s in range(n):
        def mk(s):
            inner = raw[s]

            def f(chart, e):
                st = inner(chart, e)
                inv.append((e.signal_name, names[s], st))
                return st
            f.__name__ = names[s]
            return f
        logged.append(mk(s))
    if sc.get('spy'):
        for s in range(n):
            handlers[s] = hsm.spy_on(logged[s])
    else:
        for s in range(n):
            handlers[s] = logged[s]
    saved_clock = hsm.stdlib_datetime
    if clock is not None:
        hsm.stdlib_datetime = clock
    try:
        chart = make_host(sc)
        live_spy, live_trace = [], []
        if hasattr(chart, 'register_live_spy_callback'):
            chart.live_spy, chart.live_trace = bool(sc.get('live_spy')), bool(sc.get('live_trace'))
            if sc.get('callback_scribbles'):
                # a live callback that uses the chart's public API (leaves a note in the step log)
                def spy_cb(line):
                    live_spy.append(line)
                    if len(live_spy) % 2:
                        chart.scribble('CB:note')
                chart.register_live_spy_callback(spy_cb)
            else:
                chart.register_live_spy_callback(live_spy.append)
            chart.register_live_trace_callback(live_trace.append)
        steps = []

        def snap(sig):
            steps.append({'sig': sig, 'actions': rec.actions[:], 'inv': inv[:],
                          'rtc_spy': list(chart.rtc.spy) if hasattr(chart, 'rtc') else None,
                          'full_spy': list(chart.full.spy) if hasattr(chart, 'full') else None,
                          'trace': list(chart.full.trace) if hasattr(chart, 'full') else None,
                          'live_spy': live_spy[:], 'live_trace': live_trace[:],
                          'state_name': getattr(chart, 'state_name', None), 'cur': _cur(chart, handlers, logged),
                          'current_state': chart.current_state() if hasattr(chart, 'current_state') else None})
            del rec.actions[:], inv[:], live_spy[:], live_trace[:]
        pre_posted = bool(sc.get('post_before_start')) and hasattr(chart, 'post_fifo')
        if pre_posted:
            for sg in sc['events']:
                chart.post_fifo(Event(signal=sg))          # queued before the chart is started
        chart.start_at(handlers[sc['start']])
        snap(None)
        if pre_posted:
            for sg in sc['events']:
                chart.next_rtc()
                snap(sg)
            return steps, chart
        if sc.get('clear_after_start') and hasattr(chart, 'clear_spy'):
            chart.clear_spy()
            chart.clear_trace()
            steps[0]['cleared'] = True
        for sg in sc['events']:
            ev = Event(signal=sg)
            if hasattr(chart, 'post_fifo'):
                chart.post_fifo(ev)
                chart.next_rtc()
            else:
                chart.dispatch(ev)
            snap(sg)
        return steps, chart
    finally:
        hsm.stdlib_datetime = saved_clock


INNER = ('ENTRY_SIGNAL', 'EXIT_SIGNAL', 'INIT_SIGNAL', 'REFLECTION_SIGNAL', 'EMPTY_SIGNAL', 'SEARCH_FOR_SUPER_SIGNAL')


def expected_spy_lines(invocations):
    from miros.event import return_status
    out = []
    for sig, state, status in invocations:
        if sig == 'REFLECTION_SIGNAL':
            continue
        out.append('%s:%s' % (sig, state))
        if sig not in INNER and status == return_status.HANDLED:
            out.append('%s:%s:HOOK' % (sig, state))
    return out
