"""Native oracles of the instrumentation family (C18, C19, C20, C21, C23) on generated charts."""
import datetime as _dt
import random

from replay import charts

HOSTS = ('InstrumentedHsmEventProcessor', 'HsmWithQueues')


def scenarios(seed, tier, failed, hosts=HOSTS + ('HsmEventProcessor',), live=False):
    rnd = random.Random(seed * 31 + 7)
    n = 250 if tier == 'quick' else 8000
    for k in range(n):
        host = hosts[k % len(hosts)]
        sc = charts.gen_scenario(rnd, n=rnd.randint(2, 7), host=host, spy=(k % 5 != 4), nevents=rnd.randint(2, 7),
                                 deep_init=(k % 4 == 0))
        sc['live_spy'], sc['live_trace'] = bool(live and k % 2 == 0), bool(live and k % 3 != 2)
        sc['coarse_clock'] = bool(live and k % 2 == 1)
        yield sc


class FrozenClock(_dt.datetime):
    @classmethod
    def now(cls, tz=None):
        return _dt.datetime(2020, 1, 1, 0, 0, 0)


def run_c18(sc):
    """same chart, every configuration: the action log and the resting state must be those of the reference"""
    ref, _, _ = None, None, None
    base = dict(sc, host='HsmEventProcessor', spy=False)
    res = charts.run_chart(base)
    ok, detail, key = charts.check_uml(base, res, ('actions', 'state'))
    if not ok:
        return True, ''          # the plain configuration itself is C01's business
    want = [(st['actions'], st['cur']) for st in res['steps']]
    for host in ('HsmEventProcessor', 'InstrumentedHsmEventProcessor', 'HsmWithQueues'):
        for spy in (False, True):
            for live in ((False, False), (True, True)):
                cfg = dict(sc, host=host, spy=spy, live_spy=live[0], live_trace=live[1], via_queue=(host == 'HsmWithQueues'))
                try:
                    got = charts.run_chart(cfg)
                except Exception as ex:
                    return False, 'host=%s spy=%s live=%s: %r' % (host, spy, live, ex), \
                        '_spy_on' if host == 'HsmEventProcessor' else 'transparent'
                obs = [(st['actions'], st['cur']) for st in got['steps']]
                if obs != want:
                    k = next(i for i in range(len(want)) if i >= len(obs) or obs[i] != want[i])
                    return False, 'host=%s spy=%s live=%s: step %d did %s, the plain chart did %s' % (
                        host, spy, live, k, obs[k] if k < len(obs) else None, want[k]), 'transparent'
    return True, ''


def run_c19(sc):
    if sc['host'] == 'HsmEventProcessor' or not sc.get('spy'):
        return True, ''
    steps, chart = charts.run_instrumented(sc)
    full = []
    for k, st in enumerate(steps):
        exp = charts.expected_spy_lines(st['inv'])
        got = [l for l in st['rtc_spy'] if not l.startswith('<- Queued')]
        if k == 0:
            exp = ['START'] + exp
        if got != exp:
            return False, 'step %d (%s): spy %s, the processor invoked %s' % (k, st['sig'], got, exp), '_spy_on'
        full += st['rtc_spy']
        if st.get('cleared'):
            full = []                   # clear_spy() was called right after this step was observed
            continue
        got_full = st['full_spy']
        if got_full != full[-500:]:
            return False, 'step %d: full spy is not the concatenation of the step logs' % k, 'spy/full'
    return True, ''


def run_c20(sc):
    if sc['host'] == 'HsmEventProcessor' or not sc.get('spy'):
        return True, ''
    steps, chart = charts.run_instrumented(sc)
    cur, _ = charts.expected_start(sc)
    exp = [('top', None, 'st%d' % cur)]
    if steps[0].get('cleared'):
        exp = []
    for k, sg in enumerate(sc['events']):
        new, log, offers, outcome = charts.expected_step(sc, cur, sg)
        if outcome == 'tran':
            exp.append(('st%d' % cur, sg, 'st%d' % new))
        cur = new
        exp = exp[-500:]                    # the trace keeps the most recent records
        got = [(t.start_state, t.signal, t.end_state) for t in steps[k + 1]['trace']]
        if got != exp:
            return False, 'after event #%d %s (%s): trace %s, expected %s' % (k, sg, outcome, got[-3:], exp[-3:]), 'trace'
    return True, ''


def run_c21(sc):
    if sc['host'] != 'HsmWithQueues' or not sc.get('spy'):
        return True, ''
    try:
        steps, chart = charts.run_instrumented(sc, clock=FrozenClock if sc.get('coarse_clock') else None)
    except RuntimeError as ex:
        return False, 'the step raised %r with live output on' % (ex,), 'live-spy'
    last = None
    for k, st in enumerate(steps):
        # the trace is a ring buffer: a new record is a new object at its end (its length stops growing at capacity)
        new = 1 if (st['trace'] and st['trace'][-1] is not last) else 0
        last = st['trace'][-1] if st['trace'] else None
        if sc['live_trace'] and len(st['live_trace']) != new:
            return False, 'step %d (%s): %d new trace record(s), %d handed to the live callback (clock %s)' % (
                k, st['sig'], new, len(st['live_trace']), 'frozen' if sc.get('coarse_clock') else 'real'), 'live-trace'
        if not sc['live_trace'] and st['live_trace']:
            return False, 'live trace off but the callback ran', 'live-trace'
        want = [l for l in st['rtc_spy'] if not l.startswith('CB:')] if sc['live_spy'] else []
        if st['live_spy'] != want:
            return False, 'step %d: live spy got %s, the step logged %s' % (k, st['live_spy'], want), 'live-spy'
    return True, ''


def run_c23(sc):
    if sc['host'] == 'HsmEventProcessor' and sc.get('spy'):
        sc = dict(sc, spy=False)
    steps, chart = charts.run_instrumented(sc) if sc['host'] != 'HsmEventProcessor' else (None, None)
    if steps is None:
        res = charts.run_chart(sc)
        return charts.check_uml(sc, res, ('names', 'state'))[:2]
    cur, _ = charts.expected_start(sc)
    for k, st in enumerate(steps):
        if k > 0:
            cur = charts.expected_step(sc, cur, sc['events'][k - 1])[0]
        if st['state_name'] != 'st%d' % cur:
            return False, 'after step %d state_name is %r, the chart is in st%d' % (k, st['state_name'], cur), 'state_name'
        if sc.get('spy') and st['current_state'] not in (None, 'st%d' % cur):
            return False, 'after step %d current_state() is %r, the chart is in st%d' % (k, st['current_state'], cur), \
                'current_state'
    return True, ''
