"""C27 native oracle: forced interleavings of statements on one thread-safe attribute.  The schedule is forced from
user code only: the right operand of `obj.x += operand` blocks inside its __radd__ (miros untouched)."""
import threading
import time

from replay.common import main


def scenarios(seed, tier, failed):
    for other in ('assign', 'read', 'augassign'):
        yield {'kind': 'tsa-race', 'other': other, 'timeout': 20}
    # the other thread uses the same attribute of ANOTHER instance of the class (the descriptor is shared)
    for other in ('assign', 'read', 'augassign'):
        yield {'kind': 'tsa-race', 'other': other, 'timeout': 20, 'second_instance': True}
    yield {'kind': 'two-attributes', 'timeout': 20}


def run_two_attributes(sc):
    """one statement updates one thread-safe attribute from another one; afterwards other threads use both"""
    from miros.thread_safe_attributes import MetaThreadSafeAttributes

    class Meter(metaclass=MetaThreadSafeAttributes):
        _attributes = ['total', 'step']
    m = Meter()
    m.total = 1
    m.step = 2
    errs = []

    stmt_done, release = threading.Event(), threading.Event()

    def first():
        try:
            m.total += m.step
        except Exception as ex:
            errs.append(repr(ex))
        stmt_done.set()
        release.wait(5.0)          # stay alive: a finished thread's ident (and with it its RLock ownership) may be reused
    t = threading.Thread(target=first, daemon=True)
    t.start()
    stmt_done.wait(2.0)
    done = []

    def second():
        m.step = 5
        m.total += 1
        done.append((m.total, m.step))
    t2 = threading.Thread(target=second, daemon=True)
    t2.start()
    t2.join(2.0)
    release.set()
    if errs:
        return False, 'm.total += m.step raised %s' % errs[0], '__get__'
    if not done:
        return False, 'after `m.total += m.step` in one thread another thread can no longer use the attributes (a lock was kept)', '__get__'
    if done[0] != (4, 5):
        return False, 'values %r, expected (4, 5)' % (done[0],), '__set__'
    return True, ''


def run(sc):
    if sc.get('kind') == 'two-attributes':
        return run_two_attributes(sc)
    from miros.thread_safe_attributes import MetaThreadSafeAttributes

    class K(metaclass=MetaThreadSafeAttributes):
        _attributes = ['x']

    obj = K()
    obj.x = 1
    second = K() if sc.get('second_instance') else obj
    if sc.get('second_instance'):
        second.x = 1
    entered, go = threading.Event(), threading.Event()
    errors = []

    class Blocker:
        def __radd__(self, left):
            entered.set()
            go.wait(3.0)
            return left + 10

    finish = threading.Event()      # both threads stay alive until the final probe: the ident of a finished thread
    a_done, b_done = threading.Event(), threading.Event()   # (hence its RLock ownership) may be handed to a new thread

    def a():
        try:
            obj.x += Blocker()
        except Exception as ex:
            errors.append(('A: obj.x += 10', repr(ex)))
        a_done.set()
        finish.wait(6.0)

    def b():
        try:
            if sc['other'] == 'assign':
                second.x = 7
            elif sc['other'] == 'read':
                _ = second.x
            else:
                second.x += 100
        except Exception as ex:
            errors.append(('B: %s' % sc['other'], repr(ex)))
        b_done.set()
        finish.wait(6.0)

    ta, tb = threading.Thread(target=a, daemon=True), threading.Thread(target=b, daemon=True)
    ta.start()
    entered.wait(2.0)
    tb.start()
    time.sleep(0.2)          # B either waits for the lock (correct) or barges in (defect)
    go.set()
    a_done.wait(3.0)
    b_done.wait(3.0)
    if not (a_done.is_set() and b_done.is_set()):
        finish.set()
        return False, 'deadlock: a thread never finished its statement', 'plain' if sc['other'] == 'assign' else 'augassign'
    if errors:
        return False, 'statement failed: %s' % (errors,), '__set__' if sc['other'] == 'assign' else 'augassign'
    final = obj.x
    serial = {'assign': {7, 17}, 'read': {11}, 'augassign': {111}}[sc['other']]
    if sc.get('second_instance'):
        serial = {11}
        want2 = {'assign': 7, 'read': 1, 'augassign': 101}[sc['other']]
        if second.x != want2:
            return False, 'the other instance reads %r, expected %r' % (second.x, want2), '__set__'
    if final not in serial:
        return False, 'final value %r is not that of any serial order (%s)' % (final, sorted(serial)), '__set__'
    probe = []
    t = threading.Thread(target=lambda: probe.append(obj.x), daemon=True)
    t.start()
    t.join(1.0)
    finish.set()
    if not probe:
        return False, 'the attribute lock is still held after all statements finished', '__get__'
    return True, ''


if __name__ == '__main__':
    main('C27', scenarios, run)
