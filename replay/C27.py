"""C27 native oracle: forced interleavings of statements on one thread-safe attribute.  The schedule is forced from
user code only: the right operand of `obj.x += operand` blocks inside its __radd__ (miros untouched)."""
import threading
import time

from replay.common import main


def scenarios(seed, tier, failed):
    for other in ('assign', 'read', 'augassign'):
        yield {'kind': 'tsa-race', 'other': other, 'timeout': 20}
    # the other thread uses the same attribute of ANOTHER instance of the class (the descriptor is shared)
    for other in ('assign', 'read', 'augassign'):
        yield {'kind': 'tsa-race', 'other': other, 'timeout': 20, 'second_instance': True}


def run(sc):
    from miros.thread_safe_attributes import MetaThreadSafeAttributes

    class K(metaclass=MetaThreadSafeAttributes):
        _attributes = ['x']

    obj = K()
    obj.x = 1
    second = K() if sc.get('second_instance') else obj
    if sc.get('second_instance'):
        second.x = 1
    entered, go = threading.Event(), threading.Event()
    errors = []

    class Blocker:
        def __radd__(self, left):
            entered.set()
            go.wait(3.0)
            return left + 10

    def a():
        try:
            obj.x += Blocker()
        except Exception as ex:
            errors.append(('A: obj.x += 10', repr(ex)))

    def b():
        try:
            if sc['other'] == 'assign':
                second.x = 7
            elif sc['other'] == 'read':
                _ = second.x
            else:
                second.x += 100
        except Exception as ex:
            errors.append(('B: %s' % sc['other'], repr(ex)))

    ta, tb = threading.Thread(target=a, daemon=True), threading.Thread(target=b, daemon=True)
    ta.start()
    entered.wait(2.0)
    tb.start()
    time.sleep(0.2)          # B either waits for the lock (correct) or barges in (defect)
    go.set()
    ta.join(3.0)
    tb.join(3.0)
    if ta.is_alive() or tb.is_alive():
        return False, 'deadlock: a thread never finished its statement', 'plain' if sc['other'] == 'assign' else 'augassign'
    if errors:
        return False, 'statement failed: %s' % (errors,), '__set__' if sc['other'] == 'assign' else 'augassign'
    final = obj.x
    serial = {'assign': {7, 17}, 'read': {11}, 'augassign': {111}}[sc['other']]
    if sc.get('second_instance'):
        serial = {11}
        want2 = {'assign': 7, 'read': 1, 'augassign': 101}[sc['other']]
        if second.x != want2:
            return False, 'the other instance reads %r, expected %r' % (second.x, want2), '__set__'
    if final not in serial:
        return False, 'final value %r is not that of any serial order (%s)' % (final, sorted(serial)), '__set__'
    probe = []
    t = threading.Thread(target=lambda: probe.append(obj.x), daemon=True)
    t.start()
    t.join(1.0)
    if not probe:
        return False, 'the attribute lock is still held after all statements finished', '__get__'
    return True, ''


if __name__ == '__main__':
    main('C27', scenarios, run)
