"""Forced interleavings of posting threads and the consuming thread on one real LockingDeque.

The schedule is forced from user code only: the two containers inside the LockingDeque are replaced by subclasses whose
methods park the calling thread before every access; a seeded scheduler lets exactly one parked thread (or the consumer)
take one step at a time.  Oracle (C16 / C04): when everybody has finished, every pending event is covered by a wake-up
token (otherwise the active object's thread sleeps with work to do), no call blocked, nothing was lost or duplicated.

This is exploration by sampling schedules, not a proof; it exists because statement-level interleavings inside the
lock-free LockingDeque operations are out of reach of the sequential contracts (DESIGN.md section 7).
"""
import random
import threading
import time
from collections import deque
from queue import Queue


class Scheduler:
    def __init__(self, seed):
        self.rnd = random.Random(seed)
        self.cv = threading.Condition()
        self.parked = {}          # thread name -> what it is about to do
        self.granted = None
        self.done = set()
        self.workers = set()
        self.trace = []

    def gate(self, what):
        me = threading.current_thread().name
        if me not in self.workers:
            return                       # the controlling thread (acting as the consumer) is never parked
        with self.cv:
            self.parked[me] = what
            self.cv.notify_all()
            while self.granted != me:
                if not self.cv.wait(5.0):
                    raise RuntimeError('scheduler stalled')
            self.granted = None
            del self.parked[me]

    def finished(self, name):
        with self.cv:
            self.done.add(name)
            self.cv.notify_all()

    def step(self):
        """Let one parked worker take one step.  Returns False when no worker is left."""
        with self.cv:
            deadline = time.time() + 5.0
            while True:
                live = self.workers - self.done
                if not live:
                    return False
                if live <= set(self.parked):
                    break
                if not self.cv.wait(0.5) and time.time() > deadline:
                    raise RuntimeError('a posting thread is blocked inside a LockingDeque call: %s' % sorted(live - set(self.parked)))
            who = self.rnd.choice(sorted(self.parked))
            self.trace.append((who, self.parked[who]))
            self.granted = who
            self.cv.notify_all()
            # wait until it has moved on (parked again or finished)
            while self.granted == who:
                self.cv.wait(1.0)
        return True


def run_schedule(sc):
    """sc: {'seed', 'posters', 'per', 'lifo_every', 'consume_prob'} -> (ok, detail)"""
    from miros.activeobject import LockingDeque
    sch = Scheduler(sc['seed'])

    class PQ(Queue):
        def qsize(self):
            sch.gate('qsize')
            return Queue.qsize(self)

        def full(self):
            sch.gate('full')
            return Queue.full(self)

        def put(self, item, block=True, timeout=None):
            sch.gate('put')
            if block and Queue.full(self):
                raise RuntimeError('a blocking put on a full wake-up queue: the poster would block')
            return Queue.put(self, item, block=False)

    class PD(deque):
        def append(self, x):
            sch.gate('deque.append')
            return deque.append(self, x)

        def appendleft(self, x):
            sch.gate('deque.appendleft')
            return deque.appendleft(self, x)

        def rotate(self, n=1):
            sch.gate('deque.rotate')
            return deque.rotate(self, n)

        def __len__(self):
            sch.gate('len')
            return deque.__len__(self)

    ld = LockingDeque()
    ld.locking_queue = PQ(maxsize=ld.locking_queue.maxsize)
    ld.deque = PD(maxlen=ld.deque.maxlen)
    errors = []
    posted = []

    def poster(name, n):
        try:
            for i in range(n):
                item = '%s-%d' % (name, i)
                posted.append(item)
                if sc.get('lifo_every') and i % sc['lifo_every'] == 0:
                    ld.appendleft(item)
                else:
                    ld.append(item)
        except Exception as ex:
            errors.append('%s: %r' % (name, ex))
        finally:
            sch.finished(name)

    threads = []
    for k in range(sc['posters']):
        nm = 'P%d' % k
        sch.workers.add(nm)
        threads.append(threading.Thread(target=poster, args=(nm, sc['per']), name=nm, daemon=True))
    for t in threads:
        t.start()
    taken = []
    tokens_wasted = 0
    try:
        while True:
            # the consumer: with some probability take a token (if there is one) and then an event (if there is one)
            if sch.rnd.random() < sc.get('consume_prob', 0.35) and Queue.qsize(ld.locking_queue) > 0:
                Queue.get(ld.locking_queue, block=False)
                sch.trace.append(('consumer', 'get'))
                if sch.rnd.random() < 0.5:
                    if not sch.step():          # let a poster move between the consumer's two steps
                        pass
                if deque.__len__(ld.deque) > 0:
                    taken.append(deque.popleft(ld.deque))
                    sch.trace.append(('consumer', 'popleft'))
                else:
                    tokens_wasted += 1
                continue
            if not sch.step():
                break
    except RuntimeError as ex:
        return False, '%s (schedule so far: %s)' % (ex, sch.trace[-12:])
    for t in threads:
        t.join(2.0)
    if errors:
        return False, 'a poster failed: %s' % errors[0]
    T, L = Queue.qsize(ld.locking_queue), deque.__len__(ld.deque)
    if T < L:
        return False, 'lost wake-up: all posters finished, %d event(s) pending, %d wake-up token(s): the consuming thread ' \
                      'sleeps with work to do (last steps: %s)' % (L, T, sch.trace[-14:])
    rest = list(deque.__iter__(ld.deque))
    if sorted(taken + rest) != sorted(posted):
        return False, 'events lost or duplicated: posted %d, taken %d, pending %d' % (len(posted), len(taken), len(rest))
    return True, ''


def scenarios(seed, tier):
    n = 60 if tier == 'quick' else 3000
    for k in range(n):
        yield {'kind': 'ld-schedule', 'seed': seed * 100003 + k, 'posters': 2 + k % 2, 'per': 1 + k % 3,
               'lifo_every': (0, 2, 0, 3)[k % 4], 'consume_prob': (0.35, 0.5, 0.2)[k % 3], 'timeout': 30}
