"""C26 native oracle: Event.loads(Event.dumps(e)) over generated JSON-representable payloads and signal names
(this also validates the assumed json contract on the values it generates)."""
import json
import random

from replay.common import main


def gen(rnd, depth=0):
    k = rnd.randint(0, 7 if depth < 3 else 4)
    if k == 0:
        return None
    if k == 1:
        return rnd.choice([True, False])
    if k == 2:
        return rnd.randint(-10**6, 10**6)
    if k == 3:
        return rnd.choice([0.5, -1.25, 3.0, 1e10])
    if k == 4:
        return ''.join(rnd.choice('ab cdé"\\\n') for _ in range(rnd.randint(0, 6)))
    if k in (5, 6):
        return [gen(rnd, depth + 1) for _ in range(rnd.randint(0, 3))]
    return {('k%d' % i): gen(rnd, depth + 1) for i in range(rnd.randint(0, 3))}


def scenarios(seed, tier, failed):
    rnd = random.Random(seed + 26)
    yield {'kind': 'roundtrip', 'name': 'ENTRY_SIGNAL', 'payload': None}
    yield {'kind': 'roundtrip', 'name': 'C26_NEW', 'payload': {'a': [1, 2, {'b': None}]}}
    # falsy payloads, and names that are also attributes of the registry object or of dicts
    for pl in (0, 0.0, False, '', [], {}):
        yield {'kind': 'roundtrip', 'name': 'C26_FALSY', 'payload': pl}
    for nm in ('highest_inner_signal', 'keys', 'append', 'name_for_signal', 'items', 'signal', 'payload', '__class__'):
        yield {'kind': 'roundtrip', 'name': nm, 'payload': [1]}
    # histories: the same message decoded again after the receiver changed what the first decoding gave it
    yield {'kind': 'again', 'name': 'C26_AGAIN', 'payload': {'todo': ['a', 'b'], 'seq': 7}}
    yield {'kind': 'again', 'name': 'C26_AGAIN', 'payload': [1, [2, 3]]}
    for i in range(300 if tier == 'quick' else 20000):
        yield {'kind': 'roundtrip', 'name': 'C26_%s' % rnd.choice(['A', 'B', 'x y', 'été', 'n%d' % i]),
               'payload': gen(rnd)}


def run(sc):
    from miros.event import Event, signals
    assert json.loads(json.dumps(sc['payload'])) == sc['payload'], 'json contract'
    e = Event(signal=sc['name'], payload=sc['payload'])
    try:
        r = Event.loads(Event.dumps(e))
    except Exception as ex:
        return False, 'round trip of %r raised %r' % (sc['name'], ex), 'roundtrip'
    if r.signal_name != sc['name']:
        return False, 'signal name %r came back as %r' % (sc['name'], r.signal_name), 'roundtrip'
    if r.payload != sc['payload'] or type(r.payload) is not type(sc['payload']):
        return False, 'payload %r came back as %r' % (sc['payload'], r.payload), 'roundtrip'
    if sc['kind'] == 'again':
        wire = Event.dumps(e)
        first = Event.loads(wire)
        if isinstance(first.payload, dict):
            first.payload['seen'] = True
        elif isinstance(first.payload, list):
            first.payload.append('seen')
        second = Event.loads(wire)
        if second.payload != sc['payload']:
            return False, 'second decoding of the same message gives payload %r, sent %r' % (second.payload, sc['payload']), \
                'roundtrip'
        if second is first:
            return False, 'two decodings of one message are the same Event object', 'roundtrip'
    if r.signal != signals[sc['name']]:
        return False, 'number %r is not the one bound to %r here (%r)' % (r.signal, sc['name'], signals[sc['name']]), 'roundtrip'
    return True, ''


if __name__ == '__main__':
    main('C26', scenarios, run)
