"""C08 native oracle: publications waiting in the fabric (delivery stalled or fabric stopped) must reach a subscriber by
priority, equal priorities in publish order -- also across start()/stop() and with later publications."""
import random
import time
from collections import deque

from replay.common import main
from replay.C13 import cleanup

_n = [0]


def scenarios(seed, tier, failed):
    rnd = random.Random(seed + 8)
    base = [[1000] * 4, [1000] * 9, [5, 5, 1, 5, 1, 1000, 5], [3, 1, 2, 3, 1, 2, 3, 1, 2, 3, 1, 2]]
    for prios in base:
        for kind in ('fifo', 'lifo'):
            yield {'kind': 'order', 'first': prios, 'later': [], 'sub': kind, 'restart': False, 'timeout': 30}
    for restart in (False, True):
        yield {'kind': 'order', 'first': [1000, 1000, 1000], 'later': [1000, 1000, 1000], 'sub': 'fifo',
               'restart': restart, 'timeout': 30}
    # stop() while the delivery thread is busy and a backlog waits, then start() again
    for n in (2, 5, 6, 9):
        yield {'kind': 'order', 'first': [1000] * (n + 1), 'later': [], 'sub': 'fifo', 'restart': False,
               'stop_while_busy': True, 'timeout': 30}
    yield {'kind': 'order', 'first': [5, 1000, 1, 1000, 5, 1000, 1000], 'later': [], 'sub': 'lifo', 'restart': False,
           'stop_while_busy': True, 'timeout': 30}
    for _ in range(20 if tier == 'quick' else 400):
        n = rnd.randint(4, 14)
        yield {'kind': 'order', 'first': [rnd.choice([1, 5, 1000]) for _ in range(n)],
               'later': [rnd.choice([1, 5, 1000]) for _ in range(rnd.randint(0, 5))], 'sub': rnd.choice(['fifo', 'lifo']),
               'restart': rnd.random() < 0.3, 'timeout': 30}


class Gate(deque):
    """A subscriber queue whose first append blocks until released: stalls the delivery thread (user-side seam)."""
    def __init__(self, ev):
        super().__init__(maxlen=1000)
        self.ev = ev
        self.first = True

    def append(self, x):
        if self.first:
            self.first = False
            self.ev.wait(3.0)
        super().append(x)


def run(sc):
    import threading
    from miros.activeobject import ActiveFabric
    from miros.event import Event
    af = ActiveFabric()
    cleanup(af)
    _n[0] += 1
    sig = 'C08_%d' % _n[0]
    release = threading.Event()
    q = Gate(release)
    try:
        af.subscribe(q, Event(signal=sig), queue_type=sc['sub'])
        expected = []
        k = 0
        for p in sc['first']:                      # published while the fabric is stopped: all of them wait
            af.publish(Event(signal=sig, payload=k), priority=p)
            expected.append((p, k))
            k += 1
        af.start()
        time.sleep(0.05)                           # the delivery thread took the best one and is stalled in append
        if sc['restart']:
            af.start()                             # a redundant start() must not disturb what is waiting
        for p in sc['later']:
            af.publish(Event(signal=sig, payload=k), priority=p)
            expected.append((p, k))
            k += 1
        time.sleep(0.05)
        if sc.get('stop_while_busy'):
            st = threading.Thread(target=af.stop, daemon=True)
            st.start()
            time.sleep(0.05)
            release.set()
            st.join(3.0)
            if st.is_alive():
                return False, 'stop() did not return', 'stop:'
            time.sleep(0.05)
            af.start()
        release.set()
        t0 = time.time()
        while len(q) < len(expected) and time.time() - t0 < 2.0:
            time.sleep(0.01)
        got = [e.payload for e in q]
        first = min(range(len(sc['first'])), key=lambda i: (sc['first'][i], i))
        rest = sorted([x for x in expected if x[1] != first], key=lambda x: (x[0], x[1]))
        want = [first] + [x[1] for x in rest]
        if got != want:
            return False, 'priorities %s then %s: delivered in order %s, expected %s (priority, then publish order)' % (
                sc['first'], sc['later'], got, want), 'FabricEvent' if not sc['restart'] else 'FabricEvent:frame'
        return True, ''
    finally:
        release.set()
        cleanup(af)


if __name__ == '__main__':
    main('C08', scenarios, run)
