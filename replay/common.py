"""Native replay harness (runs under /venv/bin/python against the real miros in $MIROS_REPO or /repo).

A property's replayer supplies
    scenarios(seed, tier, failed) -> iterable of JSON-able scenario dicts (catalogue first, then seeded random)
    run(scenario) -> (ok, detail)     the oracle is the property's own post-condition, observed from outside
`--search request.json` prints one JSON line {found, replay, scenario, summary}; `--replay file` re-runs one
scenario and exits 1 when it still fails.
"""
import json
import os
import signal
import sys
import time
import traceback


class Timeout(Exception):
    pass


def _alarm(signum, frame):
    raise Timeout()


def with_timeout(seconds, fn, *a):
    old = signal.signal(signal.SIGALRM, _alarm)
    signal.setitimer(signal.ITIMER_REAL, seconds)
    try:
        return fn(*a)
    finally:
        signal.setitimer(signal.ITIMER_REAL, 0)
        signal.signal(signal.SIGALRM, old)


def main(pid, scenarios, run, budget_s=None):
    if len(sys.argv) >= 3 and sys.argv[1] == '--replay':
        with open(sys.argv[2]) as f:
            rec = json.load(f)
        sc = rec.get('scenario') or rec.get('failing_input')
        if not sc:
            print('replay file carries no failing input (obligation %s): solver output only' % rec.get('obligation'))
            print((rec.get('solver_output') or '')[:2000])
            sys.exit(1)
        res = safe_run(run, sc)
        ok, detail = res[0], res[1]
        print('scenario: %s' % json.dumps(sc)[:2000])
        print('result: %s' % ('property holds on this input' if ok else 'VIOLATION reproduced'))
        print('detail: %s' % (detail,))
        sys.exit(0 if ok else 1)
    if len(sys.argv) >= 3 and sys.argv[1] == '--search':
        with open(sys.argv[2]) as f:
            req = json.load(f)
        tier = req.get('tier', 'quick')
        budget = req.get('budget') or budget_s or (60 if tier == 'quick' else 600)
        t0 = time.time()
        n = 0
        failed = req.get('failed', [])
        names = [x['name'] for x in failed]
        failures = {}
        known_keys = set(req.get('known_keys', []))     # native keys of listed known findings (cross-check mode)
        known_seen = {}
        for sc in scenarios(req.get('seed', 0), tier, failed):
            n += 1
            res = safe_run(run, sc)
            ok, detail = res[0], res[1]
            key = res[2] if len(res) > 2 else '*'
            if not ok and key in known_keys:
                known_seen[key] = known_seen.get(key, 0) + 1
                if time.time() - t0 > budget:
                    break
                continue
            if not ok and key not in failures:
                os.makedirs(req['outdir'], exist_ok=True)
                path = os.path.join(req['outdir'], 'native_%s_%s.json' % (pid, ''.join(ch if ch.isalnum() else '_' for ch in key)))
                with open(path, 'w') as f:
                    json.dump({'property': pid, 'scenario': sc, 'detail': detail, 'key': key,
                               'failed_obligations': [nm for nm in names if key == '*' or key in nm]}, f, indent=1, default=str)
                failures[key] = {'key': key, 'replay': path, 'scenario': sc, 'detail': str(detail)[:500]}
                # stop early once every failed obligation has a native failure whose key it mentions
                if all(any(k == '*' or k in nm for k in failures) for nm in names):
                    break
            if time.time() - t0 > budget:
                break
        print(json.dumps({'found': bool(failures), 'failures': list(failures.values()), 'known_seen': known_seen, 'scenarios': n,
                          'summary': '%d native scenarios run in %.0fs, %d distinct failures' % (n, time.time() - t0, len(failures))}))
        return
    print('usage: --search request.json | --replay file')
    sys.exit(2)


def safe_run(run, sc):
    try:
        return with_timeout(sc.get('timeout', 10), run, sc)
    except Timeout:
        return False, 'did not terminate within %ss' % sc.get('timeout', 10)
    except Exception:
        return False, 'harness exception: ' + traceback.format_exc()[-1500:]
