"""C19 native oracle: see replay/instr.py; plus the documented markers (posts, deferrals, recalls, scribbles)."""
import random

from replay.common import main
from replay import instr


def scenarios(seed, tier, failed):
    rnd = random.Random(seed + 19)
    yield {'kind': 'markers', 'ops': [['defer', 'X'], ['defer', 'Y'], ['recall'], ['post_lifo', 'Z'], ['scribble', 'note'],
                                      ['recall'], ['recall'], ['post_fifo', 'X']], 'instrumented': True}
    yield {'kind': 'markers', 'ops': [['defer', 'X'], ['recall'], ['post_fifo', 'Y']], 'instrumented': False}
    for _ in range(40 if tier == 'quick' else 2000):
        ops = []
        for _ in range(rnd.randint(2, 9)):
            op = rnd.choice(['defer', 'defer', 'recall', 'post_fifo', 'post_lifo', 'scribble'])
            ops.append([op] if op == 'recall' else [op, rnd.choice(['X', 'Y', 'Z'])])
        yield {'kind': 'markers', 'ops': ops, 'instrumented': rnd.random() < 0.8}
    for k, sc in enumerate(instr.scenarios(seed, tier, failed, live=False)):
        if k % 3 == 0:
            sc['hook_queries'] = True
        yield sc


def run_markers(sc):
    from miros.hsm import HsmWithQueues
    from miros.event import Event
    chart = HsmWithQueues(instrumented=sc['instrumented'])
    chart.instrumented = sc['instrumented']
    deferred, expect = [], []
    for op in sc['ops']:
        before = list(chart.rtc.spy)
        if op[0] == 'recall':
            chart.recall()
            want = []
            if deferred:
                nm = deferred.pop(0)
                want = ['RECALL:' + nm, 'POST_FIFO:' + nm]
        elif op[0] == 'scribble':
            chart.scribble(op[1])
            want = [op[1]]
        else:
            getattr(chart, op[0])(Event(signal='C19_' + op[1]))
            want = [{'post_fifo': 'POST_FIFO:', 'post_lifo': 'POST_LIFO:', 'defer': 'POST_DEFERRED:'}[op[0]] + 'C19_' + op[1]]
            if op[0] == 'defer':
                deferred.append('C19_' + op[1])
        if not sc['instrumented']:
            want = []
        got = list(chart.rtc.spy)[len(before):]
        if got != want:
            return False, 'after %s the step log gained %s, documented markers are %s' % (op, got, want), 'marker[%s]' % op[0]
    return True, ''


def run(sc):
    if sc.get('kind') == 'markers':
        return run_markers(sc)
    return instr.run_c19(sc)


if __name__ == '__main__':
    main('C19', scenarios, run, budget_s=120)
