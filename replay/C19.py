"""C19 native oracle: see replay/instr.py; plus the documented markers (posts, deferrals, recalls, scribbles)."""
import random

from replay.common import main
from replay import instr


def scenarios(seed, tier, failed):
    rnd = random.Random(seed + 19)
    yield {'kind': 'markers', 'ops': [['defer', 'X'], ['defer', 'Y'], ['recall'], ['post_lifo', 'Z'], ['scribble', 'note'],
                                      ['recall'], ['recall'], ['post_fifo', 'X']], 'instrumented': True}
    yield {'kind': 'markers', 'ops': [['defer', 'X'], ['recall'], ['post_fifo', 'Y']], 'instrumented': False}
    for _ in range(40 if tier == 'quick' else 2000):
        ops = []
        for _ in range(rnd.randint(2, 9)):
            op = rnd.choice(['defer', 'defer', 'recall', 'post_fifo', 'post_lifo', 'scribble'])
            ops.append([op] if op == 'recall' else [op, rnd.choice(['X', 'Y', 'Z'])])
        yield {'kind': 'markers', 'ops': ops, 'instrumented': rnd.random() < 0.8}
    # long runs: more lines / records than the ring buffers hold, also after clear_spy() / clear_trace()
    for clear in (False, True):
        yield {'kind': 'chart', 'parent': [-1, 0, 0], 'init': [None, None, None], 'start': 1, 'host': 'HsmWithQueues',
               'react': {'0': {'S2': ['handled', None]}, '1': {'S0': ['tran', 2], 'S1': ['handled', None]}, '2': {'S0': ['tran', 1]}},
               'events': (['S0'] * 5 + ['S1', 'S2']) * 110, 'spy': True, 'live_spy': False, 'live_trace': False,
               'coarse_clock': False, 'exit_handled': [True] * 3, 'entry_handled': [True] * 3, 'timeout': 90,
               'clear_after_start': clear}
    for k, sc in enumerate(instr.scenarios(seed, tier, failed, live=False)):
        if k % 3 == 0:
            sc['hook_queries'] = True
        if k % 4 == 1:
            # application signals whose names look like the processor's own (they end in _SIGNAL)
            ren = lambda sg: sg + '_SIGNAL'
            sc['react'] = {s_: {ren(sg): r for sg, r in rs.items()} for s_, rs in sc['react'].items()}
            sc['events'] = [ren(sg) for sg in sc['events']]
        yield sc


def run_markers(sc):
    from miros.hsm import HsmWithQueues
    from miros.event import Event
    chart = HsmWithQueues(instrumented=sc['instrumented'])
    chart.instrumented = sc['instrumented']
    deferred, expect = [], []
    for op in sc['ops']:
        before = list(chart.rtc.spy)
        if op[0] == 'recall':
            chart.recall()
            want = []
            if deferred:
                nm = deferred.pop(0)
                want = ['RECALL:' + nm, 'POST_FIFO:' + nm]
        elif op[0] == 'scribble':
            chart.scribble(op[1])
            want = [op[1]]
        else:
            getattr(chart, op[0])(Event(signal='C19_' + op[1]))
            want = [{'post_fifo': 'POST_FIFO:', 'post_lifo': 'POST_LIFO:', 'defer': 'POST_DEFERRED:'}[op[0]] + 'C19_' + op[1]]
            if op[0] == 'defer':
                deferred.append('C19_' + op[1])
        if not sc['instrumented']:
            want = []
        got = list(chart.rtc.spy)[len(before):]
        if got != want:
            return False, 'after %s the step log gained %s, documented markers are %s' % (op, got, want), 'marker[%s]' % op[0]
    return True, ''


def run(sc):
    if sc.get('kind') == 'markers':
        return run_markers(sc)
    return instr.run_c19(sc)


if __name__ == '__main__':
    main('C19', scenarios, run, budget_s=120)
