"""C14 / C15 native oracle: post_fifo / post_lifo / defer / recall / next_rtc / complete_circuit on one or two real
queued charts (handlers may post, defer and recall during a step) against a reference double-ended queue."""
import random
from collections import deque

from replay.common import main

OPS = ['fifo', 'lifo', 'next', 'circuit', 'defer', 'recall']
SIGS = ['E1', 'E2', 'E3', 'HPOSTF', 'HPOSTL', 'HDEFER', 'HRECALL']


def run_pre_start(sc):
    """events deferred / posted before start_at are still there afterwards"""
    from miros.event import Event, signals, return_status
    from miros.hsm import HsmWithQueues, spy_on
    log = []

    def only(chart, e):
        if e.signal in (signals.ENTRY_SIGNAL, signals.EXIT_SIGNAL, signals.INIT_SIGNAL):
            return return_status.HANDLED
        if e.signal in (signals.SEARCH_FOR_SUPER_SIGNAL, signals.EMPTY_SIGNAL, signals.REFLECTION_SIGNAL):
            chart.temp.fun = chart.top
            return return_status.SUPER
        log.append(e.signal_name)
        return return_status.HANDLED
    fn = spy_on(only) if sc['spy'] else only
    if sc['host'] == 'ActiveObject':
        from miros.activeobject import ActiveObject
        ch = ActiveObject(name='c15pre')
        start = lambda: HsmWithQueues.start_at(ch, fn)      # the chart without its thread
    else:
        ch = HsmWithQueues()
        start = lambda: ch.start_at(fn)
    ch.defer(Event(signal='X'))
    ch.defer(Event(signal='Y'))
    ch.post_fifo(Event(signal='A'))
    start()
    r1, r2, r3 = ch.recall(), ch.recall(), ch.recall()
    got = [r.signal_name if r is not None else None for r in (r1, r2, r3)]
    if got != ['X', 'Y', None]:
        return False, 'defer X, defer Y, start_at, three recalls returned %s' % got, 'start_at'
    ch.complete_circuit()
    if log != ['A', 'X', 'Y']:
        return False, 'post A, defer X, defer Y, start_at, recall, recall: dispatched %s' % log, 'start_at'
    return True, ''


def scenarios(seed, tier, failed):
    for host in ('HsmWithQueues', 'ActiveObject'):
        for spy in (True, False):
            yield {'kind': 'pre-start', 'host': host, 'spy': spy, 'timeout': 20}
    rnd = random.Random(seed + 5)
    n = 600 if tier == 'quick' else 20000
    for k in range(n):
        charts = 1 if k % 3 else 2
        ops = []
        for _ in range(rnd.randint(3, 14)):
            op = rnd.choice(OPS)
            ops.append([rnd.randrange(charts), op, rnd.choice(SIGS)])
        ops.append([0, 'circuit', ''])
        if charts == 2:
            ops.append([1, 'circuit', ''])
        yield {'kind': 'queues', 'charts': charts, 'ops': ops, 'spy': bool(k % 2), 'live_trace': k % 4 == 1,
               'reuse': k % 2 == 1, 'instrumented': k % 6 != 4,
               'live_spy': k % 8 == 3, 'host': 'HsmWithQueues' if k % 5 else 'ActiveObject', 'timeout': 20}


class Ref:
    def __init__(self):
        self.q, self.d, self.log = deque(), deque(), []

    def step(self):
        if not self.q:
            return False
        e = self.q.popleft()
        self.log.append(e)
        if e.startswith('HPOSTF'):
            self.q.append('E1')
        elif e.startswith('HPOSTL'):
            self.q.appendleft('E2')
        elif e.startswith('HDEFER'):
            self.d.append('E3')
        elif e.startswith('HRECALL'):
            if self.d:
                self.q.append(self.d.popleft())
        return True


def run(sc):
    if sc.get('kind') == 'pre-start':
        return run_pre_start(sc)
    from miros.event import Event, signals, return_status
    from miros.hsm import HsmWithQueues, spy_on
    logs = [[] for _ in range(sc['charts'])]
    recalled = [[] for _ in range(sc['charts'])]

    def make(idx):
        def only(chart, e):
            if e.signal in (signals.ENTRY_SIGNAL, signals.EXIT_SIGNAL, signals.INIT_SIGNAL):
                return return_status.HANDLED
            if e.signal in (signals.SEARCH_FOR_SUPER_SIGNAL, signals.EMPTY_SIGNAL, signals.REFLECTION_SIGNAL):
                chart.temp.fun = chart.top
                return return_status.SUPER
            nm = e.signal_name
            logs[idx].append(nm)
            if nm.startswith('HPOSTF'):
                chart.post_fifo(Event(signal='E1'))
            elif nm.startswith('HPOSTL'):
                chart.post_lifo(Event(signal='E2'))
            elif nm.startswith('HDEFER'):
                chart.defer(Event(signal='E3'))
            elif nm.startswith('HRECALL'):
                recalled[idx].append(chart.recall())
            return return_status.HANDLED
        only.__name__ = 'only%d' % idx
        return spy_on(only) if sc['spy'] else only

    charts = []
    for i in range(sc['charts']):
        if sc['host'] == 'ActiveObject':
            from miros.activeobject import ActiveObject
            ch = ActiveObject(name='c%d' % i)
            HsmWithQueues.start_at(ch, make(i))      # the chart, without its thread: steps are driven by hand
        else:
            ch = HsmWithQueues()
            ch.start_at(make(i))
        ch.live_trace, ch.live_spy = sc['live_trace'], sc['live_spy']
        if not sc.get('instrumented', True):
            ch.instrumented = False
        ch.register_live_spy_callback(lambda line: None) if sc['host'] != 'ActiveObject' else None
        ch.register_live_trace_callback(lambda line: None) if sc['host'] != 'ActiveObject' else None
        charts.append(ch)
    refs = [Ref() for _ in charts]
    pool = {}

    def Event(signal):                      # noqa: N802  -- every other scenario reuses one instance per signal
        from miros.event import Event as RealEvent
        if not sc.get('reuse'):
            return RealEvent(signal=signal)
        if signal not in pool:
            pool[signal] = RealEvent(signal=signal)
        return pool[signal]
    for k, (i, op, sg) in enumerate(sc['ops']):
        ch, ref = charts[i], refs[i]
        if op == 'fifo':
            ch.post_fifo(Event(signal=sg))
            ref.q.append(sg)
        elif op == 'lifo':
            ch.post_lifo(Event(signal=sg))
            ref.q.appendleft(sg)
        elif op == 'defer':
            ch.defer(Event(signal=sg))
            ref.d.append(sg)
        elif op == 'recall':
            got = ch.recall()
            want = ref.d.popleft() if ref.d else None
            if want is not None:
                ref.q.append(want)
            if (got.signal_name if got is not None else None) != want:
                return False, 'op %d recall returned %r, oldest deferred is %r' % (k, got, want), 'recall'
        elif op == 'next':
            had = bool(ref.q)
            r = ch.next_rtc()
            ref.step()
            if bool(r) != had:
                return False, 'op %d next_rtc returned %r with %s queue' % (k, r, 'non-empty' if had else 'empty'), 'next_rtc'
        elif op == 'circuit':
            ch.complete_circuit()
            guard = 0
            while ref.step() and guard < 10000:
                guard += 1
            if len(ch.queue) != 0:
                return False, 'op %d complete_circuit returned with %d events still queued' % (k, len(ch.queue)), \
                    'complete_circuit'
        for j in range(len(charts)):
            if logs[j] != refs[j].log:
                return False, 'after op %d (%s on chart %d): chart %d dispatched %s, a deque gives %s' % (
                    k, op, i, j, logs[j], refs[j].log), 'next_rtc' if op in ('next', 'circuit') else 'post_' + op
            qnames = [e.signal_name for e in (charts[j].queue if sc['host'] != 'ActiveObject' else charts[j].queue.deque)]
            if qnames != list(refs[j].q):
                return False, 'after op %d (%s on chart %d): chart %d queue %s, a deque holds %s' % (
                    k, op, i, j, qnames, list(refs[j].q)), ('__init__' if j != i else ('post_' + op if op in ('fifo', 'lifo') else op))
            dnames = [e.signal_name for e in charts[j].defer_queue]
            if dnames != list(refs[j].d):
                return False, 'after op %d: deferred %s, expected %s' % (k, dnames, list(refs[j].d)), 'defer'
    return True, ''


if __name__ == '__main__':
    main("C15", scenarios, run)
