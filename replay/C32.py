"""C32 native oracle: stripped() on traces produced by a real chart and on perturbations of them (other timestamps,
blank lines, whitespace around lines), single lines included."""
import random
import re

from replay.common import main

TS = '[2017-11-05 15:17:39.424492]'


def scenarios(seed, tier, failed):
    rnd = random.Random(seed + 32)
    bodies = ['[75c8c] e->BATTERY_CHARGE() armed->armed', '[c] e->start_at() top->s1', '[n 1] e->A() s[1]->s2']
    for b in bodies:
        for pre in ('', ' ', '   ', '\t'):
            for post in ('', ' ', '  \t'):
                yield {'kind': 'single', 'line': pre + TS + ' ' + b + post, 'body': b}
    for _ in range(100 if tier == 'quick' else 5000):
        n = rnd.randint(2, 6)
        bs = [rnd.choice(bodies) for _ in range(n)]
        yield {'kind': 'multi', 'bodies': bs, 'seed': rnd.randint(0, 10**6)}


def perturb(rnd, bodies):
    out = []
    for b in bodies:
        if rnd.random() < 0.3:
            out.append(rnd.choice(['', '   ', '\t']))
        ts = '[%04d-%02d-%02d %02d:%02d:%02d.%06d]' % (rnd.randint(2000, 2030), rnd.randint(1, 12), rnd.randint(1, 28),
                                                       rnd.randint(0, 23), rnd.randint(0, 59), rnd.randint(0, 59),
                                                       rnd.randint(0, 999999))
        out.append(rnd.choice(['', ' ', '    ']) + ts + ' ' + b + rnd.choice(['', ' ', '  ']))
    return '\n' + '\n'.join(out) + rnd.choice(['', '\n', '\n\n'])


def run(sc):
    from miros.hsm import stripped
    if sc['kind'] == 'single':
        with stripped(sc['line']) as got:
            pass
        if got != sc['body']:
            return False, 'single line %r stripped to %r, expected %r (as a line of a multi-line trace would be)' % (
                sc['line'], got, sc['body']), 'single-line'
        return True, ''
    rnd = random.Random(sc['seed'])
    t1, t2 = perturb(rnd, sc['bodies']), perturb(rnd, sc['bodies'])
    with stripped(t1) as a, stripped(t2) as b:
        pass
    if a != sc['bodies'] or b != sc['bodies']:
        return False, 'trace %r stripped to %r, expected %r' % (t1, a, sc['bodies']), 'multi-line'
    other = list(sc['bodies'])
    other[0] = other[0] + 'x'
    with stripped(perturb(rnd, other)) as c3:
        pass
    if c3 == a:
        return False, 'traces with different bodies compare equal after stripping', 'multi-line'
    return True, ''


if __name__ == '__main__':
    main('C32', scenarios, run)
