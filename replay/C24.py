"""C24 native oracle: generated charts with one malformed initial transition (target outside the state, or the state
itself) or one handler returning None; reached by start_at or by a later event.  Every run is bounded by an alarm."""
import random

from replay.common import main
from replay import charts


def scenarios(seed, tier, failed):
    # catalogue first: a handler on the start path that answers the parent probe with None (start state, its parent)
    for ns in (1, 0):
        yield {'kind': 'chart', 'parent': [-1, 0, 1], 'init': [None, None, None], 'react': {'0': {}, '1': {}, '2': {}},
               'start': 2, 'events': [], 'host': 'HsmEventProcessor', 'spy': False, 'exit_handled': [True] * 3,
               'entry_handled': [True] * 3, 'none_super': ns, 'malformed': ['none-super', ns], 'timeout': 2}
    # a later event leads into a state that answers the parent probe with None: the target itself, its parent, or a
    # state further out (st0 > st1 > st2 > st3, the source st4 sits beside st0)
    for f in (3, 2, 1, 0):
        for tgt in (3, 2, 1):
            if f > tgt:
                continue
            yield {'kind': 'chart', 'parent': [-1, 0, 1, 2, -1], 'init': [None] * 5,
                   'react': {'0': {}, '1': {}, '2': {}, '3': {}, '4': {'S0': ['tran', tgt]}},
                   'start': 4, 'events': ['S0'], 'host': 'HsmEventProcessor', 'spy': False, 'exit_handled': [True] * 5,
                   'entry_handled': [True] * 5, 'none_super': f, 'malformed': ['none-super-later', f], 'timeout': 2}
    rnd = random.Random(seed + 24)
    for k in range(300 if tier == 'quick' else 10000):
        sc = charts.gen_scenario(rnd, n=rnd.randint(2, 7), nevents=rnd.randint(2, 6))
        n = len(sc['parent'])
        s = rnd.randrange(n)
        kind = ['outside', 'self', 'none', 'none-super', 'none-super-later'][k % 5]
        if kind == 'none-super-later':
            cur, log = charts.expected_start(sc)
            later = [x for x in range(n) if ['EN', x] not in log]
            if not later:
                continue
            sc['none_super'] = rnd.choice(later)
            sc['malformed'] = [kind, sc['none_super']]
            sc['timeout'] = 2
            yield sc
            continue
        if kind == 'none-super':
            # a handler on the start path that answers the parent probe with None
            sc['none_super'] = rnd.choice([x for x in charts.ancestors(sc['parent'], sc['start']) if x != -1])
            sc['malformed'] = [kind, sc['none_super']]
            sc['events'] = []
            sc['timeout'] = 2
            yield sc
            continue
        if kind == 'outside':
            bad = [x for x in range(n) if x != s and s not in charts.ancestors(sc['parent'], x)]
            if not bad:
                continue
            sc['init'][s] = rnd.choice(bad)
        elif kind == 'self':
            sc['init'][s] = s
        else:
            sc['react'][str(s)]['S0'] = ['none', None]
        sc['malformed'] = [kind, s]
        sc['timeout'] = 2
        yield sc


def run(sc):
    from miros.hsm import HsmTopologyException
    kind, s = sc['malformed']
    parent = sc['parent']
    # reference: walk the well-formed semantics until the malformed spot is reached
    def reaches_bad_init(cur_after_entering):
        return cur_after_entering == s
    rec = charts.Recorder()
    handlers, raw, names = charts.build_handlers(sc, rec, None)
    chart = charts.make_host(sc)
    from miros.event import Event

    def step(fn):
        try:
            fn()
            return None
        except HsmTopologyException:
            return 'topology'
        except Exception as ex:
            return repr(ex)

    def entered_bad_state():
        return ['IN', s] in rec.actions

    r = step(lambda: chart.start_at(handlers[sc['start']]))
    key = 'start_at'
    if kind == 'none-super':
        if r != 'topology':
            return False, 'start_at through st%d, which answers the parent probe with None, ended with %r' % (s, r), key
        return True, ''
    if kind == 'none-super-later':
        if r is not None:
            return False, 'start_at which does not enter the faulty state st%d ended with %r' % (s, r), key
        cur, _ = charts.expected_start(sc)
        for k, sg in enumerate(sc['events']):
            new, log, offers, outcome = charts.expected_step(sc, cur, sg)
            r = step(lambda: chart.dispatch(Event(signal=sg)))
            if ['EN', s] in log:
                if r != 'topology':
                    return False, 'event #%d %s leads into st%d, which answers the parent probe with None, and ended ' \
                                  'with %r' % (k, sg, s, r), 'dispatch-into-faulty'
                return True, ''
            if r is not None:
                return False, 'event #%d %s does not lead into the faulty state st%d but ended with %r' % (k, sg, s, r), \
                    'dispatch'
            cur = new
        return True, ''
    if kind in ('outside', 'self') and entered_bad_state():
        if r != 'topology':
            return False, 'start_at took the malformed initial transition of st%d (%s) and ended with %r' % (s, kind, r), key
        return True, ''
    if r is not None:
        return False, 'start_at of a chart whose malformed spot was not reached ended with %r' % (r,), key
    for k, sg in enumerate(sc['events']):
        n0 = len(rec.actions)
        offered0 = len(rec.offers)
        r = step(lambda: chart.dispatch(Event(signal=sg)))
        key = 'dispatch'
        hit_init = kind in ('outside', 'self') and ['IN', s] in rec.actions[n0:]
        hit_none = kind == 'none' and sg == 'S0' and s in rec.offers[offered0:]
        if hit_init or hit_none:
            if r != 'topology':
                return False, 'event #%d %s reached the malformed spot (st%d, %s) and ended with %r' % (k, sg, s, kind, r), key
            return True, ''
        if r is not None:
            return False, 'event #%d %s did not reach the malformed spot but ended with %r' % (k, sg, r), key
    return True, ''


if __name__ == '__main__':
    main('C24', scenarios, run)
