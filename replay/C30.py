"""C30 native oracle: two threads request a singleton for the first time; the constructor of the wrapped class is
made to block (a user-side seam, miros untouched) so that both requests overlap deterministically."""
import threading
import time

from replay.common import main


def scenarios(seed, tier, failed):
    for n in (2, 3):
        yield {'kind': 'singleton', 'threads': n, 'timeout': 20}


def run(sc):
    from miros.singleton import SingletonDecorator
    inside, go = threading.Event(), threading.Event()
    made = []

    class Slow:
        def __init__(self):
            made.append(self)
            inside.set()
            go.wait(2.0)

    S = SingletonDecorator(Slow)
    got = []

    def request():
        got.append(S())
    ts = [threading.Thread(target=request, daemon=True) for _ in range(sc['threads'])]
    ts[0].start()
    inside.wait(2.0)
    for t in ts[1:]:
        t.start()
    time.sleep(0.2)
    go.set()
    for t in ts:
        t.join(3.0)
    again = S()
    ids = {id(x) for x in got} | {id(again)}
    if len(made) != 1 or len(ids) != 1 or len(got) != sc['threads']:
        return False, '%d concurrent first requests built %d instances and returned %d distinct objects' % (
            sc['threads'], len(made), len(ids)), '__call__'
    return True, ''


if __name__ == '__main__':
    main('C30', scenarios, run)
