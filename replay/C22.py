"""C22 native oracle: generated charts on the real HsmEventProcessor against reference UML semantics
(with is_in / child_state queries between steps where the idle invariant is concerned)."""
from replay.common import main
from replay import charts

ASPECTS = {'C01': ('actions', 'state'), 'C02': ('offers', 'state', 'actions', 'ignored'), 'C03': ('actions', 'state'),
           'C22': ('actions', 'state', 'offers')}['C22']


def scenarios(seed, tier, failed):
    hosts = ('HsmEventProcessor', 'InstrumentedHsmEventProcessor', 'HsmWithQueues')
    for k, sc in enumerate(charts.standard_scenarios(seed, tier, hosts=hosts, spy_options=(False, True), with_queries=True)):
        if 'C22' == 'C03':
            sc['events'] = []
        if k % 6 == 1 and sc.get('queries'):
            # spy-decorated states on a chart without instrumentation: the wrappers still keep the two names
            sc['host'], sc['spy'] = 'HsmEventProcessor', True
        yield sc


def run(sc):
    ok, detail, key = charts.run_and_check(sc, ASPECTS)
    if 'C22' == 'C03' and key == 'dispatch':
        return True, ''
    if 'C22' in ('C01', 'C02') and key == 'start_at':
        return True, ''
    return ok, detail


if __name__ == '__main__':
    main('C22', scenarios, run)
