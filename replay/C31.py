"""C31 native oracle: a timed post beyond the tracked-source capacity must raise and never post."""
import time

from replay.common import main


def scenarios(seed, tier, failed):
    for cap in (2, 3):
        yield {'kind': 'reject', 'capacity': cap, 'deferred': False, 'queue': 'fifo', 'finished': cap - 1, 'timeout': 20}
    for cap in (1, 2, 3):
        for deferred in (False, True):
            for kind in ('fifo', 'lifo'):
                yield {'kind': 'reject', 'capacity': cap, 'deferred': deferred, 'queue': kind, 'timeout': 20}


def run(sc):
    from miros.activeobject import ActiveObject, ActiveObjectOutOfPostedEventResources
    from miros.event import Event

    class Small(ActiveObject):
        QUEUE_SIZE = sc['capacity']

    ao = Small(name='c31')
    flags = []
    try:
        for i in range(sc['capacity']):
            if i < sc.get('finished', 0):
                ao.post_fifo(Event(signal='C31_DONE%d' % i), period=0.01, times=1, deferred=False)
            else:
                ao.post_fifo(Event(signal='C31_KEEP%d' % i), period=1000.0, times=2, deferred=True)
        if sc.get('finished'):
            time.sleep(0.1)
        flags = [pe.task_run_event for pe in ao.posted_events_queue]
        post = ao.post_fifo if sc['queue'] == 'fifo' else ao.post_lifo
        raised = False
        try:
            post(Event(signal='C31_REJECTED'), period=0.05, times=3, deferred=sc['deferred'])
        except ActiveObjectOutOfPostedEventResources:
            raised = True
        key = 'post_%s:rejected' % sc['queue']
        if not raised:
            return False, 'a source beyond capacity %d was accepted' % sc['capacity'], key
        time.sleep(0.25)
        names = [e.signal_name for e in ao.queue.deque]
        if 'C31_REJECTED' in names:
            return False, 'the rejected source posted its event %d time(s) (deferred=%s)' % (
                names.count('C31_REJECTED'), sc['deferred']), key
        if len(ao.posted_events_queue) != sc['capacity'] or \
                not all(f.is_set() for f in flags[sc.get('finished', 0):]):
            return False, 'tracked sources were disturbed by the rejected post', key
        return True, ''
    finally:
        for f in flags:
            f.clear()
        for pe in list(ao.posted_events_queue):
            pe.task_run_event.clear()


if __name__ == '__main__':
    main('C31', scenarios, run)
