"""C09 native oracle: position of a fabric-delivered event in a queue that already holds pending events."""
import random
import time
from collections import deque

from replay.common import main
from replay.C13 import cleanup

_n = [0]


def scenarios(seed, tier, failed):
    for kind in ('lifo', 'fifo'):
        for qtype in ('deque', 'LockingDeque'):
            for pending in (1, 2, 3):
                yield {'kind': 'placement', 'sub': kind, 'queue': qtype, 'pending': pending, 'timeout': 20}
    # what the two delivery calls do to the pending events (the contract of LockingDeque.append / appendleft):
    # any number pending, with or without surplus wake-up tokens (a chart pumped by hand leaves them behind)
    rnd = random.Random(seed + 9)
    cases = [(0, 0), (1, 0), (3, 0), (2, 498), (499, 0), (499, 1), (500, 0), (0, 500), (3, 497)]
    for k in range(20 if tier == 'quick' else 400):
        p = rnd.choice([0, 1, 2, 5, 250, 498, 499, 500])
        cases.append((p, rnd.randint(0, 500 - p)))
    for pending, surplus in cases:
        for kind in ('fifo', 'lifo'):
            yield {'kind': 'ld-put', 'sub': kind, 'pending': pending, 'surplus': surplus, 'timeout': 20}


def run_ld_put(sc):
    from miros.activeobject import LockingDeque
    ld = LockingDeque()
    M = ld.deque.maxlen
    n = min(sc['pending'] + sc['surplus'], M)
    for i in range(n):
        ld.append('filler%d' % i)
    for i in range(n - sc['pending']):
        ld.deque.popleft()              # processed by hand (next_rtc / complete_circuit): the token stays behind
    before = list(ld.deque)
    x = object()
    mname = 'append' if sc['sub'] == 'fifo' else 'appendleft'
    getattr(ld, mname)(x)
    after = list(ld.deque)
    key = 'LockingDeque.' + mname
    what = '%s with %d pending and %d surplus wake-up tokens' % (mname, len(before), sc['surplus'])
    if sc['sub'] == 'fifo':
        if not after or after[-1] is not x:
            return False, '%s: the new event is not at the back (position %s of %d)' % (
                what, [i for i, y in enumerate(after) if y is x], len(after)), key
        if len(before) < M and after[:-1] != before:
            return False, '%s: the pending events changed: %s -> %s' % (what, before[:4], after[:5]), key
    else:
        if not after or after[0] is not x:
            return False, '%s: the new event is not at the front (position %s of %d)' % (
                what, [i for i, y in enumerate(after) if y is x], len(after)), key
        if len(before) < M and after[1:] != before:
            return False, '%s: the pending events changed: %s -> %s' % (what, before[:4], after[:5]), key
    if len(after) != min(len(before) + 1, M):
        return False, '%s: %d events pending afterwards' % (what, len(after)), key
    return True, ''


def run(sc):
    if sc['kind'] == 'ld-put':
        return run_ld_put(sc)
    from miros.activeobject import ActiveFabric, LockingDeque
    from miros.event import Event
    af = ActiveFabric()
    cleanup(af)
    _n[0] += 1
    name = 'PLACE_%d' % _n[0]
    try:
        q = deque(maxlen=50) if sc['queue'] == 'deque' else LockingDeque()
        for i in range(sc['pending']):
            q.append('pending%d' % i)
        af.subscribe(q, Event(signal=name), queue_type=sc['sub'])
        af.start()
        ev = Event(signal=name)
        af.publish(ev)
        inner = q if sc['queue'] == 'deque' else q.deque
        t0 = time.time()
        while len(inner) == sc['pending'] and time.time() - t0 < 1.0:
            time.sleep(0.01)
        time.sleep(0.02)
        items = list(inner)
        pos = [i for i, x in enumerate(items) if x is ev]
        want = 0 if sc['sub'] == 'lifo' else len(items) - 1
        if pos != [want]:
            return False, '%s subscription, %d pending: delivered event at position %s of %d, expected %s (%s)' % (
                sc['sub'], sc['pending'], pos, len(items), want, 'front, as post_lifo' if sc['sub'] == 'lifo'
                else 'back, as post_fifo'), 'thread_runner_' + sc['sub']
        return True, ''
    finally:
        cleanup(af)


if __name__ == '__main__':
    main('C09', scenarios, run)
