"""C09 native oracle: position of a fabric-delivered event in a queue that already holds pending events."""
import random
import time
from collections import deque

from replay.common import main
from replay.C13 import cleanup

_n = [0]


def scenarios(seed, tier, failed):
    for kind in ('lifo', 'fifo'):
        for qtype in ('deque', 'LockingDeque'):
            for pending in (1, 2, 3):
                yield {'kind': 'placement', 'sub': kind, 'queue': qtype, 'pending': pending, 'timeout': 20}


def run(sc):
    from miros.activeobject import ActiveFabric, LockingDeque
    from miros.event import Event
    af = ActiveFabric()
    cleanup(af)
    _n[0] += 1
    name = 'PLACE_%d' % _n[0]
    try:
        q = deque(maxlen=50) if sc['queue'] == 'deque' else LockingDeque()
        for i in range(sc['pending']):
            q.append('pending%d' % i)
        af.subscribe(q, Event(signal=name), queue_type=sc['sub'])
        af.start()
        ev = Event(signal=name)
        af.publish(ev)
        inner = q if sc['queue'] == 'deque' else q.deque
        t0 = time.time()
        while len(inner) == sc['pending'] and time.time() - t0 < 1.0:
            time.sleep(0.01)
        time.sleep(0.02)
        items = list(inner)
        pos = [i for i, x in enumerate(items) if x is ev]
        want = 0 if sc['sub'] == 'lifo' else len(items) - 1
        if pos != [want]:
            return False, '%s subscription, %d pending: delivered event at position %s of %d, expected %s (%s)' % (
                sc['sub'], sc['pending'], pos, len(items), want, 'front, as post_lifo' if sc['sub'] == 'lifo'
                else 'back, as post_fifo'), 'thread_runner_' + sc['sub']
        return True, ''
    finally:
        cleanup(af)


if __name__ == '__main__':
    main('C09', scenarios, run)
