"""C17 native oracle and to_code emitter (runs under /venv/bin/python against the real miros).

Three builds of one generated chart description are run on the real HsmWithQueues and compared with each other and
with the reference UML semantics of replay/charts.py:
  hand      hand-written-shaped state functions (the if-ladder a user would write)
  template  state_method_template + register_signal_callback + register_parent
  to_code   the text returned by to_code() for every state of the template build, exec'ed and used in its place
plus a `factory` build (Factory.create/catch/nest/start_at, real threads) on a few scenarios.

`--emit request.json` prints the to_code text of every row of the stated finite family of callback tables (the VC
generator validates each text; see props/C17.py).
"""
import itertools
import json
import random
import sys
import time

from replay.common import main
from replay import charts

USER = ('A', 'B')
INNER = ('ENTRY_SIGNAL', 'INIT_SIGNAL', 'EXIT_SIGNAL')


# ------------------------------------------------------------------------------- the table family (emitter)
def rows(tier, seed):
    """Rows of a callback table as to_code sees them.  A row: which of ENTRY/INIT/EXIT/A/B carry a named callback,
    the default `handled` (first state ever registered on the chart) or nothing; the parent (top or a named state);
    the registration order; whether to_code is handed the name or the function."""
    rnd = random.Random(seed * 104729 + 5)
    out = []
    opts_inner = ('none', 'cb')
    for first in (False, True):
        for inner in itertools.product(opts_inner, repeat=3):
            for user in itertools.product(('none', 'cb'), repeat=2):
                for parent in ('top', 'named'):
                    reg = [s for s, o in zip(INNER + USER, inner + user) if o == 'cb']
                    if first and not reg:
                        continue        # the defaults are installed by the first registration: there must be one
                    perms = list(itertools.permutations(reg))
                    if tier == 'quick' and len(perms) > 3:
                        perms = [perms[0], perms[-1]] + rnd.sample(perms[1:-1], 1)
                    elif len(perms) > 24:
                        perms = [perms[0], perms[-1]] + rnd.sample(perms[1:-1], 22)
                    for order in perms:
                        out.append({'first': first, 'order': list(order), 'parent': parent,
                                    'by': 'name' if len(out) % 2 else 'function'})
    return out


def emit_row(row, k):
    """Registers the row on a fresh HsmWithQueues through the real API and calls the real to_code."""
    name = 'st_%d' % k
    rec = {'id': k, 'row': row, 'state': name, 'lookup': {}, 'code': None,
           'parent': 'chart.top' if row['parent'] == 'top' else 'outer_state'}
    import sys
    limit = sys.getrecursionlimit()
    sys.setrecursionlimit(200)
    try:
        chart, st = register_row(row, name, rec['lookup'])
    except BaseException as ex:
        rec['error'] = '%s: %s' % (type(ex).__name__, ex)
        rec['stage'] = 'registration'
        return rec
    finally:
        sys.setrecursionlimit(limit)
    try:
        rec['code'] = chart.to_code(name if row['by'] == 'name' else st)
    except Exception as ex:
        rec['error'] = '%s: %s' % (type(ex).__name__, ex)
        rec['stage'] = 'to_code'
    return rec


def register_row(row, name, lookup):
    from miros.hsm import HsmWithQueues, state_method_template
    from miros.event import signals, return_status
    chart = HsmWithQueues()
    st = state_method_template(name)
    other = state_method_template('outer_state')
    if not row['first']:
        # some other state was registered first: it, not ours, received the ENTRY/INIT/EXIT defaults
        def other_cb(chart, e):
            return return_status.HANDLED
        chart.register_signal_callback(other, signals.ENTRY_SIGNAL, other_cb)
    else:
        for s in INNER:
            lookup[s] = 'handled'
    for s in row['order']:
        def cb(chart, e):
            return return_status.HANDLED
        cb.__name__ = '%s_on_%s' % (name, s)
        chart.register_signal_callback(st, getattr(signals, s), cb)
        lookup[s] = cb.__name__
    if row['parent'] == 'top':
        chart.register_parent(st, chart.top)
    else:
        chart.register_parent(st, other)
    chart.register_parent(other, chart.top)
    return chart, st


def emit(tier, seed):
    out = []
    rs = rows(tier, seed)
    # the row with no callback at all (a state that only has a parent), both parents
    rs = [{'first': False, 'order': [], 'parent': 'named', 'by': 'name'},
          {'first': False, 'order': [], 'parent': 'top', 'by': 'function'}] + rs
    for k, row in enumerate(rs):
        out.append(emit_row(row, k))
    return out


# ------------------------------------------------------------------------------- the three builds
def gen(rnd, n=None, nevents=None):
    sc = charts.gen_scenario(rnd, n=n or rnd.randint(1, 6), nsig=3, nevents=nevents or rnd.randint(3, 8),
                             host='HsmWithQueues')
    n = len(sc['parent'])
    sc['kind'] = 'c17'
    sc['entry_reg'] = [rnd.random() < 0.6 for _ in range(n)]
    sc['exit_reg'] = [rnd.random() < 0.6 for _ in range(n)]
    sc['init_reg'] = [sc['init'][s] is not None or rnd.random() < 0.3 for s in range(n)]
    sc['order_seed'] = rnd.randrange(1 << 30)
    sc['build'] = 'all'
    return sc


def callbacks_for(sc, rec, ns):
    """name -> callback for every registered (state, signal); ns maps state names to this build's state functions."""
    from miros.event import return_status
    n = len(sc['parent'])
    table = {}

    def action(tag, s, status):
        def cb(chart, e):
            rec.actions.append([tag, s])
            return status
        return cb
    for s in range(n):
        row = []
        if sc['entry_reg'][s]:
            row.append(('ENTRY_SIGNAL', action('EN', s, return_status.HANDLED)))
        if sc['exit_reg'][s]:
            row.append(('EXIT_SIGNAL', action('EX', s, return_status.HANDLED)))
        if sc['init_reg'][s]:
            i = sc['init'][s]

            def init_cb(chart, e, s=s, i=i):
                rec.actions.append(['IN', s])
                if i is not None:
                    return chart.trans(ns['st%d' % i])
                return return_status.HANDLED
            row.append(('INIT_SIGNAL', init_cb))
        for sg, r in sorted(sc['react'][str(s)].items()):
            def user_cb(chart, e, s=s, r=r):
                rec.offers.append(s)
                if r[0] == 'tran':
                    return chart.trans(ns['st%d' % r[1]])
                if r[0] == 'handled':
                    return return_status.HANDLED
                return return_status.UNHANDLED
            row.append((sg, user_cb))
        for sg, cb in row:
            cb.__name__ = 'st%d_on_%s' % (s, sg)
        table[s] = row
    return table


def build_hand(sc, rec):
    from miros.hsm import HsmWithQueues
    from miros.event import signals, return_status
    chart = HsmWithQueues()
    ns = {}
    table = callbacks_for(sc, rec, ns)
    n = len(sc['parent'])

    def make(s):
        row = {getattr(signals, sg): cb for sg, cb in table[s]}

        def state(chart, e):
            cb = row.get(e.signal)
            if cb is not None:
                status = cb(chart, e)
            elif e.signal in (signals.ENTRY_SIGNAL, signals.INIT_SIGNAL, signals.EXIT_SIGNAL):
                status = return_status.HANDLED
            else:
                p = sc['parent'][s]
                status, chart.temp.fun = return_status.SUPER, (ns['st%d' % p] if p != -1 else chart.top)
            return status
        state.__name__ = 'st%d' % s
        return state
    for s in range(n):
        ns['st%d' % s] = make(s)
    return chart, ns


def build_template(sc, rec, chart=None):
    from miros.hsm import HsmWithQueues, state_method_template
    from miros.event import signals
    chart = chart or HsmWithQueues()
    ns = {}
    table = callbacks_for(sc, rec, ns)
    n = len(sc['parent'])
    for s in range(n):
        ns['st%d' % s] = state_method_template('st%d' % s)
    rnd = random.Random(sc.get('order_seed', 0))
    regs = [(s, sg, cb) for s in range(n) for sg, cb in table[s]]
    rnd.shuffle(regs)
    late = sc.get('late')
    chart._c17_late = []
    for s, sg, cb in regs:
        if late and [s, sg] == late['where']:
            chart._c17_late.append((ns['st%d' % s], getattr(signals, sg), cb))     # registered after some events ran
            continue
        chart.register_signal_callback(ns['st%d' % s], getattr(signals, sg), cb)
    order = list(range(n))
    rnd.shuffle(order)
    for s in order:
        p = sc['parent'][s]
        chart.register_parent(ns['st%d' % s], ns['st%d' % p] if p != -1 else chart.top)
    return chart, ns, table


def build_to_code(sc, rec):
    """Every state of the template build replaced by its exec'ed to_code text."""
    from miros.hsm import HsmWithQueues, spy_on
    from miros.event import signals, return_status
    rec0 = charts.Recorder()
    tchart, tns, _ = build_template(sc, rec0)
    n = len(sc['parent'])
    texts = {}
    for s in range(n):
        texts[s] = tchart.to_code('st%d' % s if s % 2 else tns['st%d' % s])
    chart = HsmWithQueues()
    ns = {}
    table = callbacks_for(sc, rec, ns)
    glob = {'spy_on': spy_on, 'signals': signals, 'return_status': return_status}
    for s in range(n):
        for sg, cb in table[s]:
            glob[cb.__name__] = cb
    for s in range(n):
        exec(texts[s], glob)
    for s in range(n):
        ns['st%d' % s] = glob['st%d' % s]
    return chart, ns, texts


def build_factory(sc, rec):
    from miros.activeobject import Factory
    from miros.event import signals
    chart = Factory('c17')
    ns = {}
    table = callbacks_for(sc, rec, ns)
    n = len(sc['parent'])
    bps = {}
    for s in range(n):
        bps[s] = chart.create(state='st%d' % s)
    for s in range(n):
        for sg, cb in table[s]:
            r = bps[s].catch(signal=getattr(signals, sg), handler=cb)
            if r is not bps[s]:
                raise AssertionError('catch() does not return the blueprint')
        ns['st%d' % s] = bps[s].to_method()
    for s in range(n):
        p = sc['parent'][s]
        by_name = sc.get('nest_by_name')
        if p == -1:
            chart.nest('st%d' % s if by_name else ns['st%d' % s], parent=None)
        else:
            chart.nest('st%d' % s if by_name else ns['st%d' % s], parent='st%d' % p if by_name else ns['st%d' % p])
    return chart, ns


def run_build(sc, which):
    """-> list of per-step dicts {actions, offers, cur}"""
    from miros.event import Event
    rec = charts.Recorder()
    texts = None
    if which == 'hand':
        chart, ns = build_hand(sc, rec)
    elif which == 'template':
        chart, ns, _ = build_template(sc, rec)
    elif which == 'to_code':
        chart, ns, texts = build_to_code(sc, rec)
    elif which == 'factory':
        chart, ns = build_factory(sc, rec)
    else:
        raise ValueError(which)
    n = len(sc['parent'])
    names = ['st%d' % s for s in range(n)]
    steps = []

    def cur():
        f = chart.state.fun
        nm = getattr(f, '__name__', None)
        return names.index(nm) if nm in names else None

    if which == 'factory':
        try:
            if sc.get('nest_by_name'):
                chart.start_at(names[sc['start']])
            else:
                chart.start_at(ns[names[sc['start']]])
            time.sleep(0.05)
            steps.append({'actions': rec.actions[:], 'offers': [], 'cur': cur()})
            for sg in sc['events']:
                a0, o0 = len(rec.actions), len(rec.offers)
                chart.post_fifo(Event(signal=sg))
                t0 = time.time()
                while time.time() - t0 < 2.0:
                    time.sleep(0.01)
                    if len(chart.queue) == 0 and time.time() - t0 > 0.04:
                        break
                steps.append({'actions': rec.actions[a0:], 'offers': rec.offers[o0:], 'cur': cur()})
        finally:
            try:
                chart.stop()
            except Exception:
                pass
        return steps, texts
    chart.start_at(ns[names[sc['start']]])
    steps.append({'actions': rec.actions[:], 'offers': [], 'cur': cur()})
    for k, sg in enumerate(sc['events']):
        if sc.get('late') and k == sc['late']['after'] and which == 'template':
            for st_fn, signum, cb in chart._c17_late:
                chart.register_signal_callback(st_fn, signum, cb)
        a0, o0 = len(rec.actions), len(rec.offers)
        chart.dispatch(Event(signal=sg))
        steps.append({'actions': rec.actions[a0:], 'offers': rec.offers[o0:], 'cur': cur()})
    return steps, texts


def reference(sc):
    """UML reference, with entry/exit/init actions of unregistered states silent."""
    def vis(log):
        out = []
        for tag, s in log:
            if tag == 'EN' and not sc['entry_reg'][s]:
                continue
            if tag == 'EX' and not sc['exit_reg'][s]:
                continue
            if tag == 'IN' and not sc['init_reg'][s]:
                continue
            out.append([tag, s])
        return out
    cur, log = charts.expected_start(sc)
    steps = [{'actions': vis(log), 'cur': cur}]
    late = sc.get('late')
    full = sc['react']
    if late:
        s0, sg0 = late['where']
        before = {k: dict(v) for k, v in full.items()}
        before[str(s0)].pop(sg0, None)
    for k, sg in enumerate(sc['events']):
        if late:
            sc = dict(sc, react=(before if k < late['after'] else full))
        new, log, offers, outcome = charts.expected_step(sc, cur, sg)
        # a callback runs in every state that registered one for the signal, until one does not decline
        steps.append({'actions': vis(log), 'cur': new, 'offers': [o for o in offers if o != -1 and sg in sc['react'][str(o)]]})
        cur = new
    return steps


def run(sc):
    ok, detail = run_(sc)
    return ok, detail, ('*' if ok else key_of(sc, detail))


def run_(sc):
    builds = ['hand', 'template', 'to_code'] if sc.get('build', 'all') == 'all' else [sc['build']]
    ref = reference(sc)
    got = {}
    for b in builds:
        try:
            got[b] = run_build(sc, b)[0]
        except Exception as ex:
            import traceback
            tb = traceback.extract_tb(ex.__traceback__)
            where = ' <- '.join('%s:%d' % (f.name, f.lineno) for f in tb[-3:])
            return False, 'build %s fails with %s: %s (%s)' % (b, type(ex).__name__, ex, where)
    for b in builds:
        for k, (g, r) in enumerate(zip(got[b], ref)):
            what = 'start_at' if k == 0 else 'event #%d %s' % (k - 1, sc['events'][k - 1])
            if g['actions'] != r['actions']:
                return False, '%s build, %s: actions %s, the hand-written chart semantics give %s' % (b, what, g['actions'], r['actions'])
            if g['cur'] != r['cur']:
                return False, '%s build, %s: rests in %s, expected st%s' % (b, what, g['cur'], r['cur'])
            if k and g['offers'] != r['offers']:
                return False, '%s build, %s: callbacks ran in states %s, expected %s' % (b, what, g['offers'], r['offers'])
    return True, ''


def scenarios(seed, tier, failed):
    rnd = random.Random(seed * 31 + 7)
    # catalogue: a state with a parent and no callback at all; str overloads of the Factory
    base = gen(random.Random(1), n=3, nevents=3)
    bare = dict(base, react={str(s): {} for s in range(3)}, entry_reg=[False] * 3, exit_reg=[False] * 3,
                init_reg=[False] * 3, init=[None] * 3)
    yield dict(bare, build='to_code', note='no callbacks anywhere')
    yield dict(bare, build='template', note='no callbacks anywhere')
    one = dict(bare, entry_reg=[True, False, False])
    yield dict(one, build='to_code', note='states 1 and 2 have a parent but no callback')
    yield dict(base, build='factory', nest_by_name=True, note='Factory.nest/start_at by name')
    yield dict(base, build='factory', nest_by_name=False)
    total = 400 if tier == 'quick' else 20000
    for k in range(total):
        sc = gen(rnd)
        if k % 5 == 3:
            # a reaction that is registered only after the chart has already run some events
            cands = [(int(s_), sg) for s_, r in sc['react'].items() for sg in r]
            if cands and len(sc['events']) >= 2:
                s_, sg = rnd.choice(cands)
                sc['late'] = {'where': [s_, sg], 'after': rnd.randint(1, len(sc['events']) - 1)}
                sc['events'] = [sg if rnd.random() < 0.5 else e for e in sc['events']]
                sc['build'] = 'template'
        if k % 50 == 7:
            sc['build'] = 'factory'
            sc['nest_by_name'] = bool(k % 100 == 7)
            sc['events'] = sc['events'][:3]
        yield sc


def key_of(sc, detail):
    if 'build factory' in detail or 'factory build' in detail:
        return 'Factory'
    if 'to_code' in detail:
        return 'to_code'
    if 'template' in detail and "'_lookup'" in detail:
        return 'signal_callback'
    if 'template' in detail:
        return 'template'
    return '*'


if __name__ == '__main__':
    if len(sys.argv) >= 3 and sys.argv[1] == '--emit':
        with open(sys.argv[2]) as f:
            req = json.load(f)
        print(json.dumps(emit(req.get('tier', 'quick'), req.get('seed', 0))))
        sys.exit(0)
    main('C17', scenarios, run)
