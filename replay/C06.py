"""C06 native oracle: subscribe/publish histories over several queues (incl. distinct queues with equal contents)
on the real ActiveFabric against an identity-based reference registry."""
import itertools
import random
import time
from collections import deque

from replay.common import main
from replay.C13 import cleanup

_n = [0]


def scenarios(seed, tier, failed):
    qs, sigs = [0, 1, 2], ['A', 'B']
    subs = [('sub', q, s, k) for q in qs[:2] for s in sigs[:1] for k in ('fifo',)]
    for n in (2, 3, 4):
        for ops in itertools.product(subs, repeat=n):
            yield {'kind': 'fabric', 'ops': [list(o) for o in ops] + [['pub', 'A']], 'timeout': 20}
    rnd = random.Random(seed)
    for _ in range(150 if tier == 'quick' else 3000):
        ops = []
        for _ in range(rnd.randint(3, 9)):
            if rnd.random() < 0.7:
                ops.append(['sub', rnd.choice(qs + [3]), rnd.choice(sigs), rnd.choice(['fifo', 'lifo'])])
            else:
                ops.append(['pub', rnd.choice(sigs)])
        ops.append(['pub', rnd.choice(sigs)])
        yield {'kind': 'fabric', 'ops': ops, 'timeout': 20, 'start_first': rnd.random() < 0.5}


def run(sc):
    from miros.activeobject import ActiveFabric, LockingDeque
    from miros.event import Event
    af = ActiveFabric()
    cleanup(af)
    _n[0] += 1
    tag = 'T%d_' % _n[0]
    queues = [deque(maxlen=50), deque(maxlen=50), deque(maxlen=50), LockingDeque()]
    reg = {'fifo': {}, 'lifo': {}}
    expect = [0, 0, 0, 0]
    try:
        if sc.get('start_first'):
            af.start()
        for op in sc['ops']:
            if op[0] == 'sub':
                _, q, s, k = op
                af.subscribe(queues[q], Event(signal=tag + s), queue_type=k)
                lst = reg[k].setdefault(s, [])
                if q not in lst:
                    lst.append(q)
            else:
                af.publish(Event(signal=tag + op[1]))
                for k in ('fifo', 'lifo'):
                    for q in reg[k].get(op[1], []):
                        expect[q] += 1
                if sc.get('start_first'):
                    time.sleep(0.02)
        if not sc.get('start_first'):
            # publications made before start() are outside the property ("published while the fabric runs"): they wait
            # and go to whoever is subscribed when the threads start.  Only "never to a non-subscriber, never more than
            # once per kind" is checked for them.
            af.start()
            time.sleep(0.15)
            got = [len(q) if not isinstance(q, LockingDeque) else len(q.deque) for q in queues]
            pubs = {}
            for op in sc['ops']:
                if op[0] == 'pub':
                    pubs[op[1]] = pubs.get(op[1], 0) + 1
            for q in range(4):
                bound = sum(pubs.get(s_, 0) for k in ('fifo', 'lifo') for s_, lst in reg[k].items() if q in lst)
                if got[q] > bound:
                    return False, 'queue %d received %d events, at most %d were published for its subscriptions' % (
                        q, got[q], bound), 'subscribe:'
            return True, ''
        t0 = time.time()
        while time.time() - t0 < 1.0:
            got = [len(q) if not isinstance(q, LockingDeque) else len(q.deque) for q in queues]
            if got == expect:
                break
            time.sleep(0.01)
        time.sleep(0.03)
        got = [len(q) if not isinstance(q, LockingDeque) else len(q.deque) for q in queues]
        if got != expect:
            return False, 'deliveries per queue %s, expected %s (each subscriber once per kind, nobody else)' % (got, expect), \
                'subscribe:'
        # the fabric's own answer to "is this very queue subscribed?" -- also for queues that are empty right now
        fresh = [deque(maxlen=50), LockingDeque()]
        for k in ('fifo', 'lifo'):
            for s_ in ('A', 'B'):
                if s_ not in reg[k]:
                    continue
                for qi, q in enumerate(queues + fresh):
                    want = qi < len(queues) and qi in reg[k][s_]
                    try:
                        ans = af.subscribed(Event(signal=tag + s_), k, q)
                    except TypeError:
                        break
                    if bool(ans) != want:
                        return False, 'subscribed(%s, %s, queue %d) answers %r, the registry says %r' % (s_, k, qi, ans, want), \
                            'fabric.subscribed'
        return True, ''
    finally:
        cleanup(af)


if __name__ == '__main__':
    main('C06', scenarios, run)
