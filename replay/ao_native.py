"""Native scenarios on real, threaded active objects (C04, C10, C12): consumption, timed posts, stop."""
import random
import threading
import time


def make_ao(name, log, spy=True, handler_extra=None):
    from miros.activeobject import ActiveObject
    from miros.event import signals, return_status
    from miros.hsm import spy_on

    def only(chart, e):
        if e.signal in (signals.ENTRY_SIGNAL, signals.EXIT_SIGNAL, signals.INIT_SIGNAL):
            return return_status.HANDLED
        if e.signal in (signals.SEARCH_FOR_SUPER_SIGNAL, signals.EMPTY_SIGNAL, signals.REFLECTION_SIGNAL):
            chart.temp.fun = chart.top
            return return_status.SUPER
        log.append((e.signal_name, e.payload, time.time(), threading.current_thread().name))
        if handler_extra:
            handler_extra(chart, e)
        return return_status.HANDLED
    only.__name__ = 'only_' + name
    ao = ActiveObject(name=name)
    return ao, (spy_on(only) if spy else only)


def stop_all(objs):
    from miros.activeobject import ActiveFabric
    from replay.C13 import cleanup
    for ao in objs:
        try:
            for pe in list(ao.posted_events_queue):
                pe.task_run_event.clear()
            if ao.thread is not None and ao.thread.is_alive():
                t = threading.Thread(target=ao.stop, daemon=True)
                t.start()
                t.join(2.0)
        except Exception:
            pass
    cleanup(ActiveFabric())


# ------------------------------------------------------------------ C04
def consume_scenarios(seed, tier):
    yield {'kind': 'flush', 'timeout': 20}
    rnd = random.Random(seed)
    for k in range(12 if tier == 'quick' else 200):
        yield {'kind': 'consume', 'posters': rnd.randint(1, 4), 'per': rnd.randint(3, 30),
               'lifo_ratio': rnd.choice([0.0, 0.3]), 'handler_posts': k % 3 == 0, 'timeout': 40}


def run_flush(sc):
    """a handler empties the object's own backlog in the middle of a step; what is posted afterwards is dispatched"""
    from miros.event import Event
    log = []

    def extra(chart, e):
        if e.signal_name == 'C04_FLUSH':
            chart.queue.clear()
    ao, fn = make_ao('c04flush', log, handler_extra=extra)
    try:
        ao.start_at(fn)
        time.sleep(0.05)
        for nm in ('C04_W1', 'C04_FLUSH', 'C04_W2'):
            ao.post_fifo(Event(signal=nm))
        time.sleep(0.2)
        for nm in ('C04_A', 'C04_B'):
            ao.post_fifo(Event(signal=nm))
        ao.post_lifo(Event(signal='C04_C'))
        t0 = time.time()
        while time.time() - t0 < 1.5 and len([x for x in log if x[0] in ('C04_A', 'C04_B', 'C04_C')]) < 3:
            time.sleep(0.01)
        seen = [x[0] for x in log]
        if not ao.thread.is_alive():
            return False, 'the active object thread died after a handler cleared the queue; dispatched %s' % seen, 'LockingDeque.clear'
        if sorted(x for x in seen if x in ('C04_A', 'C04_B', 'C04_C')) != ['C04_A', 'C04_B', 'C04_C']:
            return False, 'events posted after the flush were not all dispatched: %s' % seen, 'LockingDeque.clear'
        return True, ''
    finally:
        stop_all([ao])


def run_consume(sc):
    if sc.get('kind') == 'flush':
        return run_flush(sc)
    from miros.event import Event
    log = []

    def extra(chart, e):
        if sc['handler_posts'] and e.signal_name == 'C04_EV' and e.payload[1] % 7 == 0:
            chart.post_fifo(Event(signal='C04_FROM_HANDLER', payload=e.payload))
    ao, fn = make_ao('c04', log, handler_extra=extra)
    try:
        ao.start_at(fn)
        time.sleep(0.05)
        rnd = random.Random(sc['posters'] * 1000 + sc['per'])
        plan = [[rnd.random() < sc['lifo_ratio'] for _ in range(sc['per'])] for _ in range(sc['posters'])]

        def poster(p):
            for i in range(sc['per']):
                ev = Event(signal='C04_EV', payload=(p, i))
                (ao.post_lifo if plan[p][i] else ao.post_fifo)(ev)
        ts = [threading.Thread(target=poster, args=(p,), daemon=True) for p in range(sc['posters'])]
        for t in ts:
            t.start()
        for t in ts:
            t.join(5.0)
            if t.is_alive():
                return False, 'a poster did not return from post_fifo/post_lifo', 'post_'
        total = sc['posters'] * sc['per']
        t0 = time.time()
        while time.time() - t0 < 3.0:
            if len([x for x in log if x[0] == 'C04_EV']) >= total and len(ao.queue) == 0:
                break
            time.sleep(0.01)
        time.sleep(0.1)
        got = [x[1] for x in log if x[0] == 'C04_EV']
        if sorted(got) != sorted((p, i) for p in range(sc['posters']) for i in range(sc['per'])):
            missing = set((p, i) for p in range(sc['posters']) for i in range(sc['per'])) - set(got)
            return False, 'dispatched %d of %d posted events (missing %s, duplicates %d)' % (
                len(set(got)), total, sorted(missing)[:5], len(got) - len(set(got))), 'run_event'
        if len(ao.queue) != 0:
            return False, 'system quiescent but %d events still queued (lost wake-up)' % len(ao.queue), 'run_event'
        if sc['lifo_ratio'] == 0.0:
            for p in range(sc['posters']):
                seq = [i for (pp, i) in got if pp == p]
                if seq != sorted(seq):
                    return False, 'fifo posts of poster %d dispatched out of order: %s' % (p, seq[:10]), 'next_rtc'
        if len(set(x[3] for x in log)) > 1:
            return False, 'steps ran in several threads: %s' % set(x[3] for x in log), '__start'
        return True, ''
    finally:
        stop_all([ao])


# ------------------------------------------------------------------ C10
def timed_scenarios(seed, tier):
    yield {'kind': 'timed', 'interference': True, 'timeout': 30}
    for kind in ('fifo', 'lifo'):
        yield {'kind': 'timed', 'arm_before_start': True, 'queue': kind, 'times': 3, 'period': 0.06, 'timeout': 30}
    for kind in ('fifo', 'lifo'):
        for deferred in (False, True, None):
            for times in (1, 2, 4):
                yield {'kind': 'timed', 'queue': kind, 'deferred': deferred, 'times': times, 'period': 0.06,
                       'timeout': 30}


def run_timed(sc):
    from miros.event import Event
    log = []
    ao, fn = make_ao('c10', log)
    if sc.get('interference'):
        # a live periodic source, a finished one with the same signal, then one more timed post of another signal
        try:
            ao.post_fifo(Event(signal='C10_BEAT'), period=0.05, times=8, deferred=True)
            ao.post_fifo(Event(signal='C10_BEAT'), period=0.01, times=1, deferred=False)
            time.sleep(0.08)
            ao.post_lifo(Event(signal='C10_OTHER'), period=0.5, times=1, deferred=True)
            time.sleep(0.65)
            n = [e.signal_name for e in ao.queue.deque].count('C10_BEAT')
            if n != 9:
                return False, 'a times=8 source plus a one-shot posted %d events in all, expected 9: a later timed post ' \
                              'disturbed a running source' % n, 'runner'
            return True, ''
        finally:
            stop_all([ao])
    if sc.get('arm_before_start'):
        # a source armed before the chart is started keeps running through start_at
        try:
            p, n = sc['period'], sc['times']
            post = ao.post_fifo if sc['queue'] == 'fifo' else ao.post_lifo
            post(Event(signal='C10_TICK'), period=p, times=n, deferred=True)
            time.sleep(0.3 * p)
            ao.start_at(fn)
            time.sleep((n + 3) * p + 0.3)
            got = [x[0] for x in log].count('C10_TICK')
            if got != n:
                return False, 'times=%d armed before start_at: %d postings were dispatched' % (n, got), 'start_at'
            return True, ''
        finally:
            stop_all([ao])
    try:
        p, n = sc['period'], sc['times']
        ao.queue.deque.append(Event(signal='C10_PENDING'))        # something pending, to see which end is used
        t0 = time.time()
        post = ao.post_fifo if sc['queue'] == 'fifo' else ao.post_lifo
        kw = {} if sc['deferred'] is None else {'deferred': sc['deferred']}
        post(Event(signal='C10_TICK'), period=p, times=n, **kw)
        arrivals = []
        seen = 0
        while time.time() - t0 < (n + 3) * p + 0.3:
            names = [e.signal_name for e in ao.queue.deque]
            c = names.count('C10_TICK')
            if c > seen:
                arrivals.append(time.time() - t0)
                if c - seen == 1:
                    idx = names.index('C10_TICK') if sc['queue'] == 'lifo' else len(names) - 1 - names[::-1].index('C10_TICK')
                    want = 0 if sc['queue'] == 'lifo' else len(names) - 1
                    if idx != want:
                        return False, '%s timed post landed at position %d of %d' % (sc['queue'], idx, len(names)), 'runner:post'
                seen = c
            time.sleep(0.002)
        if seen != n:
            return False, 'times=%d posted %d times' % (n, seen), 'runner'
        deferred = True if sc['deferred'] is None else sc['deferred']
        first = arrivals[0]
        if deferred and first < 0.5 * p:
            return False, 'deferred post fired after %.3fs, period %.3fs' % (first, p), 'timed/spec'
        if not deferred and first > 0.6 * p:
            return False, 'non-deferred post fired only after %.3fs, period %.3fs' % (first, p), 'timed/spec'
        for a, b in zip(arrivals, arrivals[1:]):
            if not (0.5 * p <= b - a <= 2.5 * p):
                return False, 'gap %.3fs between posts, period %.3fs' % (b - a, p), 'runner:timing'
        return True, ''
    finally:
        stop_all([ao])


# ------------------------------------------------------------------ C12
def stop_scenarios(seed, tier):
    for inside in (False, True):
        for sources in (0, 1, 3):
            yield {'kind': 'stop', 'inside': inside, 'sources': sources, 'timeout': 30}
    # a deferred one-shot (and a three-shot) that is armed but has not fired when stop() runs; a backlog behind the
    # step that calls stop()
    yield {'kind': 'stop', 'inside': False, 'sources': 1, 'pending_shots': [1, 3], 'timeout': 30}
    yield {'kind': 'stop', 'inside': True, 'sources': 0, 'backlog': 5, 'timeout': 30}


def run_stop(sc):
    from miros.event import Event
    from miros.activeobject import ActiveFabric
    log = []

    def extra(chart, e):
        if e.signal_name == 'C12_STOP_YOURSELF':
            for i in range(sc.get('backlog', 0)):
                chart.post_fifo(Event(signal='C12_WORK'))        # queued behind the step that stops the object
            chart.stop()
    ao, fn = make_ao('c12', log, handler_extra=extra)
    other_log = []
    other, ofn = make_ao('c12other', other_log)
    try:
        ao.start_at(fn)
        other.start_at(ofn)
        time.sleep(0.05)
        names = ['C12_T%d' % (i % 2) for i in range(sc['sources'])]
        for nm in names:
            ao.post_fifo(Event(signal=nm), period=0.05, times=0, deferred=True)
        for k, shots in enumerate(sc.get('pending_shots', [])):
            ao.post_fifo(Event(signal='C12_LATE%d' % k), period=0.5, times=shots, deferred=True)
        flags = [pe.task_run_event for pe in ao.posted_events_queue]
        time.sleep(0.12)
        if sc['inside']:
            ao.post_fifo(Event(signal='C12_STOP_YOURSELF'))
            t0 = time.time()
            while ao.thread.is_alive() and time.time() - t0 < 2.0:
                time.sleep(0.01)
        else:
            t = threading.Thread(target=ao.stop, daemon=True)
            t.start()
            t.join(2.0)
            if t.is_alive():
                return False, 'stop() did not return within 2s', 'stop:'
        if ao.thread.is_alive():
            return False, 'the active object thread is still alive after stop()', 'stop:post/thread'
        if any(f.is_set() for f in flags) or len(ao.posted_events_queue) != 0:
            return False, '%d of %d timed sources still running, %d still tracked' % (
                sum(f.is_set() for f in flags), len(flags), len(ao.posted_events_queue)), 'stop:post'
        n_steps = len(log)
        q_len = len(ao.queue.deque)
        time.sleep(0.2)
        if len(log) != n_steps:
            return False, 'a run-to-completion step ran after stop()', 'run_event'
        if sc.get('backlog') and any(x[0] == 'C12_WORK' for x in log):
            return False, 'events queued behind the step that called stop() were still dispatched: %d' % (
                sum(1 for x in log if x[0] == 'C12_WORK')), 'run_event'
        if sc.get('pending_shots'):
            time.sleep(0.6)
            late = [e.signal_name for e in ao.queue.deque if e.signal_name.startswith('C12_LATE')]
            if late:
                return False, 'a timed source that was pending at stop() posted afterwards: %s' % late, 'runner:cancel'
        ticks = [e.signal_name for e in ao.queue.deque].count('C12_T0')
        time.sleep(0.15)
        if [e.signal_name for e in ao.queue.deque].count('C12_T0') != ticks:
            return False, 'a cancelled timed source kept posting after stop()', 'stop:post'
        if not ActiveFabric().is_alive() or not other.thread.is_alive():
            return False, 'stop() of one object took the fabric or another object down', 'stop:post/fabric'
        return True, ''
    finally:
        stop_all([ao, other])
