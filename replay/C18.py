"""C18 native oracle: see replay/instr.py (same chart in every configuration), plus live output whose callback uses
the chart's public API (the live flags must not change what the chart does, nor make a step fail)."""
from replay.common import main
from replay import instr


def scenarios(seed, tier, failed):
    # a start-up that makes more handler calls than the step buffers hold (a 90-deep chain of initial transitions)
    n = 90
    yield {'kind': 'chart', 'parent': [-1] + list(range(n - 1)), 'init': [i + 1 for i in range(n - 1)] + [None],
           'react': {str(i): {} for i in range(n)}, 'start': 0, 'events': ['S0'], 'host': 'HsmWithQueues', 'spy': True,
           'exit_handled': [True] * n, 'entry_handled': [True] * n, 'live_spy': False, 'live_trace': False, 'timeout': 60}
    for k, sc in enumerate(instr.scenarios(seed, tier, failed, live=False)):
        yield sc
        if k % 7 == 3:
            yield dict(sc, plain_decorator=True)
        if k % 10 == 0 and sc['host'] == 'HsmWithQueues' and sc.get('spy'):
            yield dict(sc, kind='live-callback', live_spy=True, live_trace=True, callback_scribbles=True)


def run(sc):
    if sc.get('kind') == 'live-callback':
        r = instr.run_c21(sc)
        return (r[0], r[1], 'live-spy') if not r[0] else (True, '')
    return instr.run_c18(sc)


if __name__ == '__main__':
    main('C18', scenarios, run, budget_s=120)
