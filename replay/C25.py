"""C25 native oracle: the signal registry under sequences of names, and under a forced overlap of two registrations
(the schedule is forced from user code: a str subclass whose __hash__ blocks on its second use; miros untouched)."""
import random
import threading
import time

from replay.common import main

_n = [0]


def scenarios(seed, tier, failed):
    yield {'kind': 'race', 'via': 'append', 'timeout': 20}
    yield {'kind': 'race', 'via': 'event', 'timeout': 20}
    yield {'kind': 'iterate', 'timeout': 20}
    yield {'kind': 'colliding', 'timeout': 30}
    yield {'kind': 'big', 'timeout': 30}
    for via in ('event', 'attr'):
        for k in range(1, 26):
            yield {'kind': 'interleave', 'via': via, 'stop_at_line': k, 'timeout': 20}
    rnd = random.Random(seed)
    for _ in range(50 if tier == 'quick' else 2000):
        ops = []
        for _ in range(rnd.randint(3, 12)):
            ops.append([rnd.choice(['append', 'attr', 'event-name', 'event-number', 'name_for', 'inner']),
                        rnd.choice(['N%d' % rnd.randint(0, 6), 'ENTRY_SIGNAL', 'PUBLISH_META_SIGNAL'])])
        yield {'kind': 'seq', 'ops': ops}


def run_seq(sc):
    from miros.event import signals, Event
    _n[0] += 1
    tag = 'C25_%d_' % _n[0]
    seen = dict(signals)                       # the binding so far: must never change
    builtin = list(signals.keys())[:10]
    for k, (op, nm) in enumerate(sc['ops']):
        name = nm if nm in builtin else tag + nm
        if op == 'append':
            signals.append(name)
        elif op == 'attr':
            v = getattr(signals, name)
            if v != signals[name]:
                return False, 'signals.%s returned %r but the registry binds %r' % (name, v, signals[name]), '__getattr__'
        elif op == 'event-name':
            e = Event(signal=name)
            if e.signal_name != name or e.signal != signals[name]:
                return False, 'Event(%r) reports (%r, %r)' % (name, e.signal_name, e.signal), 'Event[name]'
        elif op == 'event-number':
            if name in signals:
                e = Event(signal=signals[name])
                if e.signal_name != name or e.signal != signals[name]:
                    return False, 'Event(%d) reports (%r, %r), expected %r' % (signals[name], e.signal_name, e.signal, name), \
                        'Event[number]'
        elif op == 'name_for':
            if name in signals and signals.name_for_signal(signals[name]) != name:
                return False, 'name_for_signal(%d) = %r, expected %r' % (signals[name], signals.name_for_signal(signals[name]), name), \
                    'name_for_signal'
        elif op == 'inner':
            if signals.is_inner_signal(name) != (name in builtin):
                return False, 'is_inner_signal(%r) = %r' % (name, signals.is_inner_signal(name)), 'is_inner_signal'
        for kname, num in seen.items():
            if signals.get(kname) != num:
                return False, 'op %d %s(%s): the number of %r changed from %r to %r' % (k, op, name, kname, num, signals.get(kname)), \
                    'append'
        nums = list(signals.values())
        if len(set(nums)) != len(nums) or nums != list(range(1, len(nums) + 1)):
            return False, 'op %d %s(%s): numbers are not distinct positions: %s' % (k, op, name, nums[-6:]), 'append'
        seen = dict(signals)
    return True, ''


def run_race(sc):
    from miros.event import signals, Event
    _n[0] += 1
    entered, go = threading.Event(), threading.Event()

    class Slow(str):
        uses = 0

        def __hash__(self):
            Slow.uses += 1
            if Slow.uses == 2:        # first use: the membership test; second use: the insertion
                entered.set()
                go.wait(3.0)
            return str.__hash__(self)

        def __eq__(self, other):
            return str.__eq__(self, other)

    a, b = Slow('C25_RACE_A_%d' % _n[0]), 'C25_RACE_B_%d' % _n[0]
    errors = []

    def first():
        try:
            signals.append(a) if sc['via'] == 'append' else Event(signal=a)
        except Exception as ex:
            errors.append(repr(ex))

    t = threading.Thread(target=first, daemon=True)
    t.start()
    entered.wait(2.0)
    done = []
    t2 = threading.Thread(target=lambda: done.append(signals.append(b) if sc['via'] == 'append' else Event(signal=b)), daemon=True)
    t2.start()
    t2.join(0.3)                                  # with a lock the second registration waits for the first
    go.set()
    t.join(3.0)
    t2.join(3.0)
    if errors:
        return False, 'registration failed: %s' % errors, 'append'
    na, nb = signals.get(str(a)), signals.get(b)
    if na is None or nb is None or na == nb:
        return False, 'two names registered at the same time got the numbers %r and %r' % (na, nb), 'append'
    return True, ''


def run_iterate(sc):
    """Event(signal=<number>) in one thread while another thread registers a new name.  The overlap is forced from
    user code: a line trace on Event.__init__ parks the constructing thread inside its loop over the registry."""
    import sys
    from miros.event import signals, Event
    _n[0] += 1
    inside, registered = threading.Event(), threading.Event()
    code = Event.__init__.__code__
    state = {'lines': 0}

    def local(frame, event, arg):
        if event == 'line':
            state['lines'] += 1
            if state['lines'] == 6 and not inside.is_set():     # a few lines in: inside the lookup of the name
                inside.set()
                registered.wait(3.0)
        return local

    def tracer(frame, event, arg):
        return local if frame.f_code is code else None

    errors, out = [], []
    number = signals.PUBLISH_META_SIGNAL + 0

    def construct():
        sys.settrace(tracer)
        try:
            out.append(Event(signal=number))
        except Exception as ex:
            errors.append(repr(ex))
        finally:
            sys.settrace(None)

    t = threading.Thread(target=construct, daemon=True)
    t.start()
    inside.wait(2.0)
    signals.append('C25_ITER_%d' % _n[0])
    registered.set()
    t.join(3.0)
    if errors:
        return False, 'Event(signal=%d) while another thread registered a name: %s' % (number, errors[0]), 'Event.__init__'
    if not out or out[0].signal_name != 'PUBLISH_META_SIGNAL':
        return False, 'Event(signal=%d) reported %r' % (number, out[0].signal_name if out else None), 'Event.__init__'
    return True, ''


def run_big(sc):
    """numbers beyond CPython's small-int cache, handed to Event as equal but distinct int objects"""
    from miros.event import signals, Event
    _n[0] += 1
    for i in range(300):
        signals.append('C25_BIG_%d_%d' % (_n[0], i))
    for name, num in list(signals.items()):
        copy = int(str(num))
        try:
            e = Event(signal=copy)
            got = (e.signal_name, e.signal)
        except Exception as ex:
            return False, 'Event(signal=%d) for %s raised %r' % (copy, name, ex), 'Event.__init__'
        if got != (name, num):
            return False, 'Event(signal=%d) reports %r, the registry binds %r' % (copy, got, (name, num)), 'Event.__init__'
        if signals.name_for_signal(copy) != name:
            return False, 'name_for_signal(%d) = %r, expected %r' % (copy, signals.name_for_signal(copy), name), 'name_for_signal'
    return True, ''


def run_interleave(sc):
    """Thread A registers a new name (through Event or attribute access) and is parked after its k-th source line in
    miros/event.py; meanwhile another new name is registered; A must still report the number the registry binds."""
    import sys
    import miros.event as ev
    from miros.event import signals, Event
    _n[0] += 1
    a, b = 'C25_IL_A_%d' % _n[0], 'C25_IL_B_%d' % _n[0]
    parked, resume = threading.Event(), threading.Event()
    fname = ev.__file__
    state = {'lines': 0}

    def local(frame, event, arg):
        if event == 'line' and frame.f_code.co_filename == fname:
            state['lines'] += 1
            if state['lines'] == sc['stop_at_line'] and not parked.is_set():
                parked.set()
                resume.wait(3.0)
        return local

    def tracer(frame, event, arg):
        return local if frame.f_code.co_filename == fname else None
    out, errors = [], []

    def worker():
        sys.settrace(tracer)
        try:
            out.append(Event(signal=a).signal if sc['via'] == 'event' else getattr(signals, a))
        except Exception as ex:
            errors.append(repr(ex))
        finally:
            sys.settrace(None)
    t = threading.Thread(target=worker, daemon=True)
    t.start()
    reached = parked.wait(1.0)
    if reached:
        # the other registration may have to wait for A's critical section: give it a moment, then let A go on
        t2 = threading.Thread(target=lambda: signals.append(b), daemon=True)
        t2.start()
        t2.join(0.2)
        resume.set()
        t2.join(3.0)
    resume.set()
    t.join(3.0)
    if errors:
        return False, 'registering %s raised %s' % (a, errors[0]), 'SignalSource.append'
    if not out or out[0] != signals.get(a):
        return False, 'the thread registering %s was told number %r, the registry binds %r (another name was registered ' \
                      'while it was parked after line %d)' % (a, out[0] if out else None, signals.get(a), sc['stop_at_line']), \
            'SignalSource.append'
    nums = list(signals.values())
    if len(set(nums)) != len(nums):
        return False, 'two names share a number', 'SignalSource.append'
    return True, ''


def run_colliding(sc):
    """signal names that are also attributes of the registry object or of dicts: registering them must not disturb
    the registry (they are ordinary keys)"""
    from miros.event import signals, Event
    builtin = list(signals.keys())[:10]
    seen = dict(signals)
    for name in ('open', 'highest_inner_signal', 'update', 'values', 'close', 'keys', 'items', 'clear', 'append',
                 'name_for_signal', 'pop', 'last'):
        try:
            e = Event(signal=name)
        except Exception as ex:
            return False, 'Event(%r) raised %r' % (name, ex), 'Event.__init__'
        if e.signal_name != name or e.signal != signals[name]:
            return False, 'Event(%r) reports (%r, %r), the registry binds %r' % (name, e.signal_name, e.signal, signals[name]), \
                'Event.__init__'
        try:
            back = signals.name_for_signal(signals[name])
            again = Event(signal=signals[name])
        except Exception as ex:
            return False, 'after registering %r: %r' % (name, ex), 'SignalSource.append'
        if back != name or again.signal_name != name:
            return False, 'name_for_signal / Event by number disagree for %r' % name, 'name_for_signal'
        for k, v in seen.items():
            if signals.get(k) != v:
                return False, 'registering %r changed the number of %r' % (name, k), 'SignalSource.append'
        for k in signals:
            if signals.is_inner_signal(k) != (k in builtin):
                return False, 'after registering %r: is_inner_signal(%r) = %r' % (name, k, signals.is_inner_signal(k)), \
                    'is_inner_signal'
        seen = dict(signals)
    return True, ''


def run(sc):
    if sc['kind'] == 'colliding':
        return run_colliding(sc)
    if sc['kind'] == 'interleave':
        return run_interleave(sc)
    if sc['kind'] == 'big':
        return run_big(sc)
    if sc['kind'] == 'iterate':
        return run_iterate(sc)
    return run_race(sc) if sc['kind'] == 'race' else run_seq(sc)


if __name__ == '__main__':
    main('C25', scenarios, run)
