"""C29 native oracle: instances of a class with thread-safe attributes hold independent values."""
from replay.common import main


POOL = ['a.x = 5', 'b.x = a.x + 1', 'a.x += 1', 'a.x += b.x', 'c.x -= a.x', 'c.x *= 2', 'b.x = 50', 'c.x = 7',
        'try:\n        a.x += boom()\n    except ValueError:\n        pass',
        'try:\n        b.x -= boom()\n    except ValueError:\n        pass']


def scenarios(seed, tier, failed):
    import random
    for n in (2, 3):
        for names in (['x'], ['x', 'y']):
            yield {'kind': 'tsa-instances', 'instances': n, 'names': names}
    # statements run from a real source file (the attribute reads its caller's source line), compared with plain objects
    yield {'kind': 'statements', 'stmts': ['a.x = 3', POOL[8], 'b.x = 50'], 'equal_instances': False}
    yield {'kind': 'statements', 'stmts': ['a.x = 1', 'b.x = 2', 'a.x += b.x'], 'equal_instances': False}
    yield {'kind': 'statements', 'stmts': ['a.x = 41', 'c.x = 7'], 'equal_instances': True}
    rnd = random.Random(seed + 29)
    for _ in range(60 if tier == 'quick' else 3000):
        yield {'kind': 'statements', 'stmts': [rnd.choice(POOL) for _ in range(rnd.randint(2, 7))],
               'equal_instances': rnd.random() < 0.3}


def run_statements(sc):
    import importlib.util
    import os
    import tempfile
    body = ''.join('    %s\n    log.append([o.x for o in (a, b, c)])\n' % st for st in sc['stmts'])
    eq = ('    def __eq__(self, o):\n        return isinstance(o, type(self)) and self.ch == o.ch\n'
          '    def __hash__(self):\n        return hash(self.ch)\n') if sc['equal_instances'] else ''
    src = ('from miros.thread_safe_attributes import MetaThreadSafeAttributes\n'
           'class K(metaclass=MetaThreadSafeAttributes):\n    _attributes = ["x"]\n'
           '    def __init__(self, ch):\n        self.ch = ch\n' + eq +
           'class P:\n    def __init__(self, ch):\n        self.ch = ch\n        self.x = 0\n' + eq +
           'def boom():\n    raise ValueError("boom")\n'
           'def go(a, b, c, log):\n' + body + '    return log\n')
    d = tempfile.mkdtemp(prefix='c29_')
    path = os.path.join(d, 'stmts_mod.py')
    with open(path, 'w') as f:
        f.write(src)
    try:
        spec = importlib.util.spec_from_file_location('c29_stmts_%d' % abs(hash(src)), path)
        mod = importlib.util.module_from_spec(spec)
        spec.loader.exec_module(mod)
        chans = (1, 1, 2) if sc['equal_instances'] else (1, 2, 3)      # a == b (distinct objects) when asked
        want = mod.go(*[mod.P(ch) for ch in chans], [])
        got = mod.go(*[mod.K(ch) for ch in chans], [])
        for k, (g, w) in enumerate(zip(got, want)):
            if g != w:
                return False, 'after statement %d (%s) the three instances read %s, plain objects give %s' % (
                    k, sc['stmts'][k].split(chr(10))[0], g, w), 'instances'
        late = mod.K(1)
        if late.x != 0:
            return False, 'an instance created after assignments reads %r, expected 0' % (late.x,), 'instances'
        return True, ''
    finally:
        try:
            os.unlink(path)
            os.rmdir(d)
        except OSError:
            pass


def run(sc):
    if sc['kind'] == 'statements':
        return run_statements(sc)
    from miros.thread_safe_attributes import MetaThreadSafeAttributes

    class K(metaclass=MetaThreadSafeAttributes):
        _attributes = list(sc['names'])

    objs = [K() for _ in range(sc['instances'])]
    for o in objs:
        for nm in sc['names']:
            v = getattr(o, nm)
            if v != 0:
                return False, 'a new instance reads %r for %s, expected 0' % (v, nm), 'instances'
    for k, o in enumerate(objs):
        for j, nm in enumerate(sc['names']):
            setattr(o, nm, 100 * k + j + 1)
            for k2, o2 in enumerate(objs):
                want = (100 * k2 + j + 1) if k2 <= k else 0
                got = getattr(o2, nm)
                if got != want:
                    return False, 'after instance %d.%s = %d, instance %d.%s reads %r (expected %r)' % (
                        k, nm, 100 * k + j + 1, k2, nm, got, want), 'instances'
    late = K()
    for nm in sc['names']:
        v = getattr(late, nm)
        if v != 0:
            return False, 'an instance created after assignments reads %r for %s, expected 0' % (v, nm), 'instances'
    return True, ''


if __name__ == '__main__':
    main('C29', scenarios, run)
