"""C29 native oracle: instances of a class with thread-safe attributes hold independent values."""
from replay.common import main


def scenarios(seed, tier, failed):
    for n in (2, 3):
        for names in (['x'], ['x', 'y']):
            yield {'kind': 'tsa-instances', 'instances': n, 'names': names}


def run(sc):
    from miros.thread_safe_attributes import MetaThreadSafeAttributes

    class K(metaclass=MetaThreadSafeAttributes):
        _attributes = list(sc['names'])

    objs = [K() for _ in range(sc['instances'])]
    for o in objs:
        for nm in sc['names']:
            v = getattr(o, nm)
            if v != 0:
                return False, 'a new instance reads %r for %s, expected 0' % (v, nm), 'instances'
    for k, o in enumerate(objs):
        for j, nm in enumerate(sc['names']):
            setattr(o, nm, 100 * k + j + 1)
            for k2, o2 in enumerate(objs):
                want = (100 * k2 + j + 1) if k2 <= k else 0
                got = getattr(o2, nm)
                if got != want:
                    return False, 'after instance %d.%s = %d, instance %d.%s reads %r (expected %r)' % (
                        k, nm, 100 * k + j + 1, k2, nm, got, want), 'instances'
    late = K()
    for nm in sc['names']:
        v = getattr(late, nm)
        if v != 0:
            return False, 'an instance created after assignments reads %r for %s, expected 0' % (v, nm), 'instances'
    return True, ''


if __name__ == '__main__':
    main('C29', scenarios, run)
