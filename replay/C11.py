"""C11 native oracle: cancel_event / cancel_events with ids and names that are equal to, but not the same object as,
the stored ones (rebuilt from text), on a real ActiveObject whose timer threads are asleep."""
import itertools
import time
import uuid

from replay.common import main


def scenarios(seed, tier, failed):
    for names in (['A'], ['A', 'B'], ['A', 'B', 'A'], ['B', 'A', 'C', 'A']):
        for how in ('rebuilt', 'same'):
            for idx in range(len(names)):
                yield {'kind': 'cancel', 'names': names, 'by': 'id', 'index': idx, 'how': how, 'timeout': 20}
            for nm in sorted(set(names)):
                yield {'kind': 'cancel', 'names': names, 'by': 'name', 'name': nm, 'how': how, 'timeout': 20}


def run(sc):
    from miros.activeobject import ActiveObject
    from miros.event import Event
    ao = ActiveObject(name='c11')
    ids, flags = [], []
    try:
        for nm in sc['names']:
            ids.append(ao.post_fifo(Event(signal='C11_' + nm), period=1000.0, times=3, deferred=True))
        flags = [pe.task_run_event for pe in ao.posted_events_queue]
        tracked = {pe.uuid: pe for pe in ao.posted_events_queue}
        if sc['by'] == 'id':
            target = ids[sc['index']]
            arg = uuid.UUID(str(target)) if sc['how'] == 'rebuilt' else target
            ao.cancel_event(arg)
            hit = {target}
            key = 'cancel_event:'
        else:
            nm = 'C11_' + sc['name']
            text = ''.join(list(nm)) if sc['how'] == 'rebuilt' else nm
            ev = Event(signal=text)
            if sc['how'] == 'rebuilt':
                ev.signal_name = ''.join(list(nm))        # a name received as text: equal, not the interned object
            ao.cancel_events(ev)
            hit = {i for i, n in zip(ids, sc['names']) if 'C11_' + n == nm}
            key = 'cancel_events:'
        left = {pe.uuid for pe in ao.posted_events_queue}
        for i in ids:
            pe = tracked[i]
            if i in hit:
                if pe.task_run_event.is_set() or i in left:
                    return False, 'source %s (%s) equal to the cancelled %s still %s' % (
                        i, pe.signal_name, sc['by'], 'running' if pe.task_run_event.is_set() else 'tracked'), key
            else:
                if not pe.task_run_event.is_set() or i not in left:
                    return False, 'source %s (%s) was not the one cancelled but was %s' % (
                        i, pe.signal_name, 'stopped' if not pe.task_run_event.is_set() else 'dropped from the tracked list'), key
        return True, ''
    finally:
        for f in flags:
            f.clear()


if __name__ == '__main__':
    main('C11', scenarios, run)
