"""C11 native oracle: cancel_event / cancel_events with ids and names that are equal to, but not the same object as,
the stored ones (rebuilt from text), on a real ActiveObject whose timer threads are asleep."""
import itertools
import time
import uuid

from replay.common import main


def scenarios(seed, tier, failed):
    for kind in ('fifo', 'lifo'):
        yield {'kind': 'cancel-before-first-run', 'queue': kind, 'timeout': 20}
    yield {'kind': 'subclass-capacity', 'capacity': 520, 'sources': 510, 'timeout': 60}
    for cap in (2, 3):
        yield {'kind': 'evict', 'capacity': cap, 'timeout': 20}
    for names in (['A'], ['A', 'B'], ['A', 'B', 'A'], ['B', 'A', 'C', 'A']):
        for how in ('rebuilt', 'same'):
            for idx in range(len(names)):
                yield {'kind': 'cancel', 'names': names, 'by': 'id', 'index': idx, 'how': how, 'timeout': 20}
            for nm in sorted(set(names)):
                yield {'kind': 'cancel', 'names': names, 'by': 'name', 'name': nm, 'how': how, 'timeout': 20}


def run_evict(sc):
    """capacity C: one live periodic source, C-1 finished one-shots, then one more timed post.  Whatever that post
    does, the live source must still be cancellable."""
    from miros.activeobject import ActiveObject, ActiveObjectOutOfPostedEventResources
    from miros.event import Event

    class Small(ActiveObject):
        QUEUE_SIZE = sc['capacity']
    ao = Small(name='c11e')
    flags = []
    try:
        live = ao.post_fifo(Event(signal='C11_LIVE'), period=0.03, times=0, deferred=True)
        for i in range(sc['capacity'] - 1):
            ao.post_fifo(Event(signal='C11_ONCE%d' % i), period=0.01, times=1, deferred=False)
        time.sleep(0.1)
        flags = [pe.task_run_event for pe in ao.posted_events_queue]
        try:
            ao.post_fifo(Event(signal='C11_EXTRA'), period=1000.0, times=1, deferred=True)
        except ActiveObjectOutOfPostedEventResources:
            pass
        flags += [pe.task_run_event for pe in ao.posted_events_queue if pe.task_run_event not in flags]
        ao.cancel_event(live)
        time.sleep(0.1)
        n1 = [e.signal_name for e in ao.queue.deque].count('C11_LIVE')
        time.sleep(0.15)
        n2 = [e.signal_name for e in ao.queue.deque].count('C11_LIVE')
        if n2 != n1:
            return False, 'cancel_event(id) returned but the source posted %d more events: it had been pushed out of ' \
                          'the tracked list by a later timed post' % (n2 - n1), 'timed/'
        return True, ''
    finally:
        for f in flags:
            f.clear()
        for pe in list(ao.posted_events_queue):
            pe.task_run_event.clear()


def run_cancel_before_first_run(sc):
    """A non-deferred periodic source is armed and cancelled before its timer thread gets its first time slice (the
    thread's run() is held behind a gate on the user side).  cancel_event has returned: the source posts nothing."""
    import threading
    import miros.activeobject as AOM
    from miros.event import Event
    gate = threading.Event()

    class Held(threading.Thread):
        def run(self):
            gate.wait(10)
            super().run()
    ao = AOM.ActiveObject(name='c11g')
    real = AOM.Thread
    AOM.Thread = Held
    try:
        post = ao.post_fifo if sc['queue'] == 'fifo' else ao.post_lifo
        sid = post(Event(signal='C11_GATED'), period=0.02, times=0, deferred=False)
    finally:
        AOM.Thread = real
    try:
        ao.cancel_event(''.join(list(sid)))
        gate.set()
        time.sleep(0.25)
        n = [e.signal_name for e in ao.queue.deque].count('C11_GATED')
        if n:
            return False, 'cancel_event(id) returned before the timer thread first ran, yet the source posted %d ' \
                          'event(s) afterwards' % n, 'runner:cancel'
        return True, ''
    finally:
        gate.set()
        for pe in list(ao.posted_events_queue):
            pe.task_run_event.clear()


def run_subclass_capacity(sc):
    """A subclass with a larger QUEUE_SIZE: every source that __post_event admits stays tracked and cancellable."""
    from miros.activeobject import ActiveObject, ActiveObjectOutOfPostedEventResources
    from miros.event import Event

    class Big(ActiveObject):
        QUEUE_SIZE = sc['capacity']
    ao = Big(name='c11s')
    ids, flags = [], []
    try:
        for i in range(sc['sources']):
            try:
                ids.append(ao.post_fifo(Event(signal='C11_SRC'), period=1000.0, times=1, deferred=True))
            except ActiveObjectOutOfPostedEventResources:
                break
            flags.append(ao.posted_events_queue[-1].task_run_event)
        tracked = {pe.uuid for pe in ao.posted_events_queue}
        lost = [i for i in ids if i not in tracked]
        if lost:
            return False, '%d of %d admitted sources are no longer tracked (the first one armed among them): ' \
                          'cancel_event cannot reach them' % (len(lost), len(ids)), 'ActiveObject.__init__[subclass]'
        ao.cancel_event(ids[0])
        if flags[0].is_set():
            return False, 'the first source armed is still running after cancel_event(id)', 'ActiveObject.__init__[subclass]'
        return True, ''
    finally:
        for f in flags:
            f.clear()


def run(sc):
    if sc['kind'] == 'evict':
        return run_evict(sc)
    if sc['kind'] == 'cancel-before-first-run':
        return run_cancel_before_first_run(sc)
    if sc['kind'] == 'subclass-capacity':
        return run_subclass_capacity(sc)
    from miros.activeobject import ActiveObject
    from miros.event import Event
    ao = ActiveObject(name='c11')
    ids, flags = [], []
    try:
        for nm in sc['names']:
            ids.append(ao.post_fifo(Event(signal='C11_' + nm), period=1000.0, times=3, deferred=True))
        flags = [pe.task_run_event for pe in ao.posted_events_queue]
        tracked = {pe.uuid: pe for pe in ao.posted_events_queue}
        if sc['by'] == 'id':
            target = ids[sc['index']]
            arg = ''.join(list(target)) if sc['how'] == 'rebuilt' else target     # equal text, a different object
            ao.cancel_event(arg)
            hit = {target}
            key = 'cancel_event:'
        else:
            nm = 'C11_' + sc['name']
            text = ''.join(list(nm)) if sc['how'] == 'rebuilt' else nm
            ev = Event(signal=text)
            if sc['how'] == 'rebuilt':
                ev.signal_name = ''.join(list(nm))        # a name received as text: equal, not the interned object
            ao.cancel_events(ev)
            hit = {i for i, n in zip(ids, sc['names']) if 'C11_' + n == nm}
            key = 'cancel_events:'
        left = {pe.uuid for pe in ao.posted_events_queue}
        for i in ids:
            pe = tracked[i]
            if i in hit:
                if pe.task_run_event.is_set() or i in left:
                    return False, 'source %s (%s) equal to the cancelled %s still %s' % (
                        i, pe.signal_name, sc['by'], 'running' if pe.task_run_event.is_set() else 'tracked'), key
            else:
                if not pe.task_run_event.is_set() or i not in left:
                    return False, 'source %s (%s) was not the one cancelled but was %s' % (
                        i, pe.signal_name, 'stopped' if not pe.task_run_event.is_set() else 'dropped from the tracked list'), key
        return True, ''
    finally:
        for f in flags:
            f.clear()


if __name__ == '__main__':
    main('C11', scenarios, run)
