"""C07 native oracle: real active objects; subscribe before/after start, from inside a handler, with or without
spy-decorated states, with or without another subscriber already registered; publish from another object."""
import itertools
import time

from replay.common import main

_n = [0]


def scenarios(seed, tier, failed):
    for spy, when, other_first, pub_when in itertools.product((True, False), ('before', 'after', 'inside'),
                                                              (False, True), ('after', 'before')):
        yield {'kind': 'pubsub', 'spy': spy, 'when': when, 'other_first': other_first, 'pub_when': pub_when,
               'timeout': 30}
    for spy in (True, False):
        for when in ('after', 'inside', 'before'):
            yield {'kind': 'pubsub', 'spy': spy, 'when': when, 'other_first': True, 'pub_when': 'before',
                   'two_signals': True, 'other_kind': 'lifo', 'timeout': 30}
    # the subscriber is in the middle of a long step when another thread subscribes it and a publication follows at
    # once; the publisher is itself subscribed to what it publishes
    for spy in (True, False):
        yield {'kind': 'pubsub', 'spy': spy, 'when': 'after', 'other_first': False, 'pub_when': 'before', 'busy': True,
               'timeout': 30}
        yield {'kind': 'pubsub', 'spy': spy, 'when': 'after', 'other_first': False, 'pub_when': 'before',
               'publisher_subscribed': True, 'timeout': 30}


def run(sc):
    from miros.activeobject import ActiveObject, ActiveFabric
    from miros.event import Event, signals, return_status
    from miros.hsm import spy_on
    from replay.C13 import cleanup
    _n[0] += 1
    sig = 'C07_SIG_%d' % _n[0]
    af = ActiveFabric()
    cleanup(af)
    objs = []

    def make(name, log, subscribe_inside):
        def only(chart, e):
            if e.signal == signals.ENTRY_SIGNAL:
                if subscribe_inside:
                    chart.subscribe(Event(signal=sig))
                    if sc.get('two_signals'):
                        chart.subscribe(Event(signal=sig + '_B'))
                return return_status.HANDLED
            if e.signal in (signals.EXIT_SIGNAL, signals.INIT_SIGNAL):
                return return_status.HANDLED
            if e.signal_name in (sig, sig + '_B'):
                log.append(e.signal_name)
                return return_status.HANDLED
            if e.signal_name == 'C07_BUSY':
                time.sleep(0.4)
                return return_status.HANDLED
            if e.signal_name == 'C07_DO_PUBLISH':
                chart.publish(Event(signal=sig))
                if sc.get('two_signals'):
                    chart.publish(Event(signal=sig + '_B'))
                return return_status.HANDLED
            chart.temp.fun = chart.top
            return return_status.SUPER
        only.__name__ = 'only_' + name
        fn = spy_on(only) if sc['spy'] else only
        ao = ActiveObject(name=name)
        objs.append(ao)
        return ao, fn

    try:
        log, olog, plog = [], [], []
        if sc['other_first']:
            other, ofn = make('other', olog, False)
            other.subscribe(Event(signal=sig), queue_type=sc.get('other_kind', 'fifo'))
            other.start_at(ofn)
            time.sleep(0.05)
        sub, sfn = make('subscriber', log, sc['when'] == 'inside')
        pub, pfn = make('publisher', plog, False)
        if sc['pub_when'] == 'before':
            pub.start_at(pfn)
        if sc['when'] == 'before':
            sub.subscribe(Event(signal=sig))
            if sc.get('two_signals'):
                sub.subscribe(Event(signal=sig + '_B'))
            sub.start_at(sfn)
        elif sc['when'] == 'after':
            sub.start_at(sfn)
            time.sleep(0.05)
            if sc.get('busy'):
                sub.post_fifo(Event(signal='C07_BUSY'))
                time.sleep(0.05)
            sub.subscribe(Event(signal=sig))
            if sc.get('two_signals'):
                sub.subscribe(Event(signal=sig + '_B'))
        else:
            sub.start_at(sfn)
        if sc.get('publisher_subscribed'):
            pub.subscribe(Event(signal=sig))
        if not sc.get('busy'):
            time.sleep(0.1)
        if sc['pub_when'] == 'after':
            pub.start_at(pfn)
            time.sleep(0.05)
        pub.post_fifo(Event(signal='C07_DO_PUBLISH'))
        t0 = time.time()
        want = 2 if sc.get('two_signals') else 1
        while len(log) < want and time.time() - t0 < (1.2 if sc.get('busy') else 0.7):
            time.sleep(0.01)
        time.sleep(0.05)
        cfg = 'spy=%s subscribe %s start, other subscriber first=%s' % (sc['spy'], sc['when'], sc['other_first'])
        if sorted(log) != sorted([sig, sig + '_B'][:want]):
            key = 'ao.subscribe' if (sc['spy'] or sc['other_first']) else 'ao.'
            if sc.get('two_signals'):
                key = '*'
            return False, 'subscriber received %s, expected one each of %d signal(s) (%s)' % (
                [x.split('_')[-1] for x in log], want, cfg), key
        if sc.get('publisher_subscribed') and plog.count(sig) != 1:
            return False, 'the publisher is subscribed to its own signal and received it %d times (%s)' % (plog.count(sig), cfg), \
                'ao.publish'
        if sc['other_first'] and len(olog) != 1:
            return False, 'publication reached the earlier subscriber %d times (%s)' % (len(olog), cfg), 'ao.publish'
        return True, ''
    finally:
        for ao in objs:
            try:
                if ao.thread is not None:
                    ao.stop()
            except Exception:
                pass
        cleanup(af)


if __name__ == '__main__':
    main('C07', scenarios, run)
