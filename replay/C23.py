"""C23 native oracle: see replay/instr.py."""
from replay.common import main
from replay import instr


def scenarios(seed, tier, failed):
    return instr.scenarios(seed, tier, failed, live=('C23' == 'C21'))


def run(sc):
    return instr.run_c23(sc)


if __name__ == '__main__':
    main('C23', scenarios, run, budget_s=120)
