"""C12 native oracle (real threads): see replay/ao_native.py."""
from replay.common import main
from replay import ao_native as N


def scenarios(seed, tier, failed):
    return N.stop_scenarios(seed, tier)


def run(sc):
    return N.run_stop(sc)


if __name__ == '__main__':
    main('C12', scenarios, run, budget_s=120)
