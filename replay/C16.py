"""C16 native oracle: LockingDeque / queued-chart queues against a reference bounded deque + token count."""
import itertools
import random
import sys
from collections import deque

from replay.common import main

OPS = ['append', 'appendleft', 'pop', 'popleft', 'clear', 'take_token', 'len']


def scenarios(seed, tier, failed):
    # forced interleavings of posting threads and the consumer (sampled schedules; see replay/ld_schedules.py)
    from replay import ld_schedules
    for k, sc in enumerate(ld_schedules.scenarios(seed, tier)):
        if k < (40 if tier == 'quick' else 1500):
            yield sc
    for cap in (1, 3, 4):
        yield {'kind': 'subclass-capacity', 'cap': cap}
    # exhaustive short histories on capacity 2, then random longer ones on capacity 2..4
    for n in range(1, 6):
        for ops in itertools.product(OPS[:6], repeat=n):
            yield {'kind': 'ld', 'M': 2, 'ops': list(ops)}
    rnd = random.Random(seed)
    for _ in range(3000 if tier == 'quick' else 60000):
        yield {'kind': 'ld', 'M': rnd.choice([1, 2, 3, 4]), 'ops': [rnd.choice(OPS) for _ in range(rnd.randint(3, 14))]}


def run(sc):
    if sc.get('kind') == 'ld-schedule':
        from replay import ld_schedules
        ok, detail = ld_schedules.run_schedule(sc)
        return ok, detail, 'LockingDeque.append'
    from miros.hsm import HsmWithQueues
    from miros.activeobject import LockingDeque
    if sc.get('kind') == 'subclass-capacity':
        from miros.event import Event
        Small = type('Small', (HsmWithQueues,), {'QUEUE_SIZE': sc['cap']})
        ch = Small()
        for i in range(sc['cap'] + 2):
            (ch.post_fifo if i % 2 else ch.post_lifo)(Event(signal='C16_E%d' % i))
            if len(ch.queue) > sc['cap']:
                return False, 'a chart class with QUEUE_SIZE=%d holds %d pending events' % (sc['cap'], len(ch.queue)), \
                    'HsmWithQueues.__init__'
        for i in range(sc['cap'] + 2):
            ch.defer(Event(signal='C16_D%d' % i))
        if len(ch.defer_queue) > sc['cap']:
            return False, 'a chart class with QUEUE_SIZE=%d holds %d deferred events' % (sc['cap'], len(ch.defer_queue)), \
                'HsmWithQueues.__init__'
        return True, ''
    M = sc['M']
    old = HsmWithQueues.QUEUE_SIZE
    HsmWithQueues.QUEUE_SIZE = M
    try:
        ld = LockingDeque()
        ref = deque(maxlen=M)
        tokens = 0
        k = 0
        for i, op in enumerate(sc['ops']):
            was_idle = (tokens == len(ref))
            try:
                if op in ('append', 'appendleft'):
                    k += 1
                    full = len(ref) == M
                    getattr(ld, op)(k)
                    if full:
                        # which pending event is displaced is not specified; the new one must be kept
                        if op == 'append':
                            if len(ld.deque) != M or ld.deque[-1] != k:
                                return False, 'step %d %s on full queue: new event not kept at the back: %r' % (i, op, list(ld.deque)), 'LockingDeque.' + op + ':'
                        else:
                            if len(ld.deque) != M or ld.deque[0] != k:
                                return False, 'step %d %s on full queue: new event not kept at the front: %r' % (i, op, list(ld.deque)), 'LockingDeque.' + op + ':'
                        ref = deque(ld.deque, maxlen=M)
                    else:
                        getattr(ref, op)(k)
                    tokens = max(min(tokens + 1, M), len(ref))
                    if was_idle and ld.qsize() != len(ld.deque):
                        return False, 'step %d %s: idle queue lost token balance: tokens=%d len=%d' % (i, op, ld.qsize(), len(ld.deque)), 'LockingDeque.' + op + ':'
                elif op in ('pop', 'popleft'):
                    if len(ref) == 0:
                        try:
                            getattr(ld, op)()
                            return False, 'step %d %s on empty queue returned' % (i, op)
                        except IndexError:
                            pass
                    else:
                        a, b = getattr(ld, op)(), getattr(ref, op)()
                        if a != b:
                            return False, 'step %d %s returned %r, a bounded deque returns %r' % (i, op, a, b)
                elif op == 'clear':
                    ld.clear()
                    ref.clear()
                    tokens = 0
                    if ld.qsize() != 0:
                        return False, 'step %d clear left %d tokens' % (i, ld.qsize())
                elif op == 'take_token':
                    if ld.qsize() > 0:
                        ld.get(block=False)
                        tokens -= 1
                elif op == 'len':
                    if len(ld) != len(ref) or ld.len() != len(ref):
                        return False, 'step %d len=%d expected %d' % (i, len(ld), len(ref))
            except Exception as ex:
                return False, 'step %d %s raised %r' % (i, op, ex), 'LockingDeque.' + op + ':'
            if list(ld.deque) != list(ref):
                return False, 'step %d %s: contents %r, a bounded deque holds %r' % (i, op, list(ld.deque), list(ref)), 'LockingDeque.' + op + ':'
            if len(ld.deque) > M or ld.qsize() > M:
                return False, 'step %d capacity exceeded' % i
        return True, ''
    finally:
        HsmWithQueues.QUEUE_SIZE = old


if __name__ == '__main__':
    main('C16', scenarios, run)
