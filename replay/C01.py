"""C01 native oracle: generated charts on the real HsmEventProcessor against reference UML semantics
(with is_in / child_state queries between steps where the idle invariant is concerned)."""
from replay.common import main
from replay import charts

ASPECTS = {'C01': ('actions', 'state'), 'C02': ('offers', 'state', 'actions', 'ignored'), 'C03': ('actions', 'state'),
           'C22': ('actions', 'state', 'offers')}['C01']


def scenarios(seed, tier, failed):
    import random
    rnd = random.Random(seed + 303)
    for k, sc in enumerate(charts.standard_scenarios(seed, tier, with_queries=('C01' != 'C03'))):
        if k % 9 == 4:
            # a state that carries the same __name__ as one of its ancestors (distinct functions)
            n = len(sc['parent'])
            pairs = [(s_, a) for s_ in range(n) for a in charts.ancestors(sc['parent'], s_)[1:] if a != -1]
            if pairs:
                s_, a = rnd.choice(pairs)
                sc['same_name_as'] = {str(s_): a}
        if 'C01' == 'C03':
            sc['events'] = []
        yield sc


def run(sc):
    ok, detail, key = charts.run_and_check(sc, ASPECTS)
    if 'C01' == 'C03' and key == 'dispatch':
        return True, ''
    if 'C01' in ('C01', 'C02') and key == 'start_at':
        return True, ''
    return ok, detail


if __name__ == '__main__':
    main('C01', scenarios, run)
