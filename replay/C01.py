"""C01 native oracle: generated charts on the real HsmEventProcessor against reference UML semantics
(with is_in / child_state queries between steps where the idle invariant is concerned)."""
from replay.common import main
from replay import charts

ASPECTS = {'C01': ('actions', 'state'), 'C02': ('offers', 'state', 'actions', 'ignored'), 'C03': ('actions', 'state'),
           'C22': ('actions', 'state', 'offers')}['C01']


def scenarios(seed, tier, failed):
    for sc in charts.standard_scenarios(seed, tier, with_queries=('C01' != 'C03')):
        if 'C01' == 'C03':
            sc['events'] = []
        yield sc


def run(sc):
    ok, detail, key = charts.run_and_check(sc, ASPECTS)
    if 'C01' == 'C03' and key == 'dispatch':
        return True, ''
    if 'C01' in ('C01', 'C02') and key == 'start_at':
        return True, ''
    return ok, detail


if __name__ == '__main__':
    main('C01', scenarios, run)
